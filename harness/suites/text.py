"""
Suite `text` (C03, C17): namespaces of abstract definitions x formatting decorations, rendered to DSDL text by the
renderer below, read by the real pydsdl (`read_namespace` / `read_files`) and by the Lean reader model
(lean/Model/Reader.lean, which gets the abstract lines, never the text).

Case
  {"mode": "ns"|"files", "defs": [{"name", "dir", "root", "final_fault", "dfault", "lines": [LINE...]}...],
   "deco": DECO, "alt": null | {"deco": DECO, "inserts": [[def, pos, LINE]...]}, "exotic": true (optional, see below)}
   "root" (optional, default "ns"; the same for all definitions of a case): the name of the root namespace directory.  Root, nested
   namespace ("dir"), type short names and attribute names of 35% of the cases come from pools of legal identifiers that begin with /
   contain / are all but a suffix of a word of the grammar (KW_* below).  "exotic": comments and string literals of the case contain
   characters that Python's string API treats specially and the grammar does not (LINE_BOUNDARY, SPACE_LIKE, ... below); the comment
   text "c" and the tokens hold them as they are written to the file
LINE
  {"toks": null | [[token, sep]...]   sep = "r" (>=1 blank) | "o" (>=0 blanks) | "n" (nothing) after the token
   "s": null | ["attr", kind, name, normalised type, value] | ["dir", name, EVAL|null, printed text] | ["marker"],
   "refs": [identifier...], "deps": [definition index...], "offs": bool, "fault": null|"syn"|"pre"|"mid"|"emit"|"commit",
   "bad": null | [category, "stmt"|"commit"|"final"],   (oracle only: this statement is an injected fault)
   "c": null | comment text after the '#', "lead": blanks before the comment / of a blank-only line,
   "nl": number of RAW LINE BREAKS inside the string literals of the statement (a line feed character in the tokens; the renderer turns each
         into a line break of the file's newline convention), i.e. the statement occupies nl+1 physical lines}
   a definition may carry "unload": KIND - its file cannot be loaded as text at all (bytes that are not UTF-8: a Latin-1 letter, a lone
   continuation byte, a truncated sequence, an overlong form, an encoded surrogate, UTF-16 with BOM; or a directory under the definition's file name); its lines are what the file would have held
   a definition may carry "badfile": {"root": "ns"|"lib", "rel": path below that root, "why": kind} - a file whose NAME is malformed
   (version or port-ID that is no decimal numeral, wrong number of dot-separated components, a namespace directory with a dot), in
   the namespace that is read or in a second root namespace `lib` that is only passed as a lookup directory; such a file is a fault
   wherever it lies: both entry points meet it when the directories are scanned, before any definition is read
DECO
  {"seed": int, "ws": "min"|"wild", "eol": "lf"|"crlf"|"mixed"|"cr"|"mixed3", "final_nl": [bool per def], "route": "file"|"raw",
   "cwd": "abs" (default: the working directory is unrelated, every path is given absolute) | "parent-abs" | "parent-rel" (the process
   runs in the directory that holds the root namespace directories and names them relative: `ns`) | "sibling-rel" (`../ns`) | "deep-rel"
   (`../../ns`)}: a reported path - of an error or of a @print - is interpreted the way its receiver would, i.e. relative to the working
   directory of that moment, and must denote the very file the fault was planted in
  eol "cr" = bare CR (classic Mac), "mixed3" = LF / CR LF / CR at random; both only with route "file" (the library reads files in
  universal-newlines mode and so accepts them; with route "raw" the grammar itself sees the characters and knows only LF and CR LF)

Outcome
  {"res": "ok", "types": [[def index, COMPOSITE]...], "prints": [[def index, line, text]...]}
  {"res": "invalid", "file": def index, "line": int|null, "prints": [...], "soft_cls": ...}
plus, implementation side only, "alt" (outcome of the second rendering), "soft_canon"/"canon" (re-rendering check).

Oracles (independent of the Lean model and of the library's algorithm):
  C03  line-based reference of what the abstract definition must yield (every attribute statement once, in source
       order, with its forward-scanned doc comment); two renderings of one definition give equal models;
       canonical re-rendering (`str(attribute)`) read again gives an equal model.
  C17  the reported path is the file that holds an injected fault and a reported line is that statement's line
       (= 1 + the number of line terminators of the file in front of the statement, whatever the convention and
       wherever they stand - also inside string literals of earlier statements); a file that cannot be loaded at all is
       itself the reported path, however it was reached; every delivered @print corresponds to a @print statement at
       that path and line, none is delivered twice, and on success none is missing.
"""
from __future__ import annotations

import copy
import fractions
import os
import random
import re
import shutil
import tempfile
import typing
from pathlib import Path

import common

BLANKS = [" ", "\t"]

# ------------------------------------------------------------------------------------------------- rendering


def _blank_run(rng: random.Random, ws: str, required: bool) -> str:
    if ws == "min":
        return " " if required else ""
    n = rng.choice([1, 1, 2, 3, 5]) if required else rng.choice([0, 0, 1, 2, 4])
    return "".join(rng.choice(BLANKS) for _ in range(n))


EOLS = {"lf": ["\n"], "crlf": ["\r\n"], "cr": ["\r"], "mixed": ["\n", "\r\n"], "mixed3": ["\n", "\r\n", "\r"]}


def eol_style(deco: dict) -> str:
    st = deco["eol"]
    if deco.get("route") == "raw":  # the grammar itself knows only \r?\n
        st = {"cr": "crlf", "mixed3": "mixed"}.get(st, st)
    return st


def pick_eol(rng: random.Random, style: str, directly_after_cr: bool) -> str:
    opts = EOLS[style]
    if len(opts) == 1:
        return opts[0]
    e = rng.choice(opts)
    if directly_after_cr and e == "\n":
        e = "\r\n"  # CR directly followed by LF would be ONE line terminator, not two
    return e


def render_line(l: dict, rng: random.Random, ws: str, style: str = "lf", brks: typing.Optional[list] = None) -> str:
    out = ""
    toks = l.get("toks")
    if toks:
        for i, (tok, sep) in enumerate(toks):
            if l.get("nl") and "\n" in tok:
                # raw line breaks inside a string literal: written in the newline convention of the file
                parts = tok.split("\n")
                tok = parts[0]
                for part in parts[1:]:
                    b = pick_eol(rng, style, tok.endswith("\r"))
                    if brks is not None:
                        brks.append(b)
                    tok += b + part
            out += tok
            if i + 1 < len(toks):
                if sep == "r":
                    out += _blank_run(rng, ws, True)
                elif sep == "o":
                    out += _blank_run(rng, ws, False)
        if ws == "wild":
            out += _blank_run(rng, ws, False)  # trailing blanks / blanks before the comment
        elif l.get("c") is not None:
            out += " "
    else:
        out += l.get("lead") or ""
    if l.get("c") is not None:
        out += "#" + l["c"]
    return out


def line_is_empty(l: dict) -> bool:
    return not l.get("toks") and l.get("c") is None and not (l.get("lead") or "")


def render_def(d: dict, deco: dict, idx: int) -> typing.Tuple[str, typing.List[dict]]:
    """The text of one definition and the abstract lines the model gets (one per physical line)."""
    rng = random.Random("%s/%d" % (deco["seed"], idx))
    style = eol_style(deco)
    inner: typing.List[list] = [[] for _ in d["lines"]]
    texts = [render_line(l, rng, deco["ws"], style, inner[i]) for i, l in enumerate(d["lines"])]
    final_nl = bool(deco["final_nl"][idx % len(deco["final_nl"])]) if deco["final_nl"] else False
    n_eols = len(texts) - 1 + (1 if final_nl else 0)
    if not texts:
        texts = [""]
        n_eols = 1 if final_nl else 0
    eols: typing.List[str] = []
    for i in range(n_eols):
        eols.append(pick_eol(rng, style, bool(eols) and eols[-1] == "\r" and texts[i] == ""))
    text = ""
    mlines = []
    src = d["lines"] if d["lines"] else [{}]
    for i, t in enumerate(texts):
        e = eols[i] if i < len(eols) else ""
        text += t + e
        l = src[i]
        st = l.get("s")
        if st and l.get("nl") and st[0] == "dir" and st[1] == "print" and d["lines"]:
            st = st[:3] + [printed_literal(st[3], inner[i], deco)]
        mlines.append({"s": st, "refs": l.get("refs") or [], "deps": l.get("deps") or [], "offs": bool(l.get("offs")),
                       "fault": l.get("fault"), "c": l.get("c"), "e": len(t) == 0, "crlf": e == "\r\n", "inner": int(l.get("nl") or 0)})
    if final_nl:
        mlines.append({"s": None, "refs": [], "deps": [], "offs": False, "fault": None, "c": None, "e": True, "crlf": False, "inner": 0})
    return text, mlines


def printed_literal(canonical: str, brks: typing.List[str], deco: dict) -> str:
    """The text a @print of a string literal with raw line breaks delivers (the repr of the string): read in universal-newlines
    mode (route "file") every line break of the file is a line feed; read raw, the characters are the ones of the file."""
    if deco.get("route") != "raw":
        return canonical
    parts = canonical.split("\\n")
    if len(parts) != len(brks) + 1:
        return canonical
    out = parts[0]
    for b, part in zip(brks, parts[1:]):
        out += b.replace("\r", "\\r").replace("\n", "\\n") + part
    return out


def root_of(d: dict) -> str:
    """The name of the root namespace (directory) the definition lives in: "ns" unless the definition says otherwise."""
    return d.get("root") or "ns"


def case_root(v: dict) -> str:
    return root_of(v["defs"][0]) if v.get("defs") else "ns"


def def_relpath(d: dict) -> str:
    if d.get("badfile"):
        return (root_of(d) if d["badfile"]["root"] == "ns" else d["badfile"]["root"]) + "/" + d["badfile"]["rel"]
    port = "%d." % d["port"] if d.get("port") is not None else ""  # fixed port-ID: `<port>.<Name>.1.0.dsdl`
    return root_of(d) + "/" + (d["dir"] + "/" if d.get("dir") else "") + port + d["name"] + ".1.0.dsdl"


def def_fullname(d: dict) -> str:
    return root_of(d) + "." + (d["dir"] + "." if d.get("dir") else "") + d["name"]


def target_order(case: dict) -> typing.List[int]:
    if case["mode"] == "files":
        return [0]
    return sorted(range(len(case["defs"])), key=lambda i: def_fullname(case["defs"][i]))


def variant(case: dict) -> dict:
    """The second rendering of the same definitions: other decoration, extra blank/comment lines."""
    alt = case["alt"]
    v = {"mode": case["mode"], "defs": copy.deepcopy(case["defs"]), "deco": alt["deco"], "alt": None}
    for di, pos, line in sorted(alt.get("inserts") or [], key=lambda x: -x[1]):
        lines = v["defs"][di]["lines"]
        lines.insert(min(pos, len(lines)), copy.deepcopy(line))
    return v


# ------------------------------------------------------------------------------------------------- reference (oracle)


def clean_comment(c: str) -> str:
    return c[1:] if c.startswith(" ") else c


def join_comments(parts: typing.List[str]) -> str:
    acc = ""
    for p in parts:
        acc = (acc + "\n" if acc != "" else "") + p  # an empty accumulated text gets no separator (library quirk, mirrored)
    return acc


def comment_run(lines: typing.List[dict], start: int, first: typing.Optional[str]) -> str:
    """Doc text = own trailing comment, then the comments of the following lines up to the next statement or empty line."""
    parts = [] if first is None else [clean_comment(first)]
    j = start
    while j < len(lines) and lines[j].get("s") is None and not line_is_empty(lines[j]):
        if lines[j].get("c") is not None:
            parts.append(clean_comment(lines[j]["c"]))
        j += 1
    return join_comments(parts)


def reference(d: dict) -> dict:
    """What the definition must yield, straight from the statements (no state machine)."""
    lines = d["lines"]
    schemas = [{"union": False, "mode": None, "doc": comment_run(lines, 0, None), "fields": [], "consts": []}]
    deprecated = False
    for i, l in enumerate(lines):
        s = l.get("s")
        if s is None:
            continue
        if s[0] == "marker":
            schemas.append({"union": False, "mode": None, "doc": comment_run(lines, i + 1, l.get("c")), "fields": [], "consts": []})
        elif s[0] == "attr":
            doc = comment_run(lines, i + 1, l.get("c"))
            entry = [s[1], s[2], s[3], s[4], doc]
            schemas[-1]["consts" if s[1] == "const" else "fields"].append(entry)
        elif s[0] == "dir":
            if s[1] == "union":
                schemas[-1]["union"] = True
            elif s[1] == "deprecated":
                deprecated = True
            elif s[1] == "sealed":
                schemas[-1]["mode"] = "sealed"
            elif s[1] == "extent":
                schemas[-1]["mode"] = s[2][1]
    return {"deprecated": deprecated, "schemas": schemas}


def strip_docs(comp: dict) -> dict:
    return {"deprecated": comp["deprecated"],
            "schemas": [{"union": s["union"], "mode": s["mode"], "fields": [a[:4] for a in s["fields"]], "consts": [a[:4] for a in s["consts"]]}
                        for s in comp["schemas"]]}


UNLOADABLE = "unloadable-file"
FILE_NAME = "file-name"

PHYSICAL = [True]  # line numbers the oracle uses: physical lines of the text (a raw line break inside a string literal counts)


def lineno(d: dict, i: int) -> int:
    """1-based number of the physical line on which abstract line i of definition d starts."""
    if not PHYSICAL[0]:
        return i + 1
    return i + 1 + sum(int(l.get("nl") or 0) for l in d["lines"][:i])


def faults_of(v: dict) -> typing.List[tuple]:
    """Acceptable (file, line) pairs of the injected faults: [(def, line|None, class, category)]."""
    out = []
    for di, d in enumerate(v["defs"]):
        if d.get("unload"):
            out.append((di, None, "final", UNLOADABLE))  # the file cannot be loaded: none of its statements is ever seen
            continue
        if d.get("dfault"):
            out.append((di, None, "final", d["dfault"]))
        for i, l in enumerate(d["lines"]):
            if l.get("bad"):
                out.append((di, lineno(d, i), l["bad"][1], l["bad"][0]))
    return out


def n_lines(v: dict, di: int) -> int:
    d = v["defs"][di]
    fn = v["deco"]["final_nl"]
    if d["lines"]:
        last = len(d["lines"]) - 1
        n = lineno(d, last) + (int(d["lines"][last].get("nl") or 0) if PHYSICAL[0] else 0)
    else:
        n = 1
    return n + (1 if fn and fn[di % len(fn)] else 0)


def flush_line(v: dict, di: int, k: int) -> int:
    """The line at which a lazily committed attribute of (numbered) line k is actually committed (only used to classify)."""
    d = v["defs"][di]
    lines = d["lines"]
    start = next((i for i in range(len(lines)) if lineno(d, i) == k), None)
    if start is None:
        return -1
    j = start + 1
    while j < len(lines):
        if lines[j].get("s") is not None or line_is_empty(lines[j]):
            return lineno(d, j)
        j += 1
    return n_lines(v, di)


def reachable(v: dict, root: int) -> typing.Set[int]:
    seen = set()
    todo = [root]
    while todo:
        i = todo.pop()
        if i in seen or i >= len(v["defs"]):
            continue
        seen.add(i)
        for l in v["defs"][i]["lines"]:
            todo += l.get("deps") or []
    return seen


def prints_of(v: dict) -> typing.Dict[tuple, str]:
    out = {}
    for di, d in enumerate(v["defs"]):
        if d.get("unload"):
            continue
        rendered = None
        for i, l in enumerate(d["lines"]):
            s = l.get("s")
            if s and s[0] == "dir" and s[1] == "print":
                txt = s[3]
                if l.get("nl"):
                    # the characters of a raw line break inside the literal are those of this rendering
                    rendered = rendered or render_def(d, v["deco"], di)[1]
                    txt = rendered[i]["s"][3]
                out[(di, lineno(d, i))] = txt
    return out


def oracle_c03(v: dict, impl: dict) -> typing.Optional[str]:
    if faults_of(v):
        return None  # not a valid definition: C03 says nothing
    if impl.get("res") != "ok":
        return "rejected: valid definition rejected: %s" % {k: impl.get(k) for k in ("res", "file", "line", "soft_cls", "soft_msg")}
    got = {i: c for i, c in impl["types"]}
    for di in target_order(v):
        if di not in got:
            return "missing: definition %s missing from the result" % def_fullname(v["defs"][di])
        ref = reference(v["defs"][di])
        if got[di] != ref:
            if strip_docs(got[di]) != strip_docs(ref):
                return "mirror: model does not mirror the source of %s: got %s, source says %s" % (def_fullname(v["defs"][di]), _short(strip_docs(got[di])), _short(strip_docs(ref)))
            return "docs: doc comments of %s not attached as written: got %s, source says %s" % (def_fullname(v["defs"][di]), _short(_docs(got[di])), _short(_docs(ref)))
    return None


def _docs(comp):
    return [[s["doc"]] + [a[4] for a in s["fields"] + s["consts"]] for s in comp["schemas"]]


def boundary_chars_before(v: dict, di: int, line: int) -> int:
    """Characters in front of (numbered) line `line` of definition di at which str.splitlines() breaks but the grammar does not."""
    d = v["defs"][di]
    n = 0
    for i, l in enumerate(d["lines"]):
        if lineno(d, i) >= line:
            break
        text = (l.get("c") or "") + "".join(t[0] for t in l.get("toks") or [] if t[0][:1] in "'\"")
        n += sum(1 for ch in text if ch in LINE_BOUNDARY)
    return n


def oracle_c17(v: dict, impl: dict) -> typing.Optional[str]:
    r = oracle_c17_lines(v, impl)
    if r is not None and r.split(":")[0] in ("wrong-line", "lazy-attribute-line", "print-wrong-location", "print-wrong-text"):
        # does the reported line count characters that are no line terminators of DSDL (VT, FF, FS, GS, RS, NEL, LS, PS)?
        if r.startswith("print"):
            exp = prints_of(v)
            hit = any(isinstance(p[0], int) and isinstance(p[1], int) and exp.get((p[0], p[1])) != p[2] and
                      any((k[0] == p[0] or k[0] in reachable(v, p[0])) and exp[k] == p[2] and 0 < p[1] - k[1] <= boundary_chars_before(v, k[0], k[1]) for k in exp)
                      for p in impl.get("prints") or [])
        else:
            f, ln = impl.get("file"), impl.get("line")
            hit = any(x[0] == f and x[1] is not None and isinstance(ln, int) and 0 < ln - x[1] <= boundary_chars_before(v, f, x[1]) for x in faults_of(v))
        if hit:
            return "foreign-line-terminator: a character that is no DSDL line terminator (VT FF FS GS RS NEL LS PS) was counted as a line break (%s)" % r
    return r


def oracle_c17_lines(v: dict, impl: dict) -> typing.Optional[str]:
    r = oracle_c17_numbered(v, impl)
    if r is not None and any(l.get("nl") for d in v["defs"] for l in d["lines"]):
        # would the complaint disappear (or change) if line breaks inside string literals were not counted as lines?
        PHYSICAL[0] = False
        try:
            r2 = oracle_c17_numbered(v, impl)
        finally:
            PHYSICAL[0] = True
        if r2 is None:
            return "multiline-literal-line: line breaks inside a string literal are not counted, later lines are reported too low (%s)" % r
    return r


def oracle_c17_numbered(v: dict, impl: dict) -> typing.Optional[str]:
    faults = faults_of(v)
    if v["mode"] == "files":
        reach = reachable(v, 0)
        faults = [f for f in faults if f[0] in reach or f[3] == FILE_NAME]  # a malformed file name is met when the directories are scanned
    else:
        reach = set(range(len(v["defs"])))
    res = impl.get("res")
    unl = [x for x in faults if x[3] == UNLOADABLE]
    if unl and len(unl) == len(faults) and str(res).startswith("foreign:") and not str(res).startswith("foreign:harness"):
        return "unloadable-no-path: %s cannot be loaded; reading failed with %s, which names no file at all" % (sorted({_fname(v, x[0]) for x in unl}), res[8:])
    if res == "internal" and "file" not in impl:
        return None
    if res not in ("ok", "invalid", "internal"):
        return None  # crashes are C13's business; the correspondence still reports the difference
    # the exception CLASS is C13's business; an error that names a file (and a line) is judged on what it names
    if res in ("invalid", "internal") and faults:
        f, ln = impl.get("file"), impl.get("line")
        here = [x for x in faults if x[0] == f]
        if not here:
            if unl and len(unl) == len(faults):
                for di, d in enumerate(v["defs"]):
                    for i, l in enumerate(d["lines"]):
                        if di == f and any(u[0] in (l.get("deps") or []) for u in unl) and ln in (None, lineno(d, i)):
                            return "unloadable-dependency-path: %s cannot be loaded, the error names the referring file %s%s" % (
                                sorted({_fname(v, x[0]) for x in unl}), _fname(v, f), "" if ln is None else " (line %d, the reference)" % ln)
            if f == -1:
                return "wrong-path: the error's path %r, taken relative to the working directory %s, denotes no file of the namespaces; the fault is in %s" % (
                    impl.get("soft_path"), impl.get("soft_cwd"), sorted({_fname(v, x[0]) for x in faults}))
            return "wrong-path: error attributed to %s, the fault is in %s" % (_fname(v, f), sorted({_fname(v, x[0]) for x in faults}))
        okl = {x[1] for x in here} | ({None} if any(x[2] == "final" for x in here) else set())
        if any(x[3] == UNLOADABLE for x in here):
            ln = None  # whether a file that cannot be loaded is reported with a line (of the undecodable byte, say) is not judged
        if ln is not None and ln not in okl:
            for x in here:
                if x[2] == "commit" and x[1] is not None and ln == flush_line(v, f, x[1]):
                    return "lazy-attribute-line: %s statement on line %d of %s reported at line %d (where it was committed)" % (x[3], x[1], _fname(v, f), ln)
            if all(x[2] == "final" for x in here):
                for di, d in enumerate(v["defs"]):
                    for i, l in enumerate(d["lines"]):
                        if di != f and f in (l.get("deps") or []) and lineno(d, i) == ln:
                            return "dependency-finalize-line: error of %s (%s) reported with line %d, which is the referring line in %s" % (_fname(v, f), here[0][3], ln, _fname(v, di))
            return "wrong-line: fault on line(s) %s of %s reported at line %s" % (sorted(x[1] for x in here if x[1]), _fname(v, f), ln)
    # @print deliveries
    exp = prints_of(v)
    seen: typing.Dict[tuple, int] = {}
    wrong_path = None
    for pf, pl, pt in impl.get("prints") or []:
        cands = [(pf, pl)] if exp.get((pf, pl)) == pt else []
        if isinstance(pf, int) and pf >= 0:
            cands += [k for k in sorted(exp) if k[1] == pl and k[0] != pf and exp[k] == pt and k[0] in reachable(v, pf)]
        if not cands:
            if (pf, pl) in exp:
                return "print-wrong-text: %r instead of %r" % (pt, exp[(pf, pl)])
            return "print-wrong-location: delivery (%s, %s) matches no @print statement" % (_fname(v, pf), pl)
        # ambiguous deliveries (same line and text in a definition and in its dependency) are resolved in favour of the
        # known dependency defect, never in favour of an unexplained duplicate
        origin = next((k for k in cands if not seen.get(k)), cands[-1])
        if origin != (pf, pl) and wrong_path is None:
            wrong_path = (origin, pf)
        seen[origin] = seen.get(origin, 0) + 1
    twice = [o for o, n in seen.items() if n > 1]
    if wrong_path is not None:
        o, pf = wrong_path
        if twice:
            return "dependency-print-twice: @print on line %d of %s delivered %d times, also with path %s" % (twice[0][1], _fname(v, twice[0][0]), seen[twice[0]], _fname(v, pf))
        return "dependency-print-path: @print on line %d of %s delivered with path %s" % (o[1], _fname(v, o[0]), _fname(v, pf))
    if twice:
        return "print-twice: @print on line %d of %s delivered %d times" % (twice[0][1], _fname(v, twice[0][0]), seen[twice[0]])
    if res == "ok":
        for (pf, pl) in exp:
            if pf in reach and (pf, pl) not in seen:
                return "print-missing: @print on line %d of %s never delivered" % (pl, _fname(v, pf))
    return None


def _fname(v, i):
    try:
        if not isinstance(i, int) or i < 0:
            return "<no file of the case>"
        return def_relpath(v["defs"][i])
    except (IndexError, TypeError):
        return str(i)


def _short(x):
    s = repr(x)
    return s if len(s) < 300 else s[:300] + "..."


# ------------------------------------------------------------------------------------------------- implementation side


def comp_json(pydsdl, t) -> dict:
    parts = [t.request_type, t.response_type] if isinstance(t, pydsdl.ServiceType) else [t]
    schemas = []
    for sc in parts:
        inner = sc.inner_type
        fields = []
        for a in sc.fields:
            kind = "padding" if isinstance(a, pydsdl.PaddingField) else "field"
            fields.append([kind, a.name, str(a.data_type), "", a.doc])
        consts = [["const", a.name, str(a.data_type), str(a.value), a.doc] for a in sc.constants]
        schemas.append({"union": isinstance(inner, pydsdl.UnionType), "mode": sc.extent if isinstance(sc, pydsdl.DelimitedType) else "sealed",
                        "doc": sc.doc, "fields": fields, "consts": consts})
    return {"deprecated": bool(t.deprecated), "schemas": schemas}


def canonical_text(pydsdl, t) -> str:
    parts = [t.request_type, t.response_type] if isinstance(t, pydsdl.ServiceType) else [t]
    out = []
    for n, sc in enumerate(parts):
        if n:
            out.append("---")
        if n == 0 and t.deprecated:
            out.append("@deprecated")
        if isinstance(sc.inner_type, pydsdl.UnionType):
            out.append("@union")
        out += [str(a) for a in sc.attributes]
        out.append("@extent %d" % sc.extent if isinstance(sc, pydsdl.DelimitedType) else "@sealed")
    return "\n".join(out) + "\n"


def read_variant(pydsdl, v: dict, want_types: bool = False):
    """Render, write to a temporary namespace directory, read with the public API; returns (outcome, types by index)."""
    tmp = Path(tempfile.mkdtemp(prefix="vtext")).resolve()
    prints: typing.List[list] = []
    by_path = {}
    old_cwd = os.getcwd()
    cwd_mode = v["deco"].get("cwd") or "abs"
    workdir = {"parent-abs": tmp, "parent-rel": tmp, "sibling-rel": tmp / "cwd_here", "deep-rel": tmp / "cwd_here" / "below"}.get(cwd_mode)

    def spell(p: Path) -> Path:
        """The way the caller names a directory / file: absolute, or relative to the working directory."""
        return Path(os.path.relpath(str(p), str(workdir))) if cwd_mode.endswith("-rel") and workdir is not None else p

    try:
        for i, d in enumerate(v["defs"]):
            text, _ = render_def(d, v["deco"], i)
            p = tmp / def_relpath(d)
            p.parent.mkdir(parents=True, exist_ok=True)
            if d.get("unload"):
                write_unloadable(p, d["unload"], text, "%s/unload/%d" % (v["deco"]["seed"], i), tmp / ("elsewhere%d" % i))
            else:
                with open(p, "w", newline="", encoding="utf8") as f:
                    f.write(text)
            by_path[str(p.resolve())] = i
            by_path[os.path.abspath(str(p))] = i
            if d.get("badfile") and d["badfile"]["why"] == "dotted-directory":
                q = p.parent
                while q != tmp and "." not in q.name:
                    q = q.parent
                if q != tmp:
                    by_path[str(q.resolve())] = i  # naming the offending directory itself is as good as naming the file in it
        root = case_root(v)
        (tmp / root).mkdir(exist_ok=True)
        lookup = []
        if any(d.get("badfile") and d["badfile"]["root"] == "lib" for d in v["defs"]):
            # a second root namespace that is only looked into for dependencies (it holds a well-formed definition as well)
            (tmp / "lib").mkdir(exist_ok=True)
            with open(tmp / "lib" / "Dep.1.0.dsdl", "w", encoding="utf8") as f:
                f.write("uint8 x\n@sealed\n")
            lookup = [spell(tmp / "lib")]
        if workdir is not None:
            workdir.mkdir(parents=True, exist_ok=True)
            os.chdir(workdir)

        def idx_of(path) -> int:
            try:
                return by_path.get(str(Path(path).resolve()), -1)
            except Exception:  # pylint: disable=broad-except
                return -1

        def handler(path, line, text):
            prints.append([idx_of(path), line, text])

        raw = v["deco"].get("route") == "raw"
        mod = None
        if raw:
            try:
                import builtins
                from pydsdl import _dsdl_definition as mod  # type: ignore
                mod.open = lambda p, *a, **k: builtins.open(p, *a, newline="", **k)  # no newline translation: the grammar sees CR LF
            except Exception:  # pylint: disable=broad-except
                mod = None
        try:
            if v["mode"] == "files":
                direct, _tr = pydsdl.read_files([spell(tmp / def_relpath(v["defs"][0]))], [spell(tmp / root)], lookup, print_output_handler=handler)
            else:
                direct = pydsdl.read_namespace(spell(tmp / root), lookup, print_output_handler=handler)
        finally:
            if mod is not None:
                try:
                    del mod.open
                except AttributeError:
                    pass
        names = {def_fullname(d): i for i, d in enumerate(v["defs"])}
        types = {names[t.full_name]: t for t in direct if t.full_name in names}
        out = {"res": "ok", "types": [[i, comp_json(pydsdl, types[i])] for i in sorted(types)], "prints": prints}
        if len(types) != len(direct):
            out["res"] = "foreign:unknown-type-in-result"
        return out, (types if want_types else None)
    except pydsdl.InvalidDefinitionError as ex:
        shown = str(ex.path).replace(str(tmp), "<tmp>") if ex.path else None
        return {"res": "invalid", "file": idx_of(ex.path) if ex.path else None, "line": ex.line, "prints": prints,
                "soft_cls": type(ex).__name__, "soft_msg": str(ex.text)[:120], "soft_path": shown,
                "soft_cwd": os.getcwd().replace(str(tmp), "<tmp>") if workdir is not None else "(unrelated)"}, None
    except pydsdl.InternalError as ex:
        out = {"res": "internal", "prints": prints, "soft_msg": str(ex)[:200]}
        if getattr(ex, "path", None):
            out.update({"file": idx_of(ex.path), "line": getattr(ex, "line", None)})
        return out, None
    except Exception as ex:  # pylint: disable=broad-except
        return {"res": "foreign:" + type(ex).__name__, "prints": prints, "soft_msg": str(ex)[:200]}, None
    finally:
        os.chdir(old_cwd)
        shutil.rmtree(tmp, ignore_errors=True)


UNLOAD_KINDS = ["latin1", "continuation", "truncated", "overlong", "surrogate", "utf16", "dir"]  # "symdir": see KEPT_OUT_UNLOADABLE
BAD_BYTES = {"latin1": "caf\u00e9 \u00b0C".encode("latin-1"), "continuation": b"\x80", "overlong": b"\xc0\xaf", "surrogate": b"\xed\xa0\x80"}


def write_unloadable(p: Path, kind: str, text: str, seed: str, elsewhere: Path) -> None:
    """Put something under the definition's file name that cannot be loaded as UTF-8 text."""
    rng = random.Random(seed)
    data = text.encode("utf8")
    if kind == "dir":
        p.mkdir()
    elif kind == "symdir":
        elsewhere.mkdir(parents=True, exist_ok=True)
        p.symlink_to(elsewhere, target_is_directory=True)
    elif kind == "utf16":
        p.write_bytes((text or "\n").encode("utf-16"))  # starts with the byte order mark FF FE / FE FF
    elif kind == "truncated":
        p.write_bytes(data + rng.choice([b"# \xe2\x82", b"\xc3", b"#\xf0\x9f\x98"]))  # a multi-byte sequence cut off by the end of the file
    else:
        at = rng.choice([0, len(data), rng.randint(0, len(data))])
        p.write_bytes(data[:at] + (b"#" if rng.random() < 0.5 else b"") + BAD_BYTES[kind] + data[at:])


def canonical_check(pydsdl, v: dict, types: dict) -> typing.Optional[str]:
    """Render every returned model back with str(attribute), read again, compare (library == and attribute lists)."""
    tmp = Path(tempfile.mkdtemp(prefix="vcanon"))
    try:
        # definitions that were not returned (read_files: dependencies) are copied as they are
        for i, d in enumerate(v["defs"]):
            p = tmp / def_relpath(d)
            p.parent.mkdir(parents=True, exist_ok=True)
            text = canonical_text(pydsdl, types[i]) if i in types else render_def(d, v["deco"], i)[0]
            with open(p, "w", newline="", encoding="utf8") as f:
                f.write(text)
        try:
            if v["mode"] == "files":
                direct, _tr = pydsdl.read_files([tmp / def_relpath(v["defs"][0])], [tmp / case_root(v)])
            else:
                direct = pydsdl.read_namespace(tmp / case_root(v), [])
        except pydsdl.Error as ex:
            return "canonical rendering rejected: %s: %s" % (type(ex).__name__, str(ex)[-160:])
        again = {t.full_name: t for t in direct}
        for i, t in types.items():
            u = again.get(t.full_name)
            if u is None:
                return "canonical rendering lost %s" % t.full_name
            if not (u == t) or strip_docs(comp_json(pydsdl, u)) != strip_docs(comp_json(pydsdl, t)):
                return "re-read model of %s differs: %s vs %s" % (t.full_name, _short(strip_docs(comp_json(pydsdl, u))), _short(strip_docs(comp_json(pydsdl, t))))
        return None
    finally:
        shutil.rmtree(tmp, ignore_errors=True)


# ------------------------------------------------------------------------------------------------- generator

FIELD_NAMES = ["a", "b", "value", "x1", "my_field", "temperature", "f_", "_g", "abc123", "longer_name_here", "q", "data", "id", "ts",
               "n0", "arr", "msg", "k9", "uptime", "mode_", "health", "Mixed_Case", "v", "w2"]
CONST_NAMES = ["A", "B", "MAX", "LIMIT_1", "K", "ZERO", "X", "Y", "FOO_BAR", "C9", "N", "M", "lower_const"]
DEF_NAMES = ["Alpha", "Beta", "Gamma", "Delta", "Msg", "Zeta", "Kappa", "Omega", "Type1", "Foo", "Bar", "Node", "abc", "Zulu"]
COMMENTS = [" hello", "no space", "  two spaces", "", " ", " trailing blanks  ", " has # hash", "\tTab", " @sealed", " uint8 x", " ---",
            " The quick brown fox", "#", " a = b", "\t", " x\ty",
            " #1 of 3", " ## Heading", " # commented-out", "##", "# ", " #", "  # x", "#x"]


def T(*parts) -> list:
    """T("uint8", "r", "x") -> [["uint8","r"],["x","n"]]"""
    out = []
    i = 0
    while i < len(parts):
        out.append([parts[i], parts[i + 1] if i + 1 < len(parts) else "n"])
        i += 2
    return out


def cat(*tls) -> list:
    """Concatenate token lists; the separator after the last token of each part is given explicitly between parts."""
    out: list = []
    for x in tls:
        if isinstance(x, str):
            out[-1] = [out[-1][0], x]
        else:
            out += [list(t) for t in x]
    return out


def mk_line(toks=None, s=None, refs=None, deps=None, offs=False, fault=None, bad=None, c=None, lead="") -> dict:
    return {"toks": toks, "s": s, "refs": refs or [], "deps": deps or [], "offs": offs, "fault": fault, "bad": bad, "c": c, "lead": lead}


# ------------------------------------------------------------------------------------------------- numeric literals
#
# Every spelling of a number the grammar admits: integer literals in base 10 / 16 / 2 / 8 (prefix in either letter case, hexadecimal
# digits in either case, leading zeros behind the prefix, single underscores between digits and behind the prefix), real literals in
# point notation (`1.5`, `.5`, `5.`, `007.50`) and in exponent notation (`1e3`, `1E+3`, `2.5e-1`, `1_0e-0_2`, `.5e3`, `5.e-3`; exponents
# with either sign, leading zeros, from -4000 to +3000).  The value of a literal is computed HERE, from the digits the generator
# chose, in exact integer / rational arithmetic (`real_value`) - never by handing the text to a number parser - and the expected value
# of every constant, @print, @assert, array capacity and @extent that is written with such literals is derived from it.

FLOAT_MAX = {16: fractions.Fraction((2 ** 11 - 1) * 2 ** 5), 32: fractions.Fraction((2 ** 24 - 1) * 2 ** 104), 64: fractions.Fraction((2 ** 53 - 1) * 2 ** 971)}
# KEPT OUT of the generator (reported to the coordinator): numbers whose numerator or denominator has more than 4300 decimal digits.
# `float64 X = 1e-5000` is a valid constant and is read, but str(constant) - the canonical rendering - raises a bare ValueError
# ("Exceeds the limit (4300 digits) for integer string conversion"), and `@print 1e-5000` fails with InternalError for the same
# reason: the interpreter's limit on int -> str conversions (sys.set_int_max_str_digits).  Exponents stay within -4000 .. +3000.
MAX_DIGITS = 4100


def frac_str(v) -> str:
    """The normalised text of an exact rational: `p` or `p/q` in lowest terms."""
    v = fractions.Fraction(v)
    return "%d" % v.numerator if v.denominator == 1 else "%d/%d" % (v.numerator, v.denominator)


def sprinkle(rng, digits: str, p: float = 0.3) -> str:
    """Single underscores between digits (digit separators), at random."""
    if len(digits) < 2 or rng.random() >= p:
        return digits
    out = digits[0]
    for ch in digits[1:]:
        out += ("_" if rng.random() < 0.35 else "") + ch
    return out


def real_value(ip: str, fp: typing.Optional[str], exp: typing.Optional[int]) -> fractions.Fraction:
    """The number a real literal denotes, digit by digit: integer part `ip`, fractional digits `fp`, power of ten `exp`."""
    m = 0
    for ch in ip + (fp or ""):
        m = m * 10 + "0123456789".index(ch)
    e = (exp or 0) - len(fp or "")
    return fractions.Fraction(m * 10 ** e) if e >= 0 else fractions.Fraction(m, 10 ** (-e))


def real_text(rng, ip: str, fp: typing.Optional[str], exp: typing.Optional[int]) -> str:
    """ip: digits of the integer part ("" = none), fp: fractional digits (None = no point, "" = `5.`), exp: None = point notation."""
    assert ip or fp, (ip, fp, exp)
    assert fp is not None or exp is not None, (ip, fp, exp)  # digits alone would be an integer literal
    out = sprinkle(rng, ip) + ("" if fp is None else "." + sprinkle(rng, fp))
    if exp is None:
        return out
    sign = "-" if exp < 0 else rng.choice(["", "", "+"]) if exp > 0 else rng.choice(["", "+", "-"])
    digits = "0" * rng.choice([0, 0, 0, 1, 2]) + str(abs(exp))
    return out + rng.choice("eeE") + sign + sprinkle(rng, digits, 0.15)


def spell_real(rng, m: int, e: int, written: typing.Optional[int] = None, notation: str = "any") -> typing.Tuple[str, fractions.Fraction]:
    """A real literal that denotes m * 10**e (m >= 0) and the value its digits denote (recomputed from the chosen digits).
    `written`: the exponent to write (default: somewhere near e); notation "point" = no exponent part."""
    assert m >= 0
    if notation == "point" or (notation == "any" and -12 <= e <= 6 and rng.random() < 0.3):
        x: typing.Optional[int] = None
        d = e
    else:
        x = written if written is not None else e + rng.choice([0, 0, 0, 1, -1, 2, -2, 3, -3, 5, -6, len(str(m)) - 1, len(str(m)), -rng.randint(0, 9)])
        d = e - x
    if d >= 0:
        ip, fp = str(m) + "0" * d, None
        if x is None or rng.random() < 0.3:
            fp = "0" * rng.choice([0, 1, 1, 2])  # `120.` / `120.0`
    else:
        s = str(m).rjust(-d + 1, "0")
        ip, fp = s[:d], s[d:]
        if rng.random() < 0.5:
            fp = fp.rstrip("0")  # `1.50` -> `1.5`, `2.0` -> `2.`
        if rng.random() < 0.2:
            fp += "0" * rng.choice([1, 2])
        if ip == "0" and fp and rng.random() < 0.3:
            ip = ""  # `.5`
    if ip and rng.random() < 0.12:
        ip = "0" * rng.choice([1, 2]) + ip  # `007.5`, `01e3`: leading zeros are digits of a real literal
    if fp is None and x is None:
        fp = ""
    text = real_text(rng, ip, fp, x)
    v = real_value(ip, fp, x)
    assert v == (fractions.Fraction(m * 10 ** e) if e >= 0 else fractions.Fraction(m, 10 ** (-e))), (m, e, text)
    return text, v


def gen_mantissa(rng) -> int:
    r = rng.random()
    if r < 0.06:
        return 0
    if r < 0.45:
        return rng.randint(1, 99)
    if r < 0.85:
        return rng.randint(1, 10 ** rng.randint(3, 10))
    return rng.randint(10 ** 16, 10 ** rng.randint(17, 25))  # more digits than binary64 holds


def gen_exponent(rng) -> int:
    r = rng.random()
    if r < 0.5:
        return rng.randint(-6, 6)
    if r < 0.75:
        return rng.randint(-45, 30)
    if r < 0.92:
        return rng.choice([rng.randint(-330, 290), -323, -324, -325, -308, -307])
    return -rng.choice([331, 400, 1000, 1074, 1075, 4000, rng.randint(331, 4000)])  # far below the smallest binary64 subnormal: still not zero


def int_literal(rng, n: int) -> str:
    """The non-negative integer n as an integer literal of a random base and style."""
    r = rng.random()
    if r < 0.4 or n < 0:
        if n == 0:
            return rng.choice(["0", "0", "00", "0_0", "000"])
        return sprinkle(rng, str(n), 0.25)
    if r < 0.65 or (r < 0.8 and n >= 1 << 24):
        pre, digits = "0x", "%x" % n
        style = rng.choice(["l", "l", "u", "m"])
        digits = digits.upper() if style == "u" else "".join(c.upper() if rng.random() < 0.5 else c for c in digits) if style == "m" else digits
    elif r < 0.8:
        pre, digits = "0b", bin(n)[2:]
    else:
        pre, digits = "0o", oct(n)[2:]
    if rng.random() < 0.25:
        pre = pre.upper()
    digits = "0" * rng.choice([0, 0, 0, 1, 2]) + digits
    return pre + ("_" if rng.random() < 0.12 else "") + sprinkle(rng, digits, 0.25)


def power_of_ten(rng, k: int) -> str:
    """10**k (k >= 0) as an integer or a real literal."""
    r = rng.random()
    if r < 0.4 or k > 30:
        return real_text(rng, "1", None if rng.random() < 0.8 else "0", k)
    if r < 0.7:
        return sprinkle(rng, "1" + "0" * k, 0.2)
    return spell_real(rng, 1, k)[0]


def int_by_reals(rng, n: int) -> list:
    """Tokens of an expression with real literals whose exact value is the non-negative integer n."""
    r = rng.random()
    if r < 0.45:
        return T(spell_real(rng, n, 0)[0])  # 120 as `1.2e2`, `12000e-2`, `120.`, `0.12E+3`
    k = rng.choice([1, 1, 2, 3, 6, 9])
    lit, v = spell_real(rng, n, -k, notation=rng.choice(["any", "any", "exp"]))  # n / 10**k, e.g. `3e-1`
    assert v * 10 ** k == n
    if r < 0.8:
        a, b = T(lit), T(power_of_ten(rng, k))
        return cat(a, "o", T("*"), "o", b) if rng.random() < 0.7 else cat(b, "o", T("*"), "o", a)  # `3e-1 * 10`
    return cat(T(lit), "o", T("/"), "o", T(spell_real(rng, 1, -k, notation="exp")[0]))  # `3e-1 / 1e-1`


INT_EXPRS = [  # (tokens, value)
    (lambda n: T(str(n))),
    (lambda n: T(hex(n))),
    (lambda n: T("0b" + bin(n)[2:])),
    (lambda n: T("0o" + oct(n)[2:])),
    (lambda n: T(str(n - 1), "o", "+", "o", "1") if n >= 1 else T("0")),
    (lambda n: T("(", "o", str(n), "o", ")")),
    (lambda n: T(str(n), "o", "*", "o", "1")),
    (lambda n: T(str(2 * n), "o", "/", "o", "2")),
]


def int_spelling(rng, n: int, level: int = 0) -> list:
    """Tokens of a constant expression without identifiers whose value is the non-negative integer n (`level`: the binding strength
    the place needs - 5 for the right operand of `+`; only the constant-expression form is ever weaker than that)."""
    r = rng.random()
    if r < 0.35:
        return rng.choice(INT_EXPRS)(n)
    if r < 0.6:
        return T(int_literal(rng, n))
    if r < 0.8:
        return gen_rx_integer(rng, n, level)[0]   # a constant expression with non-integer / negative intermediate values (see "constant expressions")
    return int_by_reals(rng, n)


def int_expr(rng, n: int, consts: dict):
    """An expression text evaluating to the non-negative integer n; may refer to an earlier constant."""
    usable = [(k, v) for k, v in consts.items() if isinstance(v, int) and 0 <= v <= n]
    if usable and rng.random() < 0.35:
        k, v = rng.choice(usable)
        if v == n and rng.random() < 0.5:
            return T(k), [k]
        return cat(T(k, "o", "+", "o"), int_spelling(rng, n - v, 5) if rng.random() < 0.3 else T(str(n - v))), [k]
    return int_spelling(rng, n), []


def gen_real_literal(rng, max_abs=None) -> typing.Tuple[str, fractions.Fraction]:
    for _ in range(20):
        text, v = spell_real(rng, gen_mantissa(rng), gen_exponent(rng))
        if max_abs is None or v <= max_abs:
            return text, v
    return spell_real(rng, 15, -1)


def gen_real_expr(rng, max_abs=None, signed: bool = True) -> typing.Tuple[list, fractions.Fraction, str]:
    """(tokens, exact value, form) of a constant expression written with real literals; |value| <= max_abs."""
    for _ in range(30):
        r = rng.random()
        if r < 0.45:
            lit, v = gen_real_literal(rng)
            toks, form = T(lit), "literal"
        elif r < 0.55 and signed:
            lit, v = gen_real_literal(rng)
            toks, v, form = T("-", "o", lit), -v, "negated"
        elif r < 0.7:
            (a, va), (b, vb) = spell_real(rng, gen_mantissa(rng), rng.randint(-12, 6)), spell_real(rng, gen_mantissa(rng), rng.randint(-12, 6))
            op = rng.choice(["+", "*", "-"] if signed or va >= vb else ["+", "*"])
            toks, v, form = T(a, "o", op, "o", b), (va + vb if op == "+" else va * vb if op == "*" else va - vb), "sum-product"
        elif r < 0.77:
            (a, va), (b, vb) = gen_real_literal(rng, 10 ** 30), spell_real(rng, rng.randint(1, 999), rng.randint(-12, 6))
            toks, v, form = T(a, "o", "/", "o", b), va / vb, "quotient"
        elif r < 0.9:
            # huge and tiny factors that compensate each other: `1e400 / 1e399`, `2.5e-2000 * 4e2001`
            big = rng.choice([309, 400, 1000, 3000, rng.randint(309, 3000)])
            m1, m2, d = rng.randint(1, 999), rng.randint(1, 999), rng.randint(-6, 6)
            if rng.random() < 0.5:
                (a, va), (b, vb) = spell_real(rng, m1, big, notation="exp"), spell_real(rng, m2, big + d, notation="exp")
                toks, v = T(a, "o", "/", "o", b), va / vb
            else:
                (a, va), (b, vb) = spell_real(rng, m1, big, notation="exp"), spell_real(rng, m2, -big + d, notation="exp")
                if rng.random() < 0.5:
                    a, b = b, a
                toks, v = T(a, "o", "*", "o", b), va * vb
            form = "huge-compensated"
        else:
            k = rng.choice([1, 2, 3, 6])
            lit, va = gen_real_literal(rng)
            toks, v, form = cat(T(lit), "o", T("*"), "o", T(power_of_ten(rng, k))), va * 10 ** k, "scaled"
        if max_abs is not None and abs(v) > max_abs:
            continue
        if max(len(str(v.numerator)), len(str(v.denominator))) > MAX_DIGITS:
            continue
        return toks, v, form
    return T("1.5"), fractions.Fraction(3, 2), "literal"


def exact_ratio_tokens(v: fractions.Fraction) -> list:
    """v >= 0 written with plain decimal integers only: `p` or `p / q`."""
    return T(str(v.numerator)) if v.denominator == 1 else T(str(v.numerator), "o", "/", "o", str(v.denominator))


# ------------------------------------------------------------------------------------------------- constant expressions
#
# Constant EXPRESSIONS over numbers: every arithmetic / bitwise operator of the grammar (`+ - * / % **`, `| ^ &`, unary `+ -`) over
# integer and non-integer rationals - zero, negative, huge operands, integer and real literals of every spelling -, power with
# negative, zero and huge integer exponents and with fractional exponents whose result is exact (`(9/4) ** (3/2)`), nested, written
# with the parentheses the grammar needs (precedence and associativity as in the grammar: `**` binds tighter than a unary sign on its
# left and is right-associative, `| ^ &` share one level) plus redundant ones.  The expression is built as a TREE and its value is
# computed HERE, bottom-up, in exact integer arithmetic on numerator / denominator (`rx_apply`; never by evaluating the text), and
# every constant, capacity, @extent, @print and @assert written with it is judged against that value.
# Expressions that have no value (division by zero, 0 ** -1, bitwise operators on non-integers) are not generated.

RX_DIGITS = 350   # size limit of numerator / denominator of every intermediate value
RX_PREC = {"**": 7, "*": 5, "/": 5, "%": 5, "+": 4, "-": 4, "|": 3, "^": 3, "&": 3}
Fr = fractions.Fraction


def rx_floor(x: fractions.Fraction) -> int:
    return x.numerator // x.denominator


def rx_size(x: fractions.Fraction) -> int:
    return max(len(str(abs(x.numerator))), len(str(x.denominator)))


def rx_apply(op: str, a: fractions.Fraction, b: fractions.Fraction) -> typing.Optional[fractions.Fraction]:
    """The exact value of `a op b`; None if the operation is undefined (or too big to be worth generating)."""
    if op == "+":
        return Fr(a.numerator * b.denominator + b.numerator * a.denominator, a.denominator * b.denominator)
    if op == "-":
        return Fr(a.numerator * b.denominator - b.numerator * a.denominator, a.denominator * b.denominator)
    if op == "*":
        return Fr(a.numerator * b.numerator, a.denominator * b.denominator)
    if op == "/":
        return None if b == 0 else Fr(a.numerator * b.denominator, a.denominator * b.numerator)
    if op == "%":   # the remainder of the floored quotient: a - b * floor(a / b), sign of the divisor
        if b == 0:
            return None
        q = rx_floor(Fr(a.numerator * b.denominator, a.denominator * b.numerator))
        return a - b * q
    if op == "**":
        if b.denominator != 1:
            return None
        e = b.numerator
        if a == 0 and e < 0:
            return None
        if rx_size(a) * abs(e) > RX_DIGITS:
            return None
        return Fr(a.numerator ** e, a.denominator ** e) if e >= 0 else Fr(a.denominator ** -e, a.numerator ** -e)
    if a.denominator != 1 or b.denominator != 1:
        return None
    x, y = a.numerator, b.numerator
    return Fr(x | y if op == "|" else x ^ y if op == "^" else x & y)


def rx_lit(text: str, v) -> dict:
    return {"k": "lit", "t": text, "v": Fr(v)}


def rx_int_lit(rng, n: int) -> dict:
    return rx_lit(int_literal(rng, n) if rng.random() < 0.4 else str(n), n)


def rx_un(k: str, a: dict) -> dict:
    return {"k": k, "a": a, "v": -a["v"] if k == "neg" else a["v"]}


def rx_bin(op: str, a: dict, b: dict) -> typing.Optional[dict]:
    v = rx_apply(op, a["v"], b["v"])
    if v is None or rx_size(v) > RX_DIGITS:
        return None
    return {"k": "bin", "op": op, "a": a, "b": b, "v": v}


def rx_signed(rng, n: int) -> dict:
    return rx_int_lit(rng, n) if n >= 0 else rx_un("neg", rx_int_lit(rng, -n))


def rx_ratio(rng, v: fractions.Fraction) -> dict:
    """v written as `p`, `p / q`, `-p / q` or a real literal (when it has one)."""
    v = Fr(v)
    num = rx_signed(rng, v.numerator)
    if v.denominator == 1:
        return num
    if v > 0 and rng.random() < 0.3:
        k = next((i for i in range(1, 31) if (v * 10 ** i).denominator == 1), None)   # a terminating decimal fraction
        if k is not None:
            lit, lv = spell_real(rng, int(v * 10 ** k), -k)
            if lv == v:
                return rx_lit(lit, lv)
    out = rx_bin("/", num, rx_int_lit(rng, v.denominator))
    assert out is not None and out["v"] == v
    return out


def rx_leaf(rng) -> dict:
    r = rng.random()
    if r < 0.4:
        n = rng.choice([0, 1, 1, 2, 2, 3, 3, 5, 6, 7, 9, 10, 10, 12, 255])
        return rx_int_lit(rng, n)
    if r < 0.55:
        return rx_int_lit(rng, rng.choice([rng.randint(0, 1000), rng.randint(0, 2 ** 32), 2 ** rng.randint(1, 70) + rng.choice([-1, 0, 1]), 10 ** rng.randint(2, 30)]))
    if r < 0.9:
        lit, v = spell_real(rng, rng.choice([0, 1, 5, 15, 25, 125, rng.randint(1, 9999)]), rng.randint(-5, 3))
        return rx_lit(lit, v)
    lit, v = spell_real(rng, rng.randint(1, 999), rng.choice([-40, -25, 25, 40, 60]), notation="exp")   # huge / tiny
    return rx_lit(lit, v)


def rx_small_int(rng, lo: int, hi: int, depth: int = 1) -> dict:
    """A small integer (an exponent) as a literal, a signed literal or a little expression of its own."""
    n = rng.randint(lo, hi)
    r = rng.random()
    if r < 0.6 or depth <= 0:
        return rx_signed(rng, n)
    if r < 0.7:
        k = rng.randint(1, 9)
        return rx_bin("-", rx_int_lit(rng, n + k), rx_int_lit(rng, k)) if n + k >= 0 else rx_signed(rng, n)
    if r < 0.8:
        k = rng.choice([2, 3, 4])
        return rx_bin("/", rx_signed(rng, n * k), rx_int_lit(rng, k))
    if r < 0.9 and n < 0 and -n in (4, 8, 9):   # `2 ** -2 ** 2` is 2 ** -(2 ** 2)
        b, e = {4: (2, 2), 8: (2, 3), 9: (3, 2)}[-n]
        return rx_un("neg", rx_bin("**", rx_int_lit(rng, b), rx_int_lit(rng, e)))
    lit, v = spell_real(rng, abs(n), 0)
    return rx_lit(lit, v) if n >= 0 else rx_un("neg", rx_lit(lit, v))


SQUARE_ROOTS = [(2, 1), (3, 1), (5, 1), (7, 1), (10, 1), (12, 1), (1, 2), (3, 2), (5, 2), (7, 4), (9, 8), (1, 4), (15, 16), (4, 1), (1, 1), (0, 1)]


def rx_power(rng, depth: int) -> typing.Optional[dict]:
    r = rng.random()
    if r < 0.3:
        # an integer that is no power of two (possibly negative) to a NEGATIVE integer power: the result is no binary fraction
        b = rng.choice([3, 3, 5, 6, 7, 9, 10, 10, 11, 12, 100, 1000, rng.randint(3, 999)])
        base = rx_int_lit(rng, b) if rng.random() < 0.75 else rx_un("neg", rx_int_lit(rng, b))
        return rx_bin("**", base, rx_small_int(rng, -6, -1, depth))
    if r < 0.5:
        # a non-integer base (written as a real literal, a quotient or a deeper expression) to an integer power of either sign
        base = rx_gen(rng, depth - 1) if rng.random() < 0.5 else rx_ratio(rng, Fr(rng.randint(-30, 30), rng.choice([2, 3, 4, 5, 7, 10, 16, 100])))
        return rx_bin("**", base, rx_small_int(rng, -5, 5, depth))
    if r < 0.65:
        # 2 and 10 to huge powers of either sign
        return rx_bin("**", rx_int_lit(rng, rng.choice([2, 2, 10, 16])), rx_small_int(rng, -250, 250, 0))
    if r < 0.78:
        # zero and one as base or exponent
        k = rng.random()
        if k < 0.25:
            return rx_bin("**", rx_lit(rng.choice(["0", "0.0", "0e5"]), 0), rx_small_int(rng, 0, 5, depth))
        if k < 0.6:
            return rx_bin("**", rx_gen(rng, depth - 1), rx_lit(rng.choice(["0", "0.0", "00"]), 0))   # also 0 ** 0 = 1
        if k < 0.8:
            return rx_bin("**", rx_lit(rng.choice(["1", "1.0", "0x1"]), 1), rx_small_int(rng, -300, 300, depth))
        return rx_bin("**", rx_gen(rng, depth - 1), rx_lit(rng.choice(["1", "1.", "1e0"]), 1))
    if r < 0.9:
        # a fractional exponent whose result is exact: the square of a binary fraction to the power k/2
        a, b = rng.choice(SQUARE_ROOTS)
        k = rng.choice([1, 1, 3, 5]) * (rng.choice([1, -1]) if a in (1, 2, 4) else 1)   # a negative one only where the result stays a binary fraction
        base = rx_ratio(rng, Fr(a * a, b * b))
        ex = rx_ratio(rng, Fr(k, 2))
        if rx_size(Fr(a, b)) * abs(k) > 40:
            return None
        v = rx_apply("**", Fr(a, b), Fr(k))
        return None if v is None else {"k": "bin", "op": "**", "a": base, "b": ex, "v": v, "root": True}
    # right-associative towers: a ** b ** c is a ** (b ** c)
    a, b, c = rng.choice([2, 3, 10]), rng.choice([2, 3]), rng.choice([0, 1, 2])
    inner = rx_bin("**", rx_int_lit(rng, b), rx_int_lit(rng, c))
    return rx_bin("**", rx_int_lit(rng, a) if rng.random() < 0.6 else rx_ratio(rng, Fr(1, a)), inner if rng.random() < 0.6 else rx_un("neg", inner))


def rx_integer(rng, depth: int) -> dict:
    """An expression whose value is an integer (operand of a bitwise operator), of either sign."""
    for _ in range(6):
        n = rx_gen(rng, depth)
        if n["v"].denominator == 1 and rx_size(n["v"]) <= 40:
            return n
        if rx_size(n["v"]) <= 30:
            m = rx_bin("*", n, rx_int_lit(rng, n["v"].denominator))
            if m is not None:
                return m
    return rx_signed(rng, rng.randint(-300, 300))


def rx_gen(rng, depth: int) -> dict:
    """A random constant expression over numbers: the tree with the exact value of every node."""
    for _ in range(20):
        r = rng.random()
        n: typing.Optional[dict]
        if depth <= 0 or r < 0.22:
            n = rx_leaf(rng)
            if rng.random() < 0.25:
                n = rx_un("neg", n)
        elif r < 0.45:
            n = rx_power(rng, depth)
        elif r < 0.53:
            n = rx_un(rng.choice(["neg", "neg", "pos"]), rx_gen(rng, depth - 1))
        elif r < 0.65:
            n = rx_bin(rng.choice("|^&"), rx_integer(rng, depth - 1), rx_integer(rng, depth - 1))
        else:
            n = rx_bin(rng.choice(["+", "-", "*", "*", "/", "/", "%", "%"]), rx_gen(rng, depth - 1), rx_gen(rng, depth - 1))
        if n is not None and rx_size(n["v"]) <= RX_DIGITS:
            return n
    return rx_leaf(rng)


def rx_level(n: dict) -> int:
    return 9 if n["k"] == "lit" else 6 if n["k"] in ("neg", "pos") else RX_PREC[n["op"]]


def rx_text(n: dict, rng, level: int = 0) -> typing.List[str]:
    """The tokens of the expression, with the parentheses the grammar needs at this place (and now and then redundant ones)."""
    k = n["k"]
    if k == "lit":
        out = [n["t"]]
    elif k in ("neg", "pos"):
        out = ["-" if k == "neg" else "+"] + rx_text(n["a"], rng, 7)   # the operand of a sign: a power or an atom
    elif n["op"] == "**":
        out = rx_text(n["a"], rng, 9) + ["**"] + rx_text(n["b"], rng, 6)   # atom ** (signed | power | atom): right-associative
    else:
        lv = RX_PREC[n["op"]]
        out = rx_text(n["a"], rng, lv) + [n["op"]] + rx_text(n["b"], rng, lv + 1)   # chains of one level associate to the left
    if rx_level(n) < level or rng.random() < 0.06:
        out = ["("] + out + [")"]
    return out


def rx_toks(words: typing.List[str]) -> list:
    return [[w, "o"] for w in words[:-1]] + [[words[-1], "n"]]


def rx_classes(n: dict) -> typing.List[str]:
    """Feature names: the operators of the expression and the classes of its powers."""
    out: typing.List[str] = []
    todo = [n]
    while todo:
        x = todo.pop()
        if x["k"] == "lit":
            continue
        if x["k"] in ("neg", "pos"):
            out.append("op:unary" + ("-" if x["k"] == "neg" else "+"))
            todo.append(x["a"])
            continue
        out.append("op:" + x["op"])
        a, b = x["a"]["v"], x["b"]["v"]
        if x["op"] == "**":
            base = "zero" if a == 0 else ("integer" if a.denominator == 1 else "non-integer") + (":negative" if a < 0 else "") + \
                (":power-of-two" if a > 0 and a.denominator == 1 and a.numerator & (a.numerator - 1) == 0 else "")
            ex = "fractional" if b.denominator != 1 else "zero" if b == 0 else ("negative" if b < 0 else "positive") + (":huge" if abs(b) > 20 else "")
            out.append("power:%s-base:%s-exponent" % (base, ex))
        elif x["op"] in "/%" and (a.denominator != 1 or b.denominator != 1):
            out.append("op:%s:non-integer-operand" % x["op"])
        if x["op"] in "%|^&" and (a < 0 or b < 0):
            out.append("op:%s:negative-operand" % x["op"])
        todo += [x["a"], x["b"]]
    return sorted(set(out))


def gen_rx(rng, max_abs=None, depth: typing.Optional[int] = None, nonneg: bool = False) -> typing.Tuple[list, fractions.Fraction, list]:
    """(tokens, exact value, feature classes) of a random constant expression; |value| <= max_abs."""
    for _ in range(40):
        n = rx_gen(rng, depth if depth is not None else rng.choice([1, 2, 2, 3]))
        if n["k"] == "lit" or (max_abs is not None and abs(n["v"]) > max_abs) or (nonneg and n["v"] < 0):
            continue
        return rx_toks(rx_text(n, rng)), n["v"], rx_classes(n)
    n = rx_bin("**", rx_lit("3", 3), rx_un("neg", rx_lit("1", 1)))
    assert n is not None
    return rx_toks(rx_text(n, rng)), n["v"], rx_classes(n)


def gen_rx_integer(rng, target: int, level: int = 0) -> typing.Tuple[list, list]:
    """(tokens, feature classes) of an expression with non-integer / negative intermediate values whose exact value is the integer
    `target` (>= 0): a random expression E corrected by what it lacks (`E + (n - v)`, `E * (n / v)`), products with a negative power
    that cancel (`n * 3 ** -2 * 9`), remainders, bitwise decompositions."""
    n = target
    for _ in range(20):
        r = rng.random()
        x: typing.Optional[dict]
        if r < 0.3:
            e = rx_gen(rng, rng.choice([1, 2]))
            d = Fr(n) - e["v"]
            x = rx_bin("+", e, rx_ratio(rng, d)) if d >= 0 else rx_bin("-", e, rx_ratio(rng, -d))
        elif r < 0.45:
            e = rx_gen(rng, rng.choice([1, 2]))
            if e["v"] == 0 or rx_size(e["v"]) > 60:
                continue
            x = rx_bin("*", e, rx_ratio(rng, Fr(n) / e["v"]))
        elif r < 0.65:
            b, k = rng.choice([3, 5, 6, 7, 10, 12]), rng.randint(1, 4)
            p = rx_bin("**", rx_int_lit(rng, b), rx_small_int(rng, -k, -k, 1))
            if p is None:
                continue
            parts = [rx_int_lit(rng, n), p, rx_int_lit(rng, b ** k)]
            rng.shuffle(parts)
            y = rx_bin("*", parts[0], parts[1])
            x = None if y is None else rx_bin("*", y, parts[2])
        elif r < 0.8:
            m = n + rng.randint(1, 50)
            k = rng.randint(-3, 3)
            x = rx_bin("%", rx_signed(rng, n + k * m), rx_int_lit(rng, m))
        else:
            mask = rng.randint(0, max(1, n) * 2)
            op = rng.choice("|^&")
            if op == "^":
                x = rx_bin("^", rx_int_lit(rng, n ^ mask), rx_int_lit(rng, mask))
            elif op == "|":
                x = rx_bin("|", rx_int_lit(rng, n & mask), rx_int_lit(rng, n & ~mask))
            else:
                hi = 1 << (max(n, mask).bit_length() + 1)
                x = rx_bin("&", rx_int_lit(rng, n | (mask & ~n)), rx_int_lit(rng, n | (hi - 1 - mask) & ~n))
        if x is not None and x["v"] == n:
            return rx_toks(rx_text(x, rng, level)), rx_classes(x)
    return T(str(n)), []


RX_CMP = {"==": lambda a, b: a == b, "!=": lambda a, b: a != b, "<": lambda a, b: a < b, "<=": lambda a, b: a <= b, ">": lambda a, b: a > b, ">=": lambda a, b: a >= b}


def gen_rx_comparison(rng) -> typing.Tuple[list, bool, list]:
    """(tokens, truth value, feature classes) of a comparison of two constant expressions (the second one near the first)."""
    a, va, ca = gen_rx(rng)
    r = rng.random()
    if r < 0.5:
        d = rng.choice([Fr(0), Fr(0), Fr(1, 10 ** 20), Fr(-1, 10 ** 20), Fr(1), Fr(-1, 3)])
        n = rx_ratio(rng, va + d)
        b, vb, cb = rx_toks(rx_text(n, rng, 3)), n["v"], []
    else:
        b, vb, cb = gen_rx(rng)
    op = rng.choice(sorted(RX_CMP))
    if rng.random() < 0.5:
        return cat(a, "o", T(op), "o", b), RX_CMP[op](va, vb), sorted(set(ca + cb + ["op:" + op]))
    return cat(b, "o", T(op), "o", a), RX_CMP[op](vb, va), sorted(set(ca + cb + ["op:" + op]))


def gen_rx_true(rng) -> typing.Tuple[list, list]:
    """(tokens, feature classes) of a boolean expression over comparisons of constant expressions that is TRUE."""
    a, ta, ca = gen_rx_comparison(rng)
    if rng.random() < 0.6:
        return (a, ca) if ta else (cat(T("!", "o", "(", "o"), a, "o", T(")")), ca + ["op:!"])
    b, tb, cb = gen_rx_comparison(rng)
    op = rng.choice(["&&", "||"])
    t = (ta and tb) if op == "&&" else (ta or tb)
    toks = cat(a, "o", T(op), "o", b)
    cl = sorted(set(ca + cb + ["op:" + op]))
    return (toks, cl) if t else (cat(T("!", "o", "(", "o"), toks, "o", T(")")), cl + ["op:!"])


LIT_REAL = re.compile(r"^(?:[0-9][0-9_]*)?(?:\.(?:[0-9][0-9_]*)?)?(?:[eE]([+-]?)([0-9][0-9_]*))?$")
LIT_INT = re.compile(r"^(?:0[xX][0-9a-fA-F_]+|0[bB][01_]+|0[oO][0-7_]+|[0-9][0-9_]*)$")


def literal_classes(tok: str) -> typing.List[str]:
    """Feature names of a token that is a numeric literal (nothing for any other token)."""
    out = []
    if LIT_INT.match(tok):
        base = {"x": "hex", "b": "bin", "o": "oct"}.get(tok[1:2].lower(), "dec") if len(tok) > 1 else "dec"
        out.append("int-literal:" + base)
        if "_" in tok:
            out.append("int-literal:underscore")
        if tok[1:2] in ("X", "B", "O"):
            out.append("int-literal:upper-case-prefix")
        return out
    m = LIT_REAL.match(tok) if tok and tok[0] in "0123456789." and tok != "." else None
    if m is None or ("." not in tok and m.group(2) is None):
        return out
    if m.group(2) is None:
        out.append("real-literal:point")
    else:
        e = int(m.group(2).replace("_", "")) * (-1 if m.group(1) == "-" else 1)
        mag = "0" if e == 0 else "1..9" if abs(e) < 10 else "10..45" if abs(e) <= 45 else "46..308" if abs(e) <= 308 else "309..323" if abs(e) <= 323 else "324.."
        out.append("real-literal:exponent:%s%s" % ("-" if m.group(1) == "-" else "+" if e else "", mag))
        if m.group(1) == "+":
            out.append("real-literal:explicit-plus")
    if "_" in tok:
        out.append("real-literal:underscore")
    if tok.startswith("."):
        out.append("real-literal:no-integer-part")
    if tok.endswith(".") or "." in tok and tok[tok.index(".") + 1: tok.index(".") + 2] in ("e", "E"):
        out.append("real-literal:no-fraction-digits")
    if len(tok) > 1 and tok[0] == "0" and tok[1] in "0123456789_":
        out.append("real-literal:leading-zeros")
    return out


def gen_prim(rng):
    """(tokens, normalised, bits)"""
    k = rng.random()
    if k < 0.12:
        return T("bool"), "bool", 1
    if k < 0.55:
        n = rng.choice([1, 2, 3, 7, 8, 8, 13, 16, 16, 31, 32, 33, 63, 64, rng.randint(1, 64)])
        mode = rng.choice([None, None, "saturated", "truncated"])
        toks = T("uint%d" % n) if mode is None else T(mode, "r", "uint%d" % n)
        return toks, "%s uint%d" % (mode or "saturated", n), n
    if k < 0.8:
        n = rng.choice([2, 3, 8, 8, 16, 32, 64, rng.randint(2, 64)])
        mode = rng.choice([None, None, "saturated"])
        toks = T("int%d" % n) if mode is None else T(mode, "r", "int%d" % n)
        return toks, "saturated int%d" % n, n
    n = rng.choice([16, 32, 64])
    mode = rng.choice([None, "saturated", "truncated"])
    toks = T("float%d" % n) if mode is None else T(mode, "r", "float%d" % n)
    return toks, "%s float%d" % (mode or "saturated", n), n


def ref_tokens(rng, case_defs, me: int, j: int):
    d = case_defs[j]
    full = def_fullname(d)
    same_ns = (case_defs[me].get("dir") or "") == (d.get("dir") or "")
    name = d["name"] if (same_ns and rng.random() < 0.5) else full
    return T(name + ".1.0"), full + ".1.0"


def gen_type(rng, ctx, dep: typing.Optional[int] = None):
    """(tokens, normalised, bits bound, deps, refs)"""
    deps: list = []
    refs: list = []
    if dep is not None:
        toks, norm = ref_tokens(rng, ctx["defs"], ctx["me"], dep)
        bits = ctx["bits"][dep]
        deps = [dep]
    else:
        toks, norm, bits = gen_prim(rng)
    r = rng.random()
    if r < 0.55:
        return toks, norm, bits, deps, refs
    if dep is None and rng.random() < 0.3:
        el = rng.choice(["byte", "utf8"])
        toks, norm, bits = T(el), el, 8
        kind = rng.choice(["<=", "<"]) if el == "utf8" else rng.choice(["", "<=", "<"])
    else:
        kind = rng.choice(["", "<=", "<"])
    cap = rng.choice([1, 2, 3, 4, 7, 16, 255, 256, rng.randint(1, 300)])
    shown = cap + 1 if kind == "<" else cap
    etoks, refs = int_expr(rng, shown, ctx["consts"])
    parts = cat(toks, "o", T("["), "o")
    if kind:
        parts = cat(parts, T(kind), "o")
    parts = cat(parts, etoks, "o", T("]"))
    norm = "%s[%s%d]" % (norm, "<=" if kind else "", cap)
    return parts, norm, bits * cap + (64 if kind else 0), deps, refs


def gen_const(rng, ctx, name: str):
    """A valid constant statement: (line, python value)"""
    k = rng.random()
    refs: list = []
    rx: typing.Optional[list] = None
    if k < 0.15:
        v = rng.choice([True, False])
        e = rng.choice([T("true"), T("!", "o", "false"), T("1", "o", "<", "o", "2"), T("true", "o", "||", "o", "false")]) if v else \
            rng.choice([T("false"), T("!", "o", "true"), T("1", "o", ">", "o", "2")])
        ttoks, norm, val = T("bool"), "bool", "true" if v else "false"
        pv: typing.Any = None
        if rng.random() < 0.4:
            e, v, rx = gen_rx_comparison(rng)
            val = "true" if v else "false"
    elif k < 0.35:
        n = rng.choice([16, 32, 64])
        ttoks, norm = T("float%d" % n), "saturated float%d" % n
        e, val = rng.choice([(T("1.5"), "3/2"), (T("1", "o", "/", "o", "3"), "1/3"), (T("1e3"), "1000"), (T("-", "o", "2.5e-1"), "-1/4"),
                             (T("0.0"), "0"), (T("-", "o", "7"), "-7"), (T("1_0.2_5"), "41/4")])
        pv = None
        if rng.random() < 0.8:
            # the number is written with real literals of every spelling; its exact value is computed by the generator
            r = rng.random()
            if r < 0.4:
                # a constant expression over integers and non-integers (powers with negative exponents, remainders, ...)
                e, fv, rx = gen_rx(rng, FLOAT_MAX[n])
            elif r < 0.5:
                # the largest finite value of the type, exactly, written as a real literal
                fv = FLOAT_MAX[n] * rng.choice([1, 1, -1])
                lit, v0 = spell_real(rng, int(abs(fv)), 0, notation="exp")
                e = T(lit) if fv > 0 else T("-", "o", lit)
                assert v0 == abs(fv)
            else:
                e, fv, _form = gen_real_expr(rng, FLOAT_MAX[n])
            val = frac_str(fv)
    elif k < 0.45:
        ttoks, norm = rng.choice([(T("uint8"), "saturated uint8"), (T("truncated", "r", "uint8"), "truncated uint8")])
        ch = rng.choice("aZ09 #~")
        e, val, pv = T("'" + ch + "'") if rng.random() < 0.5 else T('"' + ch + '"'), str(ord(ch)), ord(ch)
    else:
        signed = rng.random() < 0.3
        n = rng.choice([8, 16, 32, 64]) if not signed else rng.choice([8, 16, 64])
        ttoks, norm = (T("int%d" % n), "saturated int%d" % n) if signed else (T("uint%d" % n), "saturated uint%d" % n)
        hi = (1 << (n - 1)) - 1 if signed else (1 << n) - 1
        pv = rng.choice([0, 1, 2, 3, 8, 100, 255 if hi >= 255 else hi, hi])
        if signed and rng.random() < 0.3:
            pv2 = rng.choice([1, 5, hi + 1])
            e, val, pv = T("-", "o", str(pv2)), str(-pv2), -pv2
            if rng.random() < 0.4:   # the negative integer as the value of a constant expression: `-(E)` with E = pv2
                inner, rx = gen_rx_integer(rng, pv2)
                e = cat(T("-", "o", "(", "o"), inner, "o", T(")"))
        else:
            e, refs = int_expr(rng, pv, ctx["consts"])
            val = str(pv)
    toks = cat(ttoks, "r", T(name), "o", T("="), "o", e)
    ln = mk_line(toks, ["attr", "const", name, norm, val], refs=refs)
    if rx:
        ln["rx"] = rx
    return ln, pv


PRINT_EXPRS = [(T("1", "o", "+", "o", "2"), "3"), (T("1", "o", "/", "o", "3"), "1/3"), (T("'abc'"), "'abc'"), (T('"a b"'), "'a b'"),
               (T("{", "o", "1", "o", ",", "o", "2", "o", "}"), "{1, 2}"), (T("true"), "true"), (T("2", "o", "**", "o", "10"), "1024"),
               (T("uint8"), "saturated uint8"), (T("truncated", "r", "float32"), "truncated float32"), (T("'#'"), "'#'"),
               (T("1.5"), "3/2"), (T("!", "o", "true"), "false"), (T("0x_ff"), "255")]
ASSERT_EXPRS = [T("true"), T("1", "o", "+", "o", "1", "o", "==", "o", "2"), T("!", "o", "false"), T("2", "o", ">", "o", "1", "o", "&&", "o", "true"),
                T("{", "o", "1", "o", "}", "o", "==", "o", "{", "o", "1", "o", "}"), T("'a'", "o", "!=", "o", "'b'")]


# string literals with raw line breaks: (token with a line feed per break, what @print shows when every break is a line feed, breaks)
ML_LITERALS = [("'a\nb'", "'a\\nb'", 1), ("'a\nb'", "'a\\nb'", 1), ('"x\ny\nz"', "'x\\ny\\nz'", 2), ("'\n'", "'\\n'", 1), ("'p\n\nq'", "'p\\n\\nq'", 2),
               ("'first\nsecond\nthird\n'", "'first\\nsecond\\nthird\\n'", 3), ('" \n\t# no comment\n"', "' \\n\\t# no comment\\n'", 2)]


def gen_schema(rng, ctx, deps_to_use: list, union: bool, deprecated_here: bool) -> typing.Tuple[list, int]:
    """Statement lines of one schema (no comments yet) and a bound of its size in bits."""
    ctx["consts"] = {}
    if ctx.get("kw"):
        # identifiers that begin with / contain / are all but a suffix of a word of the grammar, mixed with ordinary ones
        names = rng.sample(KW_ATTR_NAMES, len(KW_ATTR_NAMES)) + rng.sample(FIELD_NAMES, 6)
        cnames = rng.sample(KW_CONST_NAMES, len(KW_CONST_NAMES)) + rng.sample(CONST_NAMES, 4)
        rng.shuffle(names)
        rng.shuffle(cnames)
    else:
        names = rng.sample(FIELD_NAMES, len(FIELD_NAMES))
        cnames = rng.sample(CONST_NAMES, len(CONST_NAMES))
    nf = (rng.randint(2, 4) if union else rng.choice([0, 1, 1, 2, 3, 5])) + len(deps_to_use)
    kinds = ["field"] * nf + ["const"] * rng.choice([0, 0, 1, 2, 3]) + ["print"] * rng.choice([0, 0, 1, 2]) + ["assert"] * rng.choice([0, 0, 1])
    if not union:
        kinds += ["pad"] * rng.choice([0, 0, 1, 2])
    if ctx.get("multiline"):
        kinds += ["mlassert"] * rng.choice([0, 0, 1]) + ["mlconst"] * rng.choice([0, 0, 1])
    if ctx.get("exotic"):
        # string literals with special characters written raw between the quotes (no line breaks: the statement stays on one line)
        kinds += ["xprint"] * rng.choice([0, 1, 1, 2]) + ["xassert"] * rng.choice([0, 0, 1]) + ["xconst"] * rng.choice([0, 0, 1])
    if deps_to_use and rng.random() < 0.3:
        kinds.append("refprint")  # a composite type reference inside an expression (in front of or behind the field of that type)
    rng.shuffle(kinds)
    pending_deps = list(deps_to_use)
    fields_left = nf
    lines: list = []
    bits = 0
    fixed = True
    for k in kinds:
        if k == "field":
            dep = None
            if pending_deps and (len(pending_deps) >= fields_left or rng.random() < 0.5):
                dep = pending_deps.pop()
            fields_left -= 1
            toks, norm, b, deps, refs = gen_type(rng, ctx, dep)
            name = names.pop()
            lines.append(mk_line(cat(toks, "r", T(name)), ["attr", "field", name, norm, ""], refs=refs, deps=deps))
            if deps or "<=" in norm:
                fixed = False  # `_offset_` expands the bit length set numerically: only used while it is a single value
            bits = max(bits, b + 8) if union else bits + b + 8
        elif k == "pad":
            n = rng.choice([1, 3, 7, 8, 16, 64, rng.randint(1, 64)])
            lines.append(mk_line(T("void%d" % n), ["attr", "padding", "", "void%d" % n, ""]))
            bits += n
        elif k == "const":
            name = cnames.pop()
            line, pv = gen_const(rng, ctx, name)
            lines.append(line)
            if isinstance(pv, int) and expr_safe(name):  # see EXPR_UNSAFE: such a constant is declared but never referred to
                ctx["consts"][name] = pv
        elif k == "print":
            r = rng.random()
            if ctx.get("multiline") and rng.random() < 0.5:
                if rng.random() < 0.6:
                    # a string literal may contain raw line breaks (the grammar admits it): one statement on several physical lines
                    lit, shown, nl = rng.choice(ML_LITERALS)
                    ln = mk_line(T("@print", "r", lit), ["dir", "print", ["o"], shown])
                    ln["nl"] = nl
                else:
                    # ... or an ESCAPED line feed, which is not a line break of the text
                    esc = rng.choice(["'a\\nb'", "'\\n\\n'", '"x\\u000ay"'])
                    shown = {"'a\\nb'": "'a\\nb'", "'\\n\\n'": "'\\n\\n'", '"x\\u000ay"': "'x\\ny'"}[esc]
                    ln = mk_line(T("@print", "r", esc), ["dir", "print", ["o"], shown])
                lines.append(ln)
            elif r < 0.12:
                lines.append(mk_line(T("@print"), ["dir", "print", None, ""]))
            elif r < 0.22:
                e, fv, _form = gen_real_expr(rng)
                lines.append(mk_line(cat(T("@print"), "r", e), ["dir", "print", ["o"], frac_str(fv)]))
            elif r < 0.36:
                e, fv, rx = gen_rx(rng)
                ln = mk_line(cat(T("@print"), "r", e), ["dir", "print", ["o"], frac_str(fv)])
                ln["rx"] = rx
                lines.append(ln)
            elif r < 0.45 and ctx["consts"]:
                cn, cv = rng.choice(sorted(ctx["consts"].items()))
                lines.append(mk_line(T("@print", "r", cn, "o", "*", "o", "2"), ["dir", "print", ["r", cv * 2], str(cv * 2)], refs=[cn]))
            else:
                e, txt = rng.choice(PRINT_EXPRS)
                lines.append(mk_line(cat(T("@print"), "r", e), ["dir", "print", ["o"], txt]))
        elif k == "refprint":
            j = rng.choice(deps_to_use)
            toks, norm = ref_tokens(rng, ctx["defs"], ctx["me"], j)
            lines.append(mk_line(cat(T("@print"), "r", toks), ["dir", "print", ["o"], norm], deps=[j]))
        elif k == "xprint":
            lit, shown = gen_exotic_literal(rng)
            lines.append(mk_line(T("@print", "r", lit), ["dir", "print", ["o"], shown]))
        elif k == "xassert":
            lit, _shown = gen_exotic_literal(rng)
            lines.append(mk_line(T("@assert", "r", lit, "o", "!=", "o", "''"), ["dir", "assert", ["b", True], ""]))
        elif k == "xconst":
            lit, _shown = gen_exotic_literal(rng)
            name = cnames.pop()
            lines.append(mk_line(T("bool", "r", name, "o", "=", "o", lit, "o", "!=", "o", "''"), ["attr", "const", name, "bool", "true"]))
        elif k == "mlassert":
            lit, _shown, nl = rng.choice(ML_LITERALS)
            ln = mk_line(T("@assert", "r", lit, "o", "!=", "o", "''"), ["dir", "assert", ["b", True], ""])
            ln["nl"] = nl
            lines.append(ln)
        elif k == "mlconst":
            # an attribute statement (committed lazily) that spans several physical lines
            lit, _shown, nl = rng.choice(ML_LITERALS)
            name = cnames.pop()
            ln = mk_line(T("bool", "r", name, "o", "=", "o", lit, "o", "!=", "o", "''"), ["attr", "const", name, "bool", "true"])
            ln["nl"] = nl
            lines.append(ln)
        elif k == "assert":
            if rng.random() < 0.3 and not union and fixed:
                lines.append(mk_line(T("@assert", "r", "_offset_", "o", "==", "o", "_offset_"), ["dir", "assert", ["b", True], ""], offs=True))
            elif rng.random() < 0.3 and ctx["consts"]:
                cn, cv = rng.choice(sorted(ctx["consts"].items()))
                lines.append(mk_line(T("@assert", "r", cn, "o", "==", "o", str(cv)), ["dir", "assert", ["b", True], ""], refs=[cn]))
            elif rng.random() < 0.4:
                # a constant expression equals its exact value written as a ratio of integers / comparisons of constant expressions
                if rng.random() < 0.5:
                    e, fv, rx = gen_rx(rng)
                    want = rx_toks(rx_text(rx_ratio(rng, fv), rng, 3))
                    toks = cat(e, "o", T("=="), "o", want) if rng.random() < 0.7 else cat(want, "o", T("=="), "o", e)
                else:
                    toks, rx = gen_rx_true(rng)
                ln = mk_line(cat(T("@assert"), "r", toks), ["dir", "assert", ["b", True], ""])
                ln["rx"] = rx
                lines.append(ln)
            elif rng.random() < 0.4:
                # a number written with real literals equals its exact value written as a ratio of decimal integers
                e, fv, _form = gen_real_expr(rng, signed=False)
                toks = cat(e, "o", T("=="), "o", exact_ratio_tokens(fv)) if rng.random() < 0.7 else cat(exact_ratio_tokens(fv), "o", T("=="), "o", e)
                lines.append(mk_line(cat(T("@assert"), "r", toks), ["dir", "assert", ["b", True], ""]))
            else:
                lines.append(mk_line(cat(T("@assert"), "r", rng.choice(ASSERT_EXPRS)), ["dir", "assert", ["b", True], ""]))
    first_attr = next((i for i, l in enumerate(lines) if l["s"][0] == "attr"), len(lines))
    pre = []
    if union:
        pre.append(mk_line(T("@union"), ["dir", "union", None, ""]))
    if deprecated_here:
        pre.append(mk_line(T("@deprecated"), ["dir", "deprecated", None, ""]))
    rng.shuffle(pre)
    for p in pre:
        pos = rng.randint(0, first_attr)
        lines.insert(pos, p)
        first_attr += 1
    last_attr = max([i for i, l in enumerate(lines) if l["s"][0] == "attr"], default=-1)
    bound = ((bits + 7) // 8) * 8 + (64 if union else 0)
    if rng.random() < 0.5:
        lines.insert(rng.randint(0, len(lines)), mk_line(T("@sealed"), ["dir", "sealed", None, ""]))
        size = bound
    else:
        ext = bound + 8 * rng.choice([0, 0, 1, 5, 100])
        r = rng.random()
        toks = T(str(ext)) if r < 0.5 else T(str(ext // 8), "o", "*", "o", "8") if r < 0.75 else int_spelling(rng, ext)
        lines.insert(rng.randint(last_attr + 1, len(lines)), mk_line(cat(T("@extent"), "r", toks), ["dir", "extent", ["r", ext], ""]))
        size = ext + 32
    if union and fixed and rng.random() < 0.3:
        la = max(i for i, l in enumerate(lines) if l["s"][0] == "attr" and l["s"][1] == "field")
        lines.insert(rng.randint(la + 1, len(lines)), mk_line(T("@assert", "r", "_offset_", "o", "==", "o", "_offset_"), ["dir", "assert", ["b", True], ""], offs=True))
        # an @extent must stay after the last attribute but may precede the assert: both orders are valid
    return lines, size



# ------------------------------------------------------------------------------------------------- identifiers that look like keywords
#
# Every word the grammar knows - the primitive type names (bool, byte, utf8, uintN, intN, floatN, voidN), the cast modes, the boolean
# literals, the directive names - is also the BEGINNING, a PART, or ALL BUT A SUFFIX of perfectly legal identifiers (`boolean`,
# `bytecraft`, `float32x3`, `uint8_t`, `true_`, `is_false`, `sealed`): reserved are only the exact words (and patterns) of the name rules.
# A PEG alternative that matches a prefix never hands the rest back, so the order of alternatives / a missing word boundary decides
# whether such an identifier is read as what it is.  35% of the namespaces take their root namespace name, nested namespace name,
# type short names, field / constant names from these pools, so that such identifiers stand at every position: absolute and relative
# type references (scalar, array element, constant type), declared attribute names, file and directory names.
KW_ATTR_NAMES = ["boolean", "bool_", "is_bool", "bytes", "byte_", "bytecount", "utf8_", "utf8text", "uint8_", "uint8_t", "uint16x", "a_uint8", "int8_", "int16s",
                 "integer", "uintx", "int_", "float32x", "float64_", "floating", "float_", "void1x", "void_", "voided", "truncated_", "truncated1", "untruncated",
                 "saturated_", "saturated8", "true_", "truely", "true1", "is_true", "false_", "falsey", "false0", "not_false", "union", "union_", "sealed",
                 "sealed_", "unsealed", "extent", "extent_", "deprecated", "deprecated_", "assert", "assert_", "print", "printer", "offset", "_offset"]
KW_CONST_NAMES = ["TRUE_", "FALSE_", "BOOLEAN", "BOOL_", "BYTES", "BYTE_", "UTF8_", "UINT8_MAX", "INT16_MIN", "FLOAT32_EPS", "VOID1S", "TRUNCATED_", "SATURATED_",
                  "SEALED", "EXTENT", "UNION", "PRINT", "ASSERT",
                  # lower-case ones, i.e. with the very letters of the keyword
                  "true_c", "false_c", "bool_c", "byte_c", "utf8_c", "uint8_c", "int8_c", "float16_c", "void1_c", "truncated_c", "saturated_c", "sealed_c"]
KW_DEF_NAMES = ["float32x3", "uint8x4", "int16s", "Boolean", "bool_", "Bytes", "byte_t", "utf8string", "void1s", "Truncated_", "saturatedX", "true_", "Falsey",
                "sealed", "Union_", "extent", "Deprecated_", "printer", "Assert_", "uint_", "floats", "truncatedint8", "saturatedbool"]
KW_DIRS = ["bool_ns", "booleans", "bytes_", "utf8x", "uint8s", "int16_", "float64x", "void1_", "truncated_ns", "saturatedly", "true_ns", "falsehood", "sealed_",
           "print", "union"]
KW_ROOTS = ["boolean", "bytecraft", "bytes", "byte_", "utf8tools", "uint8_ext", "int16s", "float32x", "void1s", "truncated_", "saturatedx", "true_", "falsey",
            "sealed", "union", "extent_", "print_", "Bool1", "uintx", "assert"]

# KEPT OUT of the generator (GENUINE DEFECT of the unchanged pydsdl, reported to the coordinator): an identifier that BEGINS like a
# primitive type name or a boolean literal cannot be USED IN AN EXPRESSION although it can be declared: `uint8 truex = 1` is accepted,
# `uint8 Y = truex + 1` (or `@print uint8x`, `@assert bool_ == 1`, `uint8[bytes] a`) is a DSDLSyntaxError, because `expression_atom`
# tries `type` and `literal` before `identifier`, both match the prefix (`true`, `uint8`, `bool`) and nothing requires a word boundary
# behind it.  Constants with such names are therefore declared but never referred to by later expressions.
EXPR_UNSAFE = re.compile(r"^(?:true|false|bool|byte|utf8|(?:uint|int|float|void)[1-9])")


def expr_safe(name: str) -> bool:
    return EXPR_UNSAFE.match(name) is None


KW_WORDS = ["truncated", "saturated", "deprecated", "boolean", "bool", "byte", "utf8", "uint", "int", "float", "void", "true", "false", "union", "sealed",
            "extent", "assert", "print", "offset"]


def keyword_in(name: str) -> typing.Optional[str]:
    """'<how>:<word>' if the (legal) identifier begins with / contains / equals a word of the grammar, else None."""
    n = name.lower()
    for w in KW_WORDS:
        if n == w:
            return "is:" + w
    for w in KW_WORDS:
        if n.startswith(w):
            return "begins:" + w
    for w in KW_WORDS:
        if w in n:
            return "contains:" + w
    return None


# ------------------------------------------------------------------------------------------------- characters Python treats specially
#
# The grammar knows two line terminators (LF, CR LF), two blanks (space, tab) and treats every other character inside a comment
# (`#[^\r\n]*`) and inside a string literal as ordinary text.  Python's string API has wider notions: str.splitlines() / keepends also
# break at VT, FF, FS, GS, RS, NEL, LS, PS; str.strip() / isspace() / split() also take US, NBSP, the Unicode spaces for blanks;
# lower() / upper() / casefold() change the length of some strings; NFC / NFKC normalisation rewrites others; some are invisible.
# 30% of the namespaces carry such characters in their comments (header, attribute docs, stray comment lines between statements: at the
# start, in the middle, at the end of the comment, alone, several of them, in front of text that looks like a statement) and in string
# literals of @print / @assert / constant statements.  The reference knows only LF / CR LF as line terminators: docs must keep every
# character, reported lines count only real line terminators.
LINE_BOUNDARY = ["\x0b", "\x0c", "\x1c", "\x1d", "\x1e", "\x85", "\u2028", "\u2029"]
SPACE_LIKE = ["\x1f", "\xa0", "\u1680", "\u2000", "\u2003", "\u2009", "\u200a", "\u202f", "\u205f", "\u3000"]
INVISIBLE = ["\u200b", "\u200d", "\u2060", "\ufeff", "\xad", "\x7f", "\x1b", "\x08"]
CASE_MAPPED = ["\xdf", "\u0130", "\u0131", "\u017f", "\u212a", "\u01c5", "\ufb01", "\u0390", "\u03c2"]
NORMALISED = ["e\u0301", "\u212b", "\u2126", "\u1100\u1161", "\xe9", "\uf900", "\u0344"]
ASTRAL = ["\U0001f600", "\U0001d400", "\U00010400"]
EXOTIC = {"line-boundary": LINE_BOUNDARY, "space-like": SPACE_LIKE, "invisible": INVISIBLE, "case-mapped": CASE_MAPPED, "normalised": NORMALISED, "astral": ASTRAL}
ESCAPED_BY_REPR = set(LINE_BOUNDARY + SPACE_LIKE + INVISIBLE)  # what repr() of a string shows as an escape: controls, format characters, separators
STATEMENT_LIKE = ["uint16 legacy_mode", "void8", "@sealed", "@print 1", "---", "uint8 X = 1", "@assert false", "@extent 64"]


def exotic_class(ch: str) -> typing.Optional[str]:
    for k, v in EXOTIC.items():
        if any(ch in unit for unit in v):
            return k
    return None


def exotic_classes(text: str) -> typing.List[str]:
    out = []
    for ch in text or "":
        k = exotic_class(ch) if not (" " <= ch <= "~" or ch == "\t") else None
        if k and k not in out:
            out.append(k)
    return out


def gen_exotic_unit(rng) -> str:
    r = rng.random()
    return rng.choice(LINE_BOUNDARY) if r < 0.55 else rng.choice(rng.choice([SPACE_LIKE, INVISIBLE, CASE_MAPPED, NORMALISED, ASTRAL]))


def gen_exotic_comment(rng) -> str:
    """Comment text (what follows the '#') with 1-3 special characters."""
    words = rng.choice([" Page one.", " see below", "x", " replaces the old declaration:", "", " ", " a b  c", " end", "#", " 100 %"])
    u = gen_exotic_unit(rng)
    r = rng.random()
    if r < 0.25:
        out = words + u  # at the end of the comment line (a form feed as a page break ...)
    elif r < 0.4:
        out = rng.choice(["", " "]) + u + words  # at the start
    elif r < 0.6:
        out = words + u + rng.choice([" tail", "tail", " ", "", " Page two."])  # in the middle
    elif r < 0.75:
        out = words + u + rng.choice(STATEMENT_LIKE)  # what follows looks like a statement (it is comment text)
    elif r < 0.85:
        out = rng.choice(["", " "]) + u  # alone
    else:
        out = words + u + rng.choice(["", " ", "-"]) + gen_exotic_unit(rng) + rng.choice(["", " z"]) + (gen_exotic_unit(rng) if rng.random() < 0.4 else "")
    return out


def repr_piece(text: str) -> str:
    """How Python's repr() shows the characters of `text` (no quotes, backslashes or ASCII controls in it)."""
    out = ""
    for ch in text:
        n = ord(ch)
        if ch in ESCAPED_BY_REPR:
            out += "\\x%02x" % n if n < 0x100 else "\\u%04x" % n if n < 0x10000 else "\\U%08x" % n
        else:
            out += ch
    return out


def gen_exotic_literal(rng) -> typing.Tuple[str, str]:
    """(string literal token, what @print shows for it): 1-2 special characters written RAW between the quotes."""
    a, b = rng.choice(["a", "", "x y", "Page one."]), rng.choice(["b", "", " ", "uint8 x"])
    body = a + gen_exotic_unit(rng) + b + (gen_exotic_unit(rng) if rng.random() < 0.3 else "")
    q = rng.choice("'\"")
    return q + body + q, "'" + repr_piece(body) + "'"


def gen_comment(rng, exotic: bool = False) -> str:
    return gen_exotic_comment(rng) if exotic and rng.random() < 0.5 else rng.choice(COMMENTS)


def stray_line(rng, exotic: bool = False) -> dict:
    r = rng.random()
    if r < (0.2 if exotic else 0.35):
        return mk_line()
    if r < (0.3 if exotic else 0.5):
        return mk_line(lead=rng.choice([" ", "\t", "  \t ", "    "]))
    return mk_line(c=gen_comment(rng, exotic), lead=rng.choice(["", "", "", " ", "\t "]))


def decorate(rng, stmts: list, density: float, exotic: bool = False) -> list:
    out = []
    for _ in range(rng.choice([0, 0, 1, 2, 3]) if rng.random() < density else 0):
        out.append(stray_line(rng, exotic))
    for st in stmts:
        if rng.random() < 0.3 * density + 0.05:
            st["c"] = gen_comment(rng, exotic)
        out.append(st)
        if rng.random() < density:
            for _ in range(rng.choice([1, 1, 2, 3])):
                out.append(stray_line(rng, exotic))
    return out


def gen_deco(rng, n: int, prop: str = "C03") -> dict:
    deco = {"seed": rng.randrange(1 << 30), "ws": rng.choice(["min", "wild", "wild"]), "eol": rng.choice(["lf", "lf", "crlf", "mixed"]),
            "final_nl": [rng.random() < 0.5 for _ in range(n)], "route": rng.choice(["file", "file", "raw"])}
    if prop == "C17" and rng.random() < 0.4:
        # line attribution under every newline convention the library accepts: bare CR (and a mix of all three) is accepted because
        # files are read in universal-newlines mode; the grammar itself (route "raw") knows only LF and CR LF
        deco["eol"] = rng.choice(["crlf", "crlf", "mixed", "cr", "mixed3", "mixed3"])
        if deco["eol"] in ("cr", "mixed3"):
            deco["route"] = "file"
    if prop == "C17" and rng.random() < 0.45:
        # where the process runs and how it names the directories: a reported path must lead to the faulty file from there
        deco["cwd"] = rng.choice(["parent-abs", "parent-rel", "parent-rel", "sibling-rel", "sibling-rel", "deep-rel"])
    return deco


def gen_namespace(rng, max_defs: int = 4, prop: str = "C03") -> dict:
    n = rng.choice([1, 1, 2, 2, 3, 4][: max(1, max_defs + 2)])
    n = min(n, max_defs)
    kw = rng.random() < 0.35
    exotic = rng.random() < 0.3
    root, sub = "ns", "sub"
    if kw:
        # keyword-like identifiers at every position: root namespace, nested namespace, type short names, attribute names
        root = rng.choice(KW_ROOTS) if rng.random() < 0.7 else root
        sub = rng.choice(KW_DIRS) if rng.random() < 0.7 else sub
        pool = rng.sample(KW_DEF_NAMES, n) + rng.sample(DEF_NAMES, n)
        names = []
        for i in range(n):
            cand = pool[i] if rng.random() < 0.7 else pool[n + i]
            names.append(cand if cand.lower() not in [x.lower() for x in names] else pool[n + i])
    else:
        names = rng.sample(DEF_NAMES, n)
    defs = [{"name": names[i], "dir": rng.choice(["", "", sub]), "root": root, "final_fault": False, "dfault": None, "lines": []} for i in range(n)]
    edges: typing.Dict[int, list] = {i: [] for i in range(n)}
    chain = rng.random() < 0.5
    for i in range(n):
        for j in range(i + 1, n):
            if (chain and j == i + 1) or rng.random() < 0.3:
                edges[i].append(j)
    referrers = {j: [i for i in range(n) if j in edges[i]] for j in range(n)}
    service = [not referrers[i] and rng.random() < 0.35 for i in range(n)]
    deprecated = []
    for i in range(n):
        deprecated.append(all(deprecated[r] for r in referrers[i]) and rng.random() < (0.5 if referrers[i] else 0.2))
    bits: typing.Dict[int, int] = {}
    density = rng.choice([0.0, 0.3, 0.6, 0.9])
    multiline = prop == "C17" and rng.random() < 0.18
    for i in reversed(range(n)):
        ctx = {"defs": defs, "me": i, "bits": bits, "consts": {}, "multiline": multiline, "kw": kw, "exotic": exotic}
        deps = list(edges[i])
        rng.shuffle(deps)
        if service[i]:
            cut = rng.randint(0, len(deps))
            a, sa = gen_schema(rng, ctx, deps[:cut], rng.random() < 0.3, deprecated[i])
            b, _ = gen_schema(rng, ctx, deps[cut:], rng.random() < 0.3, False)
            stmts = a + [mk_line(T(rng.choice(["---", "---", "----", "----------"])), ["marker"])] + b
            bits[i] = 0
        else:
            stmts, bits[i] = gen_schema(rng, ctx, deps, rng.random() < 0.3, deprecated[i])
        defs[i]["lines"] = decorate(rng, stmts, max(density, 0.3) if exotic else density, exotic)
        defs[i]["kind"] = "service" if service[i] else "message"
        defs[i]["deprecated"] = deprecated[i]
    case = {"mode": rng.choice(["ns", "ns", "files"]), "defs": defs, "deco": gen_deco(rng, n, prop), "alt": None}
    if exotic:
        case["exotic"] = True
    if prop == "C17":
        # fixed port-IDs (file name prefix) inside the regulated range of the vendor root namespace `ns`, both range ends included
        taken: set = set()
        for d in defs:
            if rng.random() < 0.3:
                lo, hi = REGULATED[d["kind"]]
                p = rng.choice([lo, hi, rng.randint(lo, hi)])
                if (d["kind"], p) not in taken:
                    taken.add((d["kind"], p))
                    d["port"] = p
    return case


REGULATED = {"message": (6144, 7167), "service": (256, 383)}  # regulated fixed port-IDs of a non-standard root namespace
PORT_MAX = {"message": 8191, "service": 511}
MAX_NAME = 255  # longest full name (of a service: of its `.Request` / `.Response` parts)


def gen_alt(rng, case: dict, prop: str = "C03") -> dict:
    n = len(case["defs"])
    ins = []
    for _ in range(rng.choice([0, 1, 2, 4])):
        di = rng.randrange(n)
        ins.append([di, rng.randint(0, len(case["defs"][di]["lines"])), stray_line(rng, bool(case.get("exotic")))])
    return {"deco": gen_deco(rng, n, prop), "inserts": ins}


# ------------------------------------------------------------------------------------------------- fault injection (C17)

SYNTAX_FAULTS = [T("uint8"), T("uint8", "r", "zq", "r", "zz"), T("@"), T("uint8", "r", "zq", "o", "="), T("%%"), T("uint0", "r", "zq"), T("void0"),
                 T("uint8", "o", "[", "o", "3", "r", "zq"), T(" uint8", "r", "zq"), T("---", "n", "x"), T("@assert", "r", "1", "o", "=="),
                 T("uint8", "r", "9zq"), T("truncated", "r", "bool", "r", "zq"), T("@", "r", "sealed")]

PRE_FAULTS = [  # (tokens, statement): the type constructor raises before any identifier is visited
    (T("int1", "r", "zq"), ["attr", "field", "zq", "saturated int1", ""]),
    (T("truncated", "r", "int8", "r", "zq"), ["attr", "field", "zq", "truncated int8", ""]),
    (T("float17", "r", "zq"), ["attr", "field", "zq", "saturated float17", ""]),
    (T("uint65", "r", "zq"), ["attr", "field", "zq", "saturated uint65", ""]),
    (T("void65"), ["attr", "padding", "", "void65", ""]),
    (T("bool", "o", "[", "o", "0", "o", "]", "r", "zq"), ["attr", "field", "zq", "bool[0]", ""]),
    (T("uint8", "o", "[", "o", "<", "o", "1", "o", "]", "r", "zq"), ["attr", "field", "zq", "saturated uint8[<=0]", ""]),
    (T("uint8", "o", "[", "o", "true", "o", "]", "r", "zq"), ["attr", "field", "zq", "?", ""]),
    (T("uint8", "o", "[", "o", "1.5", "o", "]", "r", "zq"), ["attr", "field", "zq", "?", ""]),
    (T("int1", "r", "ZQ", "o", "=", "o", "1"), ["attr", "const", "ZQ", "saturated int1", "1"]),
]

MID_FAULTS = [  # raised after the first identifier has been visited
    (T("ns.Nope.1.0", "r", "zq"), ["attr", "field", "zq", "?", ""]),
    (T("Nope.1.0", "o", "[", "o", "2", "o", "]", "r", "zq"), ["attr", "field", "zq", "?", ""]),
    (T("uint8", "r", "ZQ", "o", "=", "o", "1", "o", "/", "o", "0"), ["attr", "const", "ZQ", "saturated uint8", "?"]),
    (T("@print", "r", "1", "o", "/", "o", "0"), ["dir", "print", ["o"], "?"]),
    (T("@assert", "r", "true", "o", "+", "o", "1"), ["dir", "assert", ["o"], ""]),
    (T("@print", "r", "1", "o", "%", "o", "0"), ["dir", "print", ["o"], "?"]),
    (T("uint8", "r", "ZQ", "o", "=", "o", "'\\z'"), ["attr", "const", "ZQ", "saturated uint8", "?"]),
]

UNDEF_IDENT = [  # the model resolves the identifiers itself
    (T("uint8", "r", "ZQ", "o", "=", "o", "NOPE"), ["attr", "const", "ZQ", "saturated uint8", "?"], ["NOPE"]),
    (T("@assert", "r", "NOPE", "o", "==", "o", "1"), ["dir", "assert", ["o"], ""], ["NOPE"]),
    (T("uint8", "o", "[", "o", "NOPE", "o", "]", "r", "zq"), ["attr", "field", "zq", "?", ""], ["NOPE"]),
    (T("@print", "r", "zq_undefined"), ["dir", "print", ["o"], "?"], ["zq_undefined"]),
]

DIRECTIVE_FAULTS = [  # rejected by the directive handlers wherever they stand (the model computes that)
    (T("@assert", "r", "false"), ["dir", "assert", ["b", False], ""], "assert-false"),
    (T("@assert", "r", "1", "o", ">", "o", "2"), ["dir", "assert", ["b", False], ""], "assert-false"),
    (T("@assert", "r", "1"), ["dir", "assert", ["r", 1], ""], "assert-not-bool"),
    (T("@assert", "r", "'a'"), ["dir", "assert", ["o"], ""], "assert-not-bool"),
    (T("@assert"), ["dir", "assert", None, ""], "assert-no-expr"),
    (T("@foo"), ["dir", "foo", None, ""], "unknown-directive"),
    (T("@Sealed"), ["dir", "Sealed", None, ""], "unknown-directive"),
    (T("@foo", "r", "1"), ["dir", "foo", ["r", 1], ""], "unknown-directive"),
    (T("@sealed", "r", "1"), ["dir", "sealed", ["r", 1], ""], "sealed-expr"),
    (T("@extent"), ["dir", "extent", None, ""], "extent-no-expr"),
    (T("@extent", "r", "true"), ["dir", "extent", ["b", True], ""], "extent-not-rational"),
    (T("@extent", "r", "8.5"), ["dir", "extent", ["o"], ""], "extent-not-integer"),
    (T("@union", "r", "1"), ["dir", "union", ["r", 1], ""], "union-expr"),
    (T("@deprecated", "r", "true"), ["dir", "deprecated", ["b", True], ""], "deprecated-expr"),
]

COMMIT_FAULTS = [  # raised by the Field/Constant constructor, i.e. when the queued attribute is committed
    (T("uint8", "r", "_b_"), ["attr", "field", "_b_", "saturated uint8", ""], "bad-name"),
    (T("uint8", "r", "Bool"), ["attr", "field", "Bool", "saturated uint8", ""], "bad-name"),
    (T("uint8", "r", "uInt7"), ["attr", "field", "uInt7", "saturated uint8", ""], "bad-name"),
    (T("int8", "r", "q1_2"), ["attr", "field", "q1_2", "saturated int8", ""], "bad-name"),
    (T("uint8", "r", "COM1"), ["attr", "field", "COM1", "saturated uint8", ""], "bad-name"),
    (T("float32", "r", "float"), ["attr", "field", "float", "saturated float32", ""], "bad-name"),
    (T("bool", "r", "TRUE", "o", "=", "o", "true"), ["attr", "const", "TRUE", "bool", "true"], "bad-name"),
    (T("void8", "r", "zq"), ["attr", "field", "zq", "void8", ""], "named-void"),
    (T("uint8", "r", "ZQ", "o", "=", "o", "256"), ["attr", "const", "ZQ", "saturated uint8", "256"], "bad-constant"),
    (T("int8", "r", "ZQ", "o", "=", "o", "-", "o", "129"), ["attr", "const", "ZQ", "saturated int8", "-129"], "bad-constant"),
    (T("bool", "r", "ZQ", "o", "=", "o", "1"), ["attr", "const", "ZQ", "bool", "1"], "bad-constant"),
    (T("uint8", "r", "ZQ", "o", "=", "o", "1.5"), ["attr", "const", "ZQ", "saturated uint8", "3/2"], "bad-constant"),
    (T("uint8", "r", "ZQ", "o", "=", "o", "'ab'"), ["attr", "const", "ZQ", "saturated uint8", "'ab'"], "bad-constant"),
    (T("uint16", "r", "ZQ", "o", "=", "o", "'a'"), ["attr", "const", "ZQ", "saturated uint16", "'a'"], "bad-constant"),
    (T("float16", "r", "ZQ", "o", "=", "o", "1e9"), ["attr", "const", "ZQ", "saturated float16", "1000000000"], "bad-constant"),
    (T("uint8", "r", "ZQ", "o", "=", "o", "{", "o", "1", "o", "}"), ["attr", "const", "ZQ", "saturated uint8", "{1}"], "bad-constant"),
    (T("uint8", "o", "[", "o", "2", "o", "]", "r", "ZQ", "o", "=", "o", "1"), ["attr", "const", "ZQ", "saturated uint8[2]", "1"], "bad-constant-type"),
]


# malformed definition FILE NAMES: (kind, path below the root namespace directory)
FILE_NAME_FAULTS = [
    ("bad-version", "Zq.1.x.dsdl"), ("bad-version", "Zq.x.0.dsdl"), ("bad-version", "Zq..0.dsdl"), ("bad-version", "Zq.+1.0.dsdl"), ("bad-version", "Zq.1_0.0.dsdl"),
    ("bad-version", "Zq.1.0x1.dsdl"), ("bad-version", "Zq. 1.0.dsdl"), ("bad-version", "Zq.1.\uff11.dsdl"),
    ("bad-port-id", "abc.Zq.1.0.dsdl"), ("bad-port-id", "0x10.Zq.1.0.dsdl"), ("bad-port-id", "-1.Zq.1.0.dsdl"), ("bad-port-id", "ns.Zq.1.0.dsdl"),
    ("component-count", "Zq.dsdl"), ("component-count", "Zq.1.dsdl"), ("component-count", "a.b.Zq.1.0.dsdl"), ("component-count", "1.2.3.Zq.1.0.dsdl"),
    ("dotted-directory", "not.good/Zq.1.0.dsdl"), ("dotted-directory", "v1.2/inner/Zq.1.0.dsdl"), ("dotted-directory", "x./Zq.1.0.dsdl"),
]

# Kept out of the generator (GENUINE DEFECTS of the unchanged pydsdl, reported to the coordinator):
#   * a symbolic link that points to itself (or a longer loop) under a definition's file name, e.g. ns/Zeta.1.0.dsdl -> Zeta.1.0.dsdl:
#     read_namespace / read_files let a bare RuntimeError("Symlink loop from ...") of Path.resolve() escape (no pydsdl error, no path);
#   * a symbolic link under a definition's file name whose target lies outside the root namespace directory (kind "symdir": a link
#     to a directory elsewhere; the same with a link to a regular file elsewhere): a bare ValueError("... is not in the subpath of
#     ...") of Path.relative_to() escapes from read_namespace / read_files while the namespace is scanned;
#   * a dangling symbolic link under a definition's file name is rejected when the namespace is scanned, with InvalidDefinitionError
#     whose path is the (non-existent) link TARGET, not the file in the namespace; it fails before any definition is read, i.e.
#     independently of targets / dependencies, so it does not belong to this family either.
KEPT_OUT_UNLOADABLE = ["symdir", "symlink-loop", "dangling-symlink"]  # write_unloadable still knows "symdir" (replays)


def schema_ranges(lines: list) -> typing.List[typing.Tuple[int, int]]:
    """[(lo, hi)] line index ranges (hi exclusive) of the schemas of a definition."""
    cuts = [i for i, l in enumerate(lines) if l.get("s") and l["s"][0] == "marker"]
    out = []
    lo = 0
    for c in cuts:
        out.append((lo, c))
        lo = c + 1
    out.append((lo, len(lines)))
    return out


def find_dir(lines, lo, hi, name):
    return next((i for i in range(lo, hi) if lines[i].get("s") and lines[i]["s"][0] == "dir" and lines[i]["s"][1] == name), None)


def attr_positions(lines, lo, hi) -> typing.Tuple[int, int]:
    """Insertion positions (inclusive range) where a further attribute statement is legal in the schema."""
    first = lo
    for nm in ("union", "deprecated"):
        i = find_dir(lines, lo, hi, nm)
        if i is not None:
            first = max(first, i + 1)
    e = find_dir(lines, lo, hi, "extent")
    last = e if e is not None else hi
    if find_dir(lines, lo, hi, "union") is not None:
        # a union that has evaluated `_offset_` admits no further field: stay in front of that statement
        q = next((i for i in range(lo, hi) if lines[i].get("offs")), None)
        if q is not None:
            last = min(last, q)
    return first, max(first, last)


def rename_def(case: dict, j: int, new_dir: str, new_name: str) -> None:
    """Give definition j another directory / short name and rewrite every reference to it (always by its full name)."""
    defs = case["defs"]
    d = defs[j]
    old_full, old_short = def_fullname(d), d["name"]
    d["dir"], d["name"] = new_dir, new_name
    new_full = def_fullname(d)
    for l in d["lines"]:  # its own references by bare name were relative to the namespace it has just left
        for k in l.get("deps") or []:
            for t in l.get("toks") or []:
                if k != j and k < len(defs) and t[0] == defs[k]["name"] + ".1.0":
                    t[0] = def_fullname(defs[k]) + ".1.0"
    for r in defs:
        for l in r["lines"]:
            if j not in (l.get("deps") or []):
                continue
            for t in l.get("toks") or []:
                if t[0] in (old_full + ".1.0", old_short + ".1.0"):
                    t[0] = new_full + ".1.0"
            st = l.get("s")
            if st and st[0] == "attr":
                st[3] = st[3].replace(old_full + ".1.0", new_full + ".1.0")


def reach_depth(case: dict, f: int) -> typing.Optional[int]:
    """How deep below the target that is read first with it definition f is reached (0 = it is that target itself)."""
    for t in target_order(case):
        depth = {t: 0}
        todo = [t]
        while todo:
            i = todo.pop(0)
            for l in case["defs"][i]["lines"]:
                for j in l.get("deps") or []:
                    if j < len(case["defs"]) and j not in depth:
                        depth[j] = depth[i] + 1
                        todo.append(j)
        if f in depth:
            return depth[f]
    return None


def inject_fault(rng, case: dict, avoid: typing.Optional[set] = None) -> typing.Optional[str]:
    """Turn a valid namespace into one with a fault; returns the category or None if the pick did not apply.
    `avoid`: definitions that already hold a fault (a second fault goes elsewhere and is recorded there)."""
    defs = case["defs"]
    cand = sorted(reachable(case, 0)) if case["mode"] == "files" else list(range(len(defs)))
    cand = [i for i in cand if not avoid or i not in avoid]
    if not cand:
        return None
    # definitions that are first reached through a reference (at depth 1..3 below the target read first) get their fair share
    deep = [i for i in cand if (reach_depth(case, i) or 0) >= 1]
    deepest = [i for i in deep if reach_depth(case, i) == max(reach_depth(case, j) or 0 for j in deep)]
    r = rng.random()
    f = rng.choice(deepest) if deep and r < 0.2 else rng.choice(deep) if deep and r < 0.4 else rng.choice(cand)
    if avoid is not None:
        avoid.add(f)
    d = defs[f]
    lines = d["lines"]
    ranges = schema_ranges(lines)
    lo, hi = rng.choice(ranges)
    anywhere = rng.randint(0, len(lines))
    kind = rng.choice(["syntax", "pre", "mid", "mid-dep", "undef", "directive", "dup-mode", "union-misplaced", "deprecated-misplaced",
                       "attr-after-extent", "dup-marker", "commit", "commit", "commit", "commit-composite-const", "union-offset", "dup-name", "union-arity",
                       "pad-in-union", "missing-mode", "extent-small", "extent-odd", "bad-aggregation", "deprecated-dep",
                       "port-unregulated", "port-unregulated", "port-range", "type-name", "name-length",
                       "multiline-fault", "unloadable", "unloadable", "file-name", "file-name"])
    if kind == "file-name":
        # a file with a malformed NAME, in the namespace that is read or in a root namespace that is only looked into, at any depth
        # of nested namespace directories; the fault is met when the directories are scanned (one per case: which of two is met
        # first is not specified)
        if any(x.get("badfile") for x in defs):
            return None
        why, rel = rng.choice(FILE_NAME_FAULTS)
        sub = rng.choice(["", "", "sub/", "nested/", "deep/er/"])
        defs.append({"name": "Zq", "dir": "", "root": root_of(defs[0]), "final_fault": True, "dfault": FILE_NAME, "kind": "message", "deprecated": False,
                     "lines": [mk_line(T("@sealed"), ["dir", "sealed", None, ""])],
                     "badfile": {"root": rng.choice(["ns", "ns", "lib"]), "rel": sub + rel, "why": why}})
        if avoid is not None:
            avoid.discard(f)
            avoid.add(len(defs) - 1)
        return kind
    if kind == "unloadable":
        # a file that cannot be loaded at all: as a target, and - mostly - as a dependency first reached through a reference
        # (depth 1..3); kept out: see KEPT_OUT_UNLOADABLE
        if deep and rng.random() < 0.75:
            f = rng.choice(deepest) if rng.random() < 0.5 else rng.choice(deep)
            if avoid is not None:
                avoid.add(f)
            d = defs[f]
        elif not deep and rng.random() < 0.5:
            return None
        if d.get("dfault") or d.get("final_fault") or any(l.get("bad") for l in d["lines"]):
            return None
        d["unload"] = rng.choice(UNLOAD_KINDS)
        d["dfault"] = UNLOADABLE
        d["final_fault"] = True
        return kind
    is_union = find_dir(lines, lo, hi, "union") is not None
    if kind == "syntax":
        lines.insert(anywhere, mk_line(copy.deepcopy(rng.choice(SYNTAX_FAULTS)), None, fault="syn", bad=["syntax", "stmt"]))
    elif kind == "pre":
        toks, s = rng.choice(PRE_FAULTS)
        lines.insert(anywhere, mk_line(copy.deepcopy(toks), list(s), fault="pre", bad=["bad-type", "stmt"]))
    elif kind == "multiline-fault":
        # the faulty statement itself spans several physical lines: it is reported at its first line
        lit, _shown, nl = rng.choice(ML_LITERALS)
        new = mk_line(T("@assert", "r", lit, "o", "==", "o", "''"), ["dir", "assert", ["b", False], ""], bad=["assert-false", "stmt"])
        new["nl"] = nl
        lines.insert(anywhere, new)
    elif kind == "mid":
        toks, s = rng.choice(MID_FAULTS)
        lines.insert(anywhere, mk_line(copy.deepcopy(toks), list(s), fault="mid", bad=["bad-expression-or-type", "stmt"]))
    elif kind == "mid-dep":
        js = [j for j in range(f + 1, len(defs)) if defs[j].get("kind") == "message"]
        if not js:
            return None
        j = rng.choice(js)
        toks = cat(T(def_fullname(defs[j]) + ".1.0"), "o", T("[", "o", "0", "o", "]", "r", "zq"))
        lines.insert(anywhere, mk_line(toks, ["attr", "field", "zq", "?", ""], deps=[j], fault="mid", bad=["bad-array-of-composite", "stmt"]))
    elif kind == "undef":
        toks, s, refs = rng.choice(UNDEF_IDENT)
        lines.insert(anywhere, mk_line(copy.deepcopy(toks), list(s), refs=list(refs), bad=["undefined-identifier", "stmt"]))
    elif kind == "directive":
        toks, s, catg = rng.choice(DIRECTIVE_FAULTS)
        lines.insert(anywhere, mk_line(copy.deepcopy(toks), copy.deepcopy(s), bad=[catg, "stmt"]))
    elif kind == "dup-mode":
        m = find_dir(lines, lo, hi, "sealed")
        m = find_dir(lines, lo, hi, "extent") if m is None else m
        if m is None:
            return None
        new = mk_line(T("@sealed"), ["dir", "sealed", None, ""]) if rng.random() < 0.5 else mk_line(T("@extent", "r", "64"), ["dir", "extent", ["r", 64], ""])
        new["bad"] = ["duplicate-serialization-mode", "stmt"]
        lines.insert(rng.randint(m + 1, hi), new)
    elif kind == "union-misplaced":
        u = find_dir(lines, lo, hi, "union")
        fa = next((i for i in range(lo, hi) if lines[i].get("s") and lines[i]["s"][0] == "attr"), None)
        start = u if (u is not None and (fa is None or rng.random() < 0.5)) else fa
        if start is None:
            return None
        lines.insert(rng.randint(start + 1, hi), mk_line(T("@union"), ["dir", "union", None, ""], bad=["union-misplaced-or-duplicated", "stmt"]))
    elif kind == "deprecated-misplaced":
        rlo, rhi = ranges[0]
        dp = find_dir(lines, rlo, rhi, "deprecated")
        fa = next((i for i in range(rlo, rhi) if lines[i].get("s") and lines[i]["s"][0] == "attr"), None)
        opts = []
        if dp is not None:
            opts.append(rng.randint(dp + 1, rhi))
        if fa is not None:
            opts.append(rng.randint(fa + 1, rhi))
        if len(ranges) > 1:
            opts.append(rng.randint(ranges[1][0], ranges[1][1]))
        if not opts:
            return None
        lines.insert(rng.choice(opts), mk_line(T("@deprecated"), ["dir", "deprecated", None, ""], bad=["deprecated-misplaced-or-duplicated", "stmt"]))
    elif kind == "attr-after-extent":
        e = find_dir(lines, lo, hi, "extent")
        if e is None:
            return None
        new = rng.choice([mk_line(T("uint8", "r", "zq"), ["attr", "field", "zq", "saturated uint8", ""]),
                          mk_line(T("void8"), ["attr", "padding", "", "void8", ""]),
                          mk_line(T("uint8", "r", "ZQ", "o", "=", "o", "1"), ["attr", "const", "ZQ", "saturated uint8", "1"])])
        new["bad"] = ["attribute-after-extent", "stmt"]
        lines.insert(rng.randint(e + 1, hi), new)
    elif kind == "dup-marker":
        if len(ranges) < 2:
            return None
        lines.insert(rng.randint(ranges[1][0], ranges[1][1]), mk_line(T("---"), ["marker"], bad=["duplicate-marker", "stmt"]))
    elif kind == "commit":
        toks, s, catg = rng.choice(COMMIT_FAULTS)
        lines.insert(anywhere, mk_line(copy.deepcopy(toks), list(s), fault="commit", bad=[catg, "commit"]))
    elif kind == "commit-composite-const":
        js = [j for j in range(f + 1, len(defs)) if defs[j].get("kind") == "message"]
        if not js:
            return None
        j = rng.choice(js)
        toks = cat(T(def_fullname(defs[j]) + ".1.0"), "r", T("ZQ", "o", "=", "o", "1"))
        lines.insert(anywhere, mk_line(toks, ["attr", "const", "ZQ", def_fullname(defs[j]) + ".1.0", "1"], deps=[j], fault="commit", bad=["bad-constant-type", "commit"]))
    elif kind == "union-offset":
        if not is_union:
            return None
        u = find_dir(lines, lo, hi, "union")
        flds = [i for i in range(lo, hi) if lines[i].get("s") and lines[i]["s"][0] == "attr" and lines[i]["s"][1] == "field"]
        if any(lines[i].get("deps") or "<=" in lines[i]["s"][3] for i in flds):
            return None  # `_offset_` would expand a big set
        if any(lines[i].get("offs") for i in range(lo, hi)):
            return None
        pos = rng.randint(u + 1, flds[-1])
        nxt = next(i for i in flds if i >= pos)
        lines[nxt]["bad"] = ["field-after-offset-in-union", "commit"]
        lines.insert(pos, mk_line(T("@assert", "r", "_offset_", "o", "==", "o", "_offset_"), ["dir", "assert", ["b", True], ""], offs=True))
    elif kind == "dup-name":
        named = [i for i in range(lo, hi) if lines[i].get("s") and lines[i]["s"][0] == "attr" and lines[i]["s"][2] and not lines[i].get("bad")]
        if not named:
            return None
        o = rng.choice(named)
        nm = lines[o]["s"][2]
        new = mk_line(T("uint8", "r", nm), ["attr", "field", nm, "saturated uint8", ""]) if rng.random() < 0.6 else \
            mk_line(T("uint8", "r", nm, "o", "=", "o", "1"), ["attr", "const", nm, "saturated uint8", "1"])
        new["bad"] = ["duplicate-name", "final"]
        lines[o]["bad"] = ["duplicate-name", "final"]
        a, b = attr_positions(lines, lo, hi)
        if o + 1 > b:
            # behind an evaluated `_offset_` of a union only a constant may follow
            new = mk_line(T("uint8", "r", nm, "o", "=", "o", "1"), ["attr", "const", nm, "saturated uint8", "1"], bad=["duplicate-name", "final"])
            e = find_dir(lines, lo, hi, "extent")
            b = e if e is not None else hi
        lines.insert(rng.randint(max(a, o + 1), max(b, o + 1)), new)  # after the original: expressions keep resolving to the first one
    elif kind == "union-arity":
        if not is_union:
            return None
        flds = [i for i in range(lo, hi) if lines[i].get("s") and lines[i]["s"][0] == "attr" and lines[i]["s"][1] == "field"]
        keep = rng.choice([0, 1])
        for i in sorted(flds[keep:], reverse=True):
            del lines[i]
        d["dfault"] = "union-arity"
    elif kind == "pad-in-union":
        if not is_union:
            return None
        a, b = attr_positions(lines, lo, hi)
        lines.insert(rng.randint(a, b), mk_line(T("void8"), ["attr", "padding", "", "void8", ""], bad=["padding-in-union", "final"]))
    elif kind == "missing-mode":
        m = find_dir(lines, lo, hi, "sealed")
        m = find_dir(lines, lo, hi, "extent") if m is None else m
        if m is None:
            return None
        del lines[m]
        d["dfault"] = "missing-serialization-mode"
    elif kind in ("extent-small", "extent-odd"):
        m = find_dir(lines, lo, hi, "sealed")
        m = find_dir(lines, lo, hi, "extent") if m is None else m
        flds = [i for i in range(lo, hi) if lines[i].get("s") and lines[i]["s"][0] == "attr" and lines[i]["s"][1] != "const" and not lines[i].get("deps")]
        if m is None or (kind == "extent-small" and not flds):
            return None
        c = lines[m].get("c")
        del lines[m]
        la = max([i for i in range(lo, hi - 1) if lines[i].get("s") and lines[i]["s"][0] == "attr"], default=lo - 1)
        n = 0 if kind == "extent-small" else rng.choice([12, 1, 63])
        lines.insert(rng.randint(la + 1, hi - 1), mk_line(T("@extent", "r", str(n)), ["dir", "extent", ["r", n], ""], bad=[kind, "final"], c=c))
        d["final_fault"] = True
    elif kind == "bad-aggregation":
        toks, norm = rng.choice([(T("utf8", "r", "zq"), "utf8"), (T("byte", "r", "zq"), "byte"), (T("utf8", "o", "[", "o", "3", "o", "]", "r", "zq"), "utf8[3]")])
        a, b = attr_positions(lines, lo, hi)
        lines.insert(rng.randint(a, b), mk_line(toks, ["attr", "field", "zq", norm, ""], bad=["bad-aggregation", "final"]))
        d["final_fault"] = True
    elif kind in ("port-unregulated", "port-range"):
        # faults of the definition's identity (its file name), detected when the finished composite is checked: no line at all
        if d.get("dfault") or d.get("kind") not in REGULATED:
            return None
        lo, hi = REGULATED[d["kind"]]
        top = PORT_MAX[d["kind"]]
        if kind == "port-unregulated":
            d["port"] = rng.choice([0, 1, 7, lo - 1, hi + 1, top, rng.randint(0, lo - 1), rng.randint(hi + 1, top)])
            d["dfault"] = "unregulated-fixed-port-id"
        else:
            d["port"] = rng.choice([top + 1, top + 2, 65535, 65536, rng.randint(top + 1, 100000)])
            d["dfault"] = "fixed-port-id-out-of-range"
        d["final_fault"] = True
    elif kind in ("type-name", "name-length"):
        if d.get("dfault"):
            return None
        if kind == "type-name":
            new_dir, new_name = d.get("dir") or "", rng.choice(["Bool", "Float32", "Uint8", "COM1", "_Zq_", "Void", "Truncated", "Q1_2", "Lpt3", "Self"])
            if any(x is not d and x["name"].lower() == new_name.lower() for x in defs):
                return None
            d["dfault"] = "reserved-type-name"
        else:
            suffix = len(".Response") if d.get("kind") == "service" else 0
            total = MAX_NAME - suffix + rng.choice([1, 1, 2, 40])  # length of the full name `ns.<dir>.<name>`: one too long and more
            new_dir = "d" + "i" * rng.choice([99, 150, 200])
            new_name = d["name"] + "x" * (total - len(root_of(d) + ".") - len(new_dir) - 1 - len(d["name"]))
            d["dfault"] = "name-too-long"
        rename_def(case, f, new_dir, new_name)
        d["final_fault"] = True
    elif kind == "deprecated-dep":
        js = sorted({j for l in lines for j in (l.get("deps") or [])})
        if d.get("deprecated") or not js:
            return None
        j = rng.choice(js)
        if defs[j].get("deprecated"):
            return None
        defs[j]["lines"].insert(0, mk_line(T("@deprecated"), ["dir", "deprecated", None, ""]))
        defs[j]["deprecated"] = True
        for r, rd in enumerate(defs):
            if rd.get("deprecated"):
                continue
            hit = [l for l in rd["lines"] if j in (l.get("deps") or [])]
            for l in hit:
                if not l.get("bad"):
                    l["bad"] = ["deprecated-dependency", "final"]
            if hit:
                rd["final_fault"] = True
    return kind


def bad_file_index(case: dict) -> typing.Optional[int]:
    return next((i for i, d in enumerate(case["defs"]) if d.get("badfile")), None)


def droppable(d: dict, i: int) -> bool:
    """May statement line i of definition d be deleted while shrinking?  Only if the rest stays exactly as valid as it was:
    serialization mode / @union / @deprecated / marker statements stay, a constant that is referred to stays, a union keeps
    two variants, nothing changes next to an `_offset_` evaluation or below an injected @extent."""
    lines = d["lines"]
    l = lines[i]
    st = l.get("s")
    if st is None or l.get("bad") or l.get("offs"):
        return False
    if st[0] == "dir":
        return st[1] in ("print", "assert")
    if st[0] != "attr":
        return False
    lo, hi = next((a, b) for a, b in schema_ranges(lines) if a <= i < b or (a == b == i))
    rng_lines = lines[lo:hi]
    if any(m.get("offs") for m in rng_lines):
        return False
    if any(m.get("bad") and m["bad"][0] in ("extent-small", "extent-odd") for m in rng_lines):
        return False
    if st[1] == "const":
        return not any(st[2] in (m.get("refs") or []) for m in lines[i + 1:])
    if find_dir(lines, lo, hi, "union") is not None:
        nf = sum(1 for m in rng_lines if m.get("s") and m["s"][0] == "attr" and m["s"][1] == "field" and not m.get("bad"))
        return st[1] == "field" and nf > 2
    return True


# ------------------------------------------------------------------------------------------------- the suite

KEYS = ("res", "types", "file", "line", "prints")

# The model driver is spoken to in lines of JSON, and the harness cuts its answer into lines with str.splitlines() (harness/common.py,
# a shared file): a NEL / LS / PS that the driver writes unescaped into a doc string would cut an answer in two.  The reader model treats
# comment and @print texts as opaque (it strips one leading blank and joins with line feeds), so every character outside printable
# ASCII / tab / line feed travels to the model as the ASCII text `\u{hex}` (backslashes too, wherever that is needed to keep the
# encoding injective) and is decoded when the answer comes back.
_PLAIN = re.compile(r"^[\t\n -~]*$")
_ENCODED = re.compile(r"\\u\{([0-9a-f]+)\}")


def enc_text(x):
    if isinstance(x, str):
        if _PLAIN.match(x) and "\\u{" not in x:
            return x
        return "".join(ch if (ch in "\t\n" or " " <= ch <= "~") and ch != "\\" else "\\u{%x}" % ord(ch) for ch in x)
    if isinstance(x, list):
        return [enc_text(y) for y in x]
    if isinstance(x, dict):
        return {k: enc_text(y) for k, y in x.items()}
    return x


def dec_text(x):
    if isinstance(x, str):
        return _ENCODED.sub(lambda m: chr(int(m.group(1), 16)), x) if "\\u{" in x else x
    if isinstance(x, list):
        return [dec_text(y) for y in x]
    if isinstance(x, dict):
        return {k: dec_text(y) for k, y in x.items()}
    return x


class TextSuite(common.Suite):
    name = "text"

    def generate(self, rng, n, prop, tier):
        out = []
        for _ in range(n):
            c = gen_namespace(rng, prop=prop)
            c["faults"] = []
            if prop == "C17":
                r = rng.random()
                used: set = set()
                for _k in range(0 if r < 0.2 else (2 if r > 0.9 else 1)):
                    for _try in range(6):
                        before = set(used)
                        k = inject_fault(rng, c, used)
                        if not k:
                            used = before
                        if k:
                            c["faults"].append(k)
                            break
                if rng.random() < 0.3:
                    c["alt"] = gen_alt(rng, c, prop)
            else:
                if rng.random() < 0.7:
                    c["alt"] = gen_alt(rng, c)
            out.append(c)
        return out

    def corpus(self, prop):
        return [copy.deepcopy(c) for c in CORPUS]

    def run_impl(self, case):
        pydsdl = common.import_pydsdl()
        try:
            out, types = read_variant(pydsdl, case, want_types=True)
            if out["res"] == "ok" and types is not None and not faults_of(case):
                try:
                    out["canon"] = canonical_check(pydsdl, case, types)
                except Exception as ex:  # pylint: disable=broad-except
                    out["canon"] = "canonical check crashed: %s: %s" % (type(ex).__name__, ex)
            if case.get("alt"):
                v = variant(case)
                alt, alt_types = read_variant(pydsdl, v, want_types=True)
                out["alt"] = alt
                if types is not None and alt_types is not None:
                    out["alt_equal"] = all(i in alt_types and alt_types[i] == t and t == alt_types[i] and
                                           [str(a) for a in alt_types[i].attributes] == [str(a) for a in t.attributes] for i, t in types.items())
            return out
        except Exception as ex:  # pylint: disable=broad-except
            return {"res": "foreign:harness:" + type(ex).__name__, "soft_msg": str(ex)[:300]}

    def model_case(self, case):
        # a definition whose file cannot be loaded: the read fails before the first line is seen, with the definition's own path and
        # no line - for the reader model that is a definition without lines whose completion fails
        if bad_file_index(case) is not None:
            # a malformed file name fails when the directories are scanned: its own path, no line, nothing read or delivered yet -
            # for the reader model that is a namespace of one definition without lines whose completion fails
            return {"id": case.get("id"), "targets": [0], "defs": [{"final_fault": True, "lines": []}]}
        return {"id": case.get("id"), "targets": target_order(case),
                "defs": [{"final_fault": True, "lines": []} if d.get("unload") else
                         {"final_fault": bool(d.get("final_fault")), "lines": enc_text(render_def(d, case["deco"], i)[1])} for i, d in enumerate(case["defs"])]}

    def compare(self, case, impl, model, prop):
        a = {k: impl.get(k) for k in KEYS if k in impl}
        b = {k: dec_text(model.get(k)) for k in KEYS if k in model}
        if "err" in model:
            return "model driver error: %s" % model["err"]
        if "types" in b:
            b["types"] = sorted(b["types"], key=lambda x: x[0])
        # (an unloadable definition file is an InvalidDefinitionError naming the file since /repo 6ded0dc: no mapping needed)
        if bad_file_index(case) is not None and b.get("file") == 0:
            b["file"] = bad_file_index(case)  # the model was given that file alone (see model_case)
        if a == b:
            return None
        for k in KEYS:
            if a.get(k) != b.get(k):
                return "%s: impl=%s model=%s" % (k, _short(a.get(k)), _short(b.get(k)))
        return "differ"

    def oracle(self, case, impl, prop):
        if str(impl.get("res", "")).startswith("foreign:harness"):
            return None
        fn = oracle_c03 if prop == "C03" else oracle_c17
        v = fn(case, impl)
        if v is not None:
            return v
        if prop == "C03" and not faults_of(case):
            if impl.get("canon"):
                return "canonical: " + impl["canon"]
            if case.get("alt") and "alt" in impl:
                va = variant(case)
                w = oracle_c03(va, impl["alt"])
                if w is not None:
                    return "second rendering: " + w
                if impl.get("alt_equal") is False:
                    return "formatting-dependent: two renderings of one definition give models that differ under =="
                if impl.get("res") == "ok" and impl["alt"].get("res") == "ok":
                    a = [[i, strip_docs(c)] for i, c in impl["types"]]
                    b = [[i, strip_docs(c)] for i, c in impl["alt"]["types"]]
                    if a != b:
                        return "formatting-dependent: two renderings of one definition give different attribute lists"
        if prop == "C17" and case.get("alt") and "alt" in impl:
            w = oracle_c17(variant(case), impl["alt"])
            if w is not None:
                return "second rendering: " + w
        return None

    def signature(self, case, desc, prop):
        d = desc
        if d.startswith("second rendering: "):
            d = d[len("second rendering: "):]
        head = d.split(":")[0].strip()
        if " " in head or len(head) > 40:
            head = "-".join(d.split()[:4])
        return "%s/%s" % (prop, head)

    def shrink(self, case):
        if case.get("alt"):
            c = copy.deepcopy(case)
            c["alt"] = None
            yield c
        if case["deco"]["ws"] != "min" or case["deco"]["eol"] != "lf" or case["deco"].get("route") != "file":
            c = copy.deepcopy(case)
            c["deco"].update({"ws": "min", "eol": "lf", "route": "file"})
            yield c
        if any(case["deco"]["final_nl"]):
            c = copy.deepcopy(case)
            c["deco"]["final_nl"] = [False] * len(case["defs"])
            yield c
        if case["deco"].get("cwd"):
            c = copy.deepcopy(case)
            del c["deco"]["cwd"]
            yield c
        bf = bad_file_index(case)
        if bf is not None and "/" in case["defs"][bf]["badfile"]["rel"] and case["defs"][bf]["badfile"]["why"] != "dotted-directory":
            c = copy.deepcopy(case)
            c["defs"][bf]["badfile"]["rel"] = case["defs"][bf]["badfile"]["rel"].rsplit("/", 1)[1]
            yield c
        # drop a definition that nothing refers to (the last one first; the later ones move up)
        n = len(case["defs"])
        for k in reversed(range(1, n)):
            if any(k in (l.get("deps") or []) for d in case["defs"] for l in d["lines"]):
                continue
            c = copy.deepcopy(case)
            del c["defs"][k]
            for d in c["defs"]:
                for l in d["lines"]:
                    if l.get("deps"):
                        l["deps"] = [j - 1 if j > k else j for j in l["deps"]]
            fn = c["deco"].get("final_nl")
            if fn and len(fn) == n:
                del fn[k]
            if c.get("alt"):
                c["alt"]["inserts"] = [[x[0] - 1 if x[0] > k else x[0]] + list(x[1:]) for x in c["alt"]["inserts"] if x[0] != k]
                afn = c["alt"]["deco"].get("final_nl")
                if afn and len(afn) == n:
                    del afn[k]
            yield c
        # a regulated fixed port-ID that is no fault can go
        for di, d in enumerate(case["defs"]):
            if d.get("port") is not None and "port" not in str(d.get("dfault") or ""):
                c = copy.deepcopy(case)
                c["defs"][di]["port"] = None
                yield c
        # drop lines, statement-less ones first; only statements whose removal cannot create a fault of its own
        for stmtless in (True, False):
            for di, d in enumerate(case["defs"]):
                for i, l in enumerate(d["lines"]):
                    if (l.get("s") is None and not l.get("toks")) != stmtless or l.get("bad"):
                        continue
                    if not stmtless and not droppable(d, i):
                        continue
                    c = copy.deepcopy(case)
                    del c["defs"][di]["lines"][i]
                    if c.get("alt"):
                        c["alt"] = None
                    yield c
        for di, d in enumerate(case["defs"]):
            for i, l in enumerate(d["lines"]):
                if l.get("c") is not None and l.get("toks"):
                    c = copy.deepcopy(case)
                    c["defs"][di]["lines"][i]["c"] = None
                    yield c

    def features(self, case, impl):
        yield "mode:" + case["mode"]
        yield "defs:%d" % len(case["defs"])
        yield "res:" + str(impl.get("res"))
        yield "eol:" + case["deco"]["eol"]
        yield "ws:" + case["deco"]["ws"]
        yield "route:" + str(case["deco"].get("route"))
        yield "cwd:" + str(case["deco"].get("cwd") or "abs")
        bf = bad_file_index(case)
        if bf is not None:
            b = case["defs"][bf]["badfile"]
            yield "file-name-fault:%s:%s:%s" % (b["why"], "lookup-namespace" if b["root"] == "lib" else "read-namespace", "depth%d" % b["rel"].count("/"))
            yield "file-name-fault-cwd:" + str(case["deco"].get("cwd") or "abs")
        if faults_of(case) and impl.get("res") == "invalid":
            yield "error-path-judged-from-cwd:" + str(case["deco"].get("cwd") or "abs")
        for k in case.get("faults") or []:
            yield "fault:" + k
        for di, d in enumerate(case["defs"]):
            if d.get("unload"):
                dep = reach_depth(case, di)
                yield "unloadable:" + d["unload"]
                yield "unloadable-depth:%s" % ("unreached" if dep is None else dep)
            else:
                nls = [l["nl"] for l in d["lines"] if l.get("nl")]
                if nls:
                    later = any(l.get("bad") or (l.get("s") and l["s"][:2] == ["dir", "print"]) for l in d["lines"][next(i for i, l in enumerate(d["lines"]) if l.get("nl")) + 1:])
                    yield "multiline-literals:%s:%s%s" % (eol_style(case["deco"]), min(3, sum(nls)), ":fault-or-print-behind" if later else "")
        for d in case["defs"]:
            if d.get("port") is not None:
                yield "fixed-port:" + ("faulty" if str(d.get("dfault") or "").find("port") >= 0 else "regulated")
        for f, _ln, cls, catg in faults_of(case):
            if cls == "final":
                dep = reach_depth(case, f)
                if dep is not None:
                    yield "final-fault-depth:%d" % dep
                    if _ln is None:
                        yield "identity-fault-depth:%d:%s" % (dep, catg)
        if impl.get("res") == "invalid":
            yield "error:" + str(impl.get("soft_cls"))
            fs = faults_of(case)
            if fs and impl.get("file") not in (None, 0) and case["mode"] == "files":
                yield "fault-in-dependency"
        def kwf(what: str, nm: str):
            k = keyword_in(nm)
            if k:
                yield "keyword-like:%s:%s" % (what, k.split(":")[0])
                yield "keyword-like-word:" + k.split(":")[1]

        yield from kwf("root-namespace", case_root(case))
        for d in case["defs"]:
            yield from kwf("nested-namespace", d.get("dir") or "")
            yield from kwf("type-name", d["name"])
            for li, l in enumerate(d["lines"]):
                st = l.get("s")
                if st and st[0] == "attr" and st[2] and not l.get("bad"):
                    yield from kwf(st[1] + "-name", st[2])
                for j in l.get("deps") or []:
                    if j < len(case["defs"]) and not l.get("bad"):
                        tgt = case["defs"][j]
                        written = next((t[0] for t in l.get("toks") or [] if t[0].endswith(tgt["name"] + ".1.0")), "")
                        if written and keyword_in(written.split(".")[0]):
                            yield "keyword-like:reference:%s:%s" % ("relative" if written == tgt["name"] + ".1.0" else "absolute",
                                                                    "in-expression" if st and st[0] == "dir" else "array-element" if "[" in (st[3] if st else "") else "scalar")
                            yield "keyword-like-word:" + keyword_in(written.split(".")[0]).split(":")[1]
                if l.get("c") is not None:
                    pos_kind = "trailing-comment" if l.get("toks") else "comment-line"
                    for k in exotic_classes(l["c"]):
                        c = l["c"]
                        idx = [i for i, ch in enumerate(c) if exotic_class(ch) == k and not " " <= ch <= "~"]
                        where = "only" if len(c.strip(" ")) == len(idx) else "end" if idx[-1] == len(c) - 1 else "start" if idx[0] <= 1 else "middle"
                        yield "special-char:%s:%s" % (k, pos_kind)
                        yield "special-char-position:%s:%s" % ("line-boundary" if k == "line-boundary" else "other", where)
                        if k == "line-boundary" and any(m.get("bad") or (m.get("s") and m["s"][:2] == ["dir", "print"]) for m in d["lines"][li + 1:]):
                            yield "special-char:line-boundary:fault-or-print-behind"
                for tok, _sep in l.get("toks") or []:
                    if tok[:1] in "'\"" and not l.get("bad"):
                        for k in exotic_classes(tok):
                            yield "special-char:%s:string-literal" % k
                            yield "special-char-literal-in:%s" % ("@" + st[1] if st and st[0] == "dir" else "constant")
        for d in case["defs"]:
            yield "kind:" + str(d.get("kind"))
            last = d["lines"][-1] if d["lines"] else None
            if last is not None and last.get("s") and last["s"][0] == "attr":
                yield "ends-with-attribute"
            for l in d["lines"]:
                s = l.get("s")
                if s and not l.get("bad"):
                    # numeric literals of the statement: spelling classes, and where literals of the real kind stand
                    where = ("constant:" + s[3].split()[-1].rstrip("0123456789") if s[1] == "const" else "array-capacity") if s[0] == "attr" else "@" + s[1] if s[0] == "dir" else s[0]
                    for tok, _sep in l.get("toks") or []:
                        for cl in literal_classes(tok):
                            yield cl
                            if cl.startswith("real-literal:exponent:-") or cl == "real-literal:point":
                                yield "real-literal-at:%s:%s" % (where, "negative-exponent" if "exponent" in cl else "point")
                    # constant expressions: operators per place, classes of the powers (see "constant expressions")
                    words = [t[0] for t in l.get("toks") or []]
                    for wi, w in enumerate(words):
                        if w in ("**", "%", "/", "*", "|", "^", "&") or (w in "+-" and wi > 0 and words[wi - 1] not in ("=", "(", "[", "<=", "<", "==", "@print", "@assert", "@extent")):
                            yield "expr-op:%s:%s" % (where, w)
                        if w == "**" and wi + 1 < len(words):
                            yield "expr-power-at:%s:%s" % (where, "negative-exponent" if words[wi + 1] == "-" else "parenthesised-exponent" if words[wi + 1] == "(" else "plain-exponent")
                    for cl in l.get("rx") or []:
                        yield "const-expr:" + cl
                if s:
                    yield "stmt:" + (s[0] if s[0] != "dir" else "@" + s[1]) + (":" + s[1] if s[0] == "attr" else "")
                elif line_is_empty(l):
                    yield "line:empty"
                elif l.get("c") is None:
                    yield "line:blank-only"
                else:
                    yield "line:comment"
        if case.get("alt"):
            yield "alt"
        if impl.get("prints"):
            yield "prints-delivered"

    def nontrivial(self, case, impl):
        return any(l.get("s") for d in case["defs"] for l in d["lines"])


def _txt(name: str, text_lines: typing.List[dict], mode="ns", final_nl=False, extra_defs=None) -> dict:
    defs = [{"name": name, "dir": "", "final_fault": False, "dfault": None, "kind": "message", "deprecated": False, "lines": text_lines}] + (extra_defs or [])
    return {"mode": mode, "defs": defs, "faults": [], "alt": None,
            "deco": {"seed": 1, "ws": "min", "eol": "lf", "final_nl": [final_nl] * len(defs), "route": "file"}}


def _fld(n, **kw):
    return mk_line(T("uint8", "r", n), ["attr", "field", n, "saturated uint8", ""], **kw)


_SEALED = lambda **kw: mk_line(T("@sealed"), ["dir", "sealed", None, ""], **kw)  # noqa: E731

CORPUS = [
    # last line is an attribute, no final newline (defect fixed by 63c4c28)
    _txt("A", [_SEALED(), _fld("x")]),
    _txt("A", [_SEALED(), _fld("x", c=" doc"), mk_line(c=" more")]),
    _txt("A", [_SEALED(), _fld("x"), mk_line(lead="  ")]),
    # header comment, attribute docs, blank-only line does not end a comment run
    _txt("A", [mk_line(c=" header"), mk_line(), _fld("a", c=" da"), mk_line(c=" da2"), mk_line(lead=" "), mk_line(c=" stray"), _fld("b"), _SEALED()], final_nl=True),
    # lazily committed attribute with a bad name, committed four lines later
    _txt("A", [_fld("a"), mk_line(T("uint8", "r", "_b_"), ["attr", "field", "_b_", "saturated uint8", ""], fault="commit", bad=["bad-name", "commit"]),
               mk_line(c=" c1"), mk_line(c=" c2"), mk_line(), mk_line(), _SEALED()], final_nl=True),
    # dependency with a finalize-time error and with a @print
    _txt("A", [mk_line(), mk_line(c=" refers to B"), mk_line(T("ns.B.1.0", "r", "b"), ["attr", "field", "b", "ns.B.1.0", ""], deps=[1]), _SEALED()], final_nl=True,
         extra_defs=[{"name": "B", "dir": "", "final_fault": False, "dfault": None, "kind": "message", "deprecated": False,
                      "lines": [_fld("a", bad=["duplicate-name", "final"]), _fld("a", bad=["duplicate-name", "final"]), _SEALED()]}]),
    _txt("B", [mk_line(), mk_line(T("ns.A.1.0", "r", "b"), ["attr", "field", "b", "ns.A.1.0", ""], deps=[1]), _SEALED()], final_nl=True,
         extra_defs=[{"name": "A", "dir": "", "final_fault": False, "dfault": None, "kind": "message", "deprecated": False,
                      "lines": [_fld("a"), mk_line(), mk_line(T("@print", "r", "1"), ["dir", "print", ["r", 1], "1"]), _SEALED()]}]),
]

_ML = mk_line(T("@print", "r", "'a\nb'"), ["dir", "print", ["o"], "'a\\nb'"])
_ML["nl"] = 1
CORPUS.append(_txt("A", [_ML, mk_line(T("@assert", "r", "false"), ["dir", "assert", ["b", False], ""], bad=["assert-false", "stmt"]), _SEALED()], final_nl=True))



def _dep(name, lines, **kw) -> dict:
    d = {"name": name, "dir": "", "final_fault": False, "dfault": None, "kind": "message", "deprecated": False, "lines": lines}
    d.update(kw)
    return d


def _ref(i, full, name="r") -> dict:
    return mk_line(T(full + ".1.0", "r", name), ["attr", "field", name, full + ".1.0", ""], deps=[i])


# faults that are detected after the last line has been processed (the finished composite is checked), in a definition that is
# reached through a reference before it is read as a target itself: depth 1 and 2, read_namespace and read_files
CORPUS += [
    _txt("A", [mk_line(c=" top"), mk_line(), _ref(1, "ns.B"), _SEALED()], final_nl=True,
         extra_defs=[_dep("B", [_fld("x"), _SEALED()], port=7, final_fault=True, dfault="unregulated-fixed-port-id")]),
    _txt("A", [_ref(1, "ns.B"), _SEALED()], mode="files",
         extra_defs=[_dep("B", [mk_line(), _ref(2, "ns.C"), _SEALED()]),
                     _dep("C", [_SEALED(), mk_line(T("---"), ["marker"]), _SEALED()], kind="service", port=511, final_fault=True, dfault="unregulated-fixed-port-id")]),
    _txt("A", [_ref(1, "ns.B"), _SEALED()], final_nl=True,
         extra_defs=[_dep("B", [_fld("x"), _SEALED()], port=8192, final_fault=True, dfault="fixed-port-id-out-of-range")]),
    _txt("A", [mk_line(), _ref(1, "ns.Bool"), _SEALED()], final_nl=True,
         extra_defs=[_dep("Bool", [_fld("x"), _SEALED()], final_fault=True, dfault="reserved-type-name")]),
    _txt("A", [_ref(1, "ns.B"), _SEALED()], final_nl=True, extra_defs=[_dep("B", [_fld("x"), _SEALED()], port=6144)]),
]

SUITE = TextSuite()
