"""
Suite `expr` (C04): constant-expression trees rendered as DSDL text (minimal or redundant parentheses, random blanks)
and handed to the REAL library through a definition in a temporary namespace:

    @print <expr>          value observed through print_output_handler
    @assert <expr>         true passes, false is AssertionCheckFailureError, anything else is rejected
    <type> X = <expr>      Constant.value of the returned model
    uint8[<expr>] x / [<=expr] / [<expr]     array capacity of the returned model
    @extent <expr>         extent of the returned model

Case:    {"tree": T, "text": rendered expression, "env": [[name, type, T, text]], "ctx": [...]}
Tree:    ["int", text, value] | ["real", text, [num, den]] | ["str", text, [code points] | None] | ["bool", b] | ["id", name]
         | ["set", [T...]] | ["un", op, T] | ["bin", op, T, T] | ["attr", T, name]
Outcome: {"v": value} | {"err": "invalid" | "internal" | "foreign:<cls>"}, value = ["r", num, den] | ["b", bool] | ["s", [cp...]]
         | ["set", [sorted values]]

The Lean side evaluates the *tree* (literals decoded from their text).  The oracle evaluates the tree with
fractions.Fraction, using the intended literal values recorded at generation time, and the Specification's
definedness table; it needs neither the Lean model nor the library.

Strings: the Specification compares strings by their Unicode NFC forms, so a string *value* is a class of canonically
equivalent texts.  The oracle (reference: Python's `unicodedata`) identifies strings by their NFC form everywhere
(`==`, `!=`, set membership, the value observed through @print); string values of the library and of the model are
compared with the oracle and with each other in NFC form.  The Lean model normalises with its own implementation of
UAX #15 over the character data of the case ("ucd" of the model case, `ucd_extract`).
"""
from __future__ import annotations

import ast
import atexit
import json
import math
import os
import random
import shutil
import tempfile
import typing
import unicodedata
from fractions import Fraction
from pathlib import Path

import common

# ------------------------------------------------------------------------------------------------ vocabulary

LEVEL_BIN = {"lor": 0, "land": 0, "eq": 2, "ne": 2, "le": 2, "ge": 2, "lt": 2, "gt": 2, "bor": 3, "bxor": 3, "band": 3,
             "add": 4, "sub": 4, "mul": 5, "div": 5, "mod": 5, "pow": 7}
SYM_BIN = {"lor": "||", "land": "&&", "eq": "==", "ne": "!=", "le": "<=", "ge": ">=", "lt": "<", "gt": ">", "bor": "|", "bxor": "^",
           "band": "&", "add": "+", "sub": "-", "mul": "*", "div": "/", "mod": "%", "pow": "**"}
LEVEL_UN = {"not": 1, "pos": 6, "neg": 6}
SYM_UN = {"not": "!", "pos": "+", "neg": "-"}
OPERAND_UN = {"not": 1, "pos": 7, "neg": 7}
ARITH = ("add", "sub", "mul", "div", "mod", "pow")
CMP = ("eq", "ne", "le", "ge", "lt", "gt")
BIT = ("bor", "bxor", "band")


def level(t) -> int:
    k = t[0]
    if k == "un":
        return LEVEL_UN[t[1]]
    if k == "bin":
        return LEVEL_BIN[t[1]]
    if k == "attr":
        return 8
    return 9


def left_level(op):
    return 8 if op == "pow" else LEVEL_BIN[op]


def right_level(op):
    return 6 if op == "pow" else LEVEL_BIN[op] + 1


# ------------------------------------------------------------------------------------------------ rendering


def tokens(t, k: int, rng: typing.Optional[random.Random], extra: float) -> typing.List[str]:
    """Tokens of `t` where the grammar demands level k; with `rng`, redundant parentheses with probability `extra`."""
    kind = t[0]
    if kind in ("int", "real", "str"):
        body = [t[1]]
    elif kind == "bool":
        body = ["true" if t[1] else "false"]
    elif kind == "id":
        body = [t[1]]
    elif kind == "set":
        body = ["{"]
        for i, e in enumerate(t[1]):
            if i:
                body.append(",")
            body += tokens(e, 0, rng, extra)
        body.append("}")
    elif kind == "un":
        body = [SYM_UN[t[1]]] + tokens(t[2], OPERAND_UN[t[1]], rng, extra)
    elif kind == "bin":
        body = tokens(t[2], left_level(t[1]), rng, extra) + [SYM_BIN[t[1]]] + tokens(t[3], right_level(t[1]), rng, extra)
    elif kind == "attr":
        body = tokens(t[1], 8, rng, extra) + [".", t[2]]
    else:
        raise ValueError(kind)
    if level(t) < k:
        body = ["("] + body + [")"]
    if rng is not None and extra > 0:
        while rng.random() < extra:
            body = ["("] + body + [")"]
    return body


def join(toks: typing.List[str], rng: typing.Optional[random.Random], blanks: float) -> str:
    if rng is None:
        return " ".join(toks)
    out = []
    for i, tk in enumerate(toks):
        if i and rng.random() < blanks:
            out.append(rng.choice([" ", " ", "  ", "\t", " \t "]))
        elif i and tk == "." and (toks[i - 1][0].isdigit() or (toks[i - 1][0] == "." and len(toks[i - 1]) > 1)):
            # `1.count` would be the real literal `1.` followed by a name (Ex.needsBlank in lean/Model/Expr.lean):
            # the only place where two adjacent tokens of a rendered tree fuse
            out.append(" ")
        out.append(tk)
    return "".join(out)


def render(t, rng: typing.Optional[random.Random] = None, extra: float = 0.0, blanks: float = 0.5) -> str:
    return join(tokens(t, 0, rng, extra), rng, blanks)


# ------------------------------------------------------------------------------------------------ literals


def _sep_digits(ds: str, rng: random.Random, p: float, first_ok: bool) -> str:
    out = ""
    for i, d in enumerate(ds):
        if (i or first_ok) and rng.random() < p:
            out += "_"
        out += d
    return out


def lit_int(v: int, rng: random.Random) -> list:
    assert v >= 0
    base = rng.choice(["dec", "dec", "dec", "hex", "bin", "oct"])
    p = rng.choice([0, 0, 0.3, 1.0])
    if base == "dec":
        if v == 0:
            text = _sep_digits("0" * rng.choice([1, 1, 1, 2, 4]), rng, p, False)
        else:
            text = _sep_digits(str(v), rng, p, False)
    elif base == "hex":
        ds = "%x" % v
        ds = "0" * rng.choice([0, 0, 2]) + "".join(c.upper() if rng.random() < 0.5 else c for c in ds)
        text = rng.choice(["0x", "0X"]) + _sep_digits(ds, rng, p, True)
    elif base == "bin":
        text = rng.choice(["0b", "0B"]) + _sep_digits(bin(v)[2:], rng, p, True)
    else:
        text = rng.choice(["0o", "0O"]) + _sep_digits(oct(v)[2:], rng, p, True)
    return ["int", text, v]


def lit_real(rng: random.Random) -> list:
    """A real literal in one of the forms the grammar admits, with its exact value."""
    p = rng.choice([0, 0, 0.3])
    ip = "".join(rng.choice("0123456789") for _ in range(rng.choice([1, 1, 2, 3, 5])))
    fp = "".join(rng.choice("0123456789") for _ in range(rng.choice([1, 1, 2, 3, 6])))
    form = rng.choice(["d.d", "d.d", ".d", "d.", "de", "d.de", ".de", "d.e"])
    e = None
    if form.endswith("e"):
        e = rng.choice([0, 1, 2, 3, 5, 10, 20, 30]) * rng.choice([1, 1, -1])
    if form.startswith("d.d"):
        mant, val = _sep_digits(ip, rng, p, False) + "." + _sep_digits(fp, rng, p, False), Fraction(int(ip + fp), 10 ** len(fp))
    elif form.startswith(".d"):
        mant, val = "." + _sep_digits(fp, rng, p, False), Fraction(int(fp), 10 ** len(fp))
    elif form.startswith("d."):
        mant, val = _sep_digits(ip, rng, p, False) + ".", Fraction(int(ip))
    else:
        mant, val = _sep_digits(ip, rng, p, False), Fraction(int(ip))
    text = mant
    if e is not None:
        sign = "-" if e < 0 else rng.choice(["", "+"])
        text += rng.choice("eE") + sign + _sep_digits(str(abs(e)).rjust(rng.choice([1, 2]), "0"), rng, p, False)
        val = val * Fraction(10) ** e
    return ["real", text, [val.numerator, val.denominator]]


STR_ALPHABET = list("abcxyzABZ019 _-+*/#@!?.,;:()[]{}<>=|&^%~$") + ["é", "ß", "中", "Я", "\U0001f600", "\t"]
ESCAPES = {"n": 10, "r": 13, "t": 9, '"': 34, "'": 39, "\\": 92, "N": 10, "R": 13, "T": 9}


def lit_str(rng: random.Random, cps: typing.Optional[typing.List[int]] = None, bad: bool = False) -> list:
    q = rng.choice(["'", '"'])
    if cps is None:
        cps = []
        for _ in range(rng.choice([0, 1, 1, 2, 3, 5])):
            x = rng.random()
            if x < 0.7:
                cps.append(ord(rng.choice(STR_ALPHABET)))
            elif x < 0.85:
                cps.append(rng.choice([10, 13, 9, 34, 39, 92]))
            else:
                cps.append(rng.choice([0, 1, 0x7F, 0x80, 0xFF, 0x100, 0xFFFF, 0x10000, 0x10FFFF, 0x20AC]))
    text = q
    for c in cps:
        ch = chr(c)
        simple = [k for k, v in ESCAPES.items() if v == c]
        must_escape = ch in (q, "\\", "\r", "\n") or c < 0x20 and ch != "\t" or 0xD800 <= c <= 0xDFFF or c in (0x7F, 0x80, 0xFFFF)
        if simple and (must_escape or rng.random() < 0.5):
            text += "\\" + rng.choice(simple)
        elif must_escape or rng.random() < 0.15:
            if c <= 0xFFFF and rng.random() < 0.6:
                h = "%04x" % c
                text += "\\u" + "".join(x.upper() if rng.random() < 0.5 else x for x in h)
            else:
                h = "%08x" % c
                text += "\\U" + "".join(x.upper() if rng.random() < 0.5 else x for x in h)
        else:
            text += ch
    val: typing.Optional[list] = list(cps)
    if bad:
        text += rng.choice(["\\z", "\\u12", "\\U0000", "\\x41", "\\u12g4", "\\0"])
        val = None
    text += q
    return ["str", text, val]




# ------------------------------------------------------------------------------------------------ canonically equivalent spellings
#
# Texts whose NFC form differs from (some of) their spellings: base letters with combining marks of several combining
# classes, precomposed letters (one, two and three levels), Hangul jamo / syllables, singleton decompositions,
# composition exclusions, and compatibility characters (NFC-stable: they fold only under NFKC and must NOT compare equal
# to their expansions).  A text is spelled in a random canonically equivalent form (equivalence decided by unicodedata),
# cut at random places - preferably where a junction composes - and put together again with the `+` operator.

NFC_BASES = [ord(c) for c in "aeiouyAEOUcnsdhwz"] + [0x3B1, 0x3B9, 0x3C5, 0x3C9, 0x438, 0x435, 0x915, 0x928, 0x304B, 0x30CF, 0x627, 0x5E9, 0x9C7, 0xBC6, 0xCC6]
NFC_MARKS = [0x300, 0x301, 0x302, 0x303, 0x304, 0x306, 0x307, 0x308, 0x30A, 0x30C, 0x31B, 0x323, 0x327, 0x328, 0x32E, 0x342, 0x345, 0x313,
             0x93C, 0x3099, 0x309A, 0x653, 0x5BC, 0x5C1, 0x9BE, 0xBBE, 0xCC2, 0xCD5, 0x338, 0x334, 0x20D7, 0x1D165]
NFC_COMPOSED = [0xE9, 0xE8, 0xEA, 0xEB, 0xE5, 0xE7, 0xF1, 0xF4, 0xC5, 0x1ED1, 0x1EAD, 0x1D6, 0x1E69, 0x1FB, 0x1EA1, 0x1EE3, 0x3AC, 0x390, 0x1F82, 0x1FA7,
                0x439, 0x451, 0x929, 0x304C, 0x30D1, 0x622, 0x9CB, 0xBCA, 0xBCC, 0xCCB, 0xFB2C, 0x226E, 0x1E09]
NFC_SINGLETONS = [0x212B, 0x2126, 0x212A, 0x340, 0x341, 0x343, 0x374, 0x37E, 0x387, 0x1F71, 0x1FEF, 0x2000, 0x2001, 0x2329, 0xF900, 0xFA30, 0x2F800]
NFC_EXCLUDED = [0x958, 0x9DC, 0xA33, 0xF43, 0xFB1D, 0xFB2A, 0x2ADC, 0x1D15E, 0x1D1BB, 0x344, 0xF73, 0xF75, 0xF81]
NFC_COMPAT = [0xFB03, 0xB5, 0xFF21, 0x2460, 0xAA, 0x2122, 0x1D400, 0x2075, 0xBD, 0x132, 0x2103, 0x3392]
NFC_WORDS = ["caf", "x", " ", "0", "Zoe", "-", "a1", "ffi", "K", ";"]


def _hangul(rng: random.Random) -> typing.List[int]:
    l, v, t = rng.randrange(19), rng.randrange(21), rng.randrange(28)
    syl = 0xAC00 + (l * 21 + v) * 28
    x = rng.random()
    if x < 0.3:
        return [0x1100 + l, 0x1161 + v] + ([0x11A7 + t] if t else [])
    if x < 0.55:
        return [syl] + ([0x11A7 + t] if t else [])
    if x < 0.8:
        return [syl + t]
    # jamo that do not compose: T without LV, V after an LVT syllable, an old-style jamo outside the arithmetic ranges
    return rng.choice([[0x1100 + l, 0x11A7 + max(t, 1)], [syl + max(t, 1), 0x1161 + v], [0x1113, 0x1161 + v], [0x1100 + l, 0x1176], [syl, 0x11A7], [syl, 0x11C3]])


def nfc_text(rng: random.Random) -> typing.List[int]:
    """Code points of a short text made of pieces that are sensitive to normalisation."""
    out: typing.List[int] = []
    for _ in range(rng.choice([1, 1, 2, 2, 3, 4])):
        x = rng.random()
        if x < 0.4:
            out.append(rng.choice(NFC_BASES))
            out += [rng.choice(NFC_MARKS) for _ in range(rng.choice([1, 1, 1, 2, 2, 3]))]
        elif x < 0.55:
            out.append(rng.choice(NFC_COMPOSED))
            if rng.random() < 0.4:
                out.append(rng.choice(NFC_MARKS))
        elif x < 0.68:
            out += _hangul(rng)
        elif x < 0.74:
            out.append(rng.choice(NFC_SINGLETONS))
        elif x < 0.8:
            out.append(rng.choice(NFC_EXCLUDED))
            if rng.random() < 0.3:
                out.append(rng.choice(NFC_MARKS))
        elif x < 0.86:
            out.append(rng.choice(NFC_COMPAT))
        elif x < 0.97:
            out += [ord(c) for c in rng.choice(NFC_WORDS)]
        else:
            out += [rng.choice(NFC_MARKS) for _ in range(rng.choice([1, 2]))]      # a defective sequence: marks without a base
    return out[:12]


def _s(cps: typing.List[int]) -> str:
    return "".join(chr(c) for c in cps)


def _one_level(c: int) -> typing.List[int]:
    """The canonical decomposition mapping of one character, one level deep (Hangul: one arithmetic step)."""
    if 0xAC00 <= c < 0xAC00 + 11172:
        t = (c - 0xAC00) % 28
        return [c - t, 0x11A7 + t] if t else [ord(x) for x in unicodedata.normalize("NFD", chr(c))]
    d = unicodedata.decomposition(chr(c))
    if d and d[0] != "<":
        return [int(x, 16) for x in d.split()]
    return [c]


def respell(rng: random.Random, cps: typing.List[int]) -> typing.List[int]:
    """A random spelling that is canonically equivalent to `cps` (same NFC form)."""
    target = nfc(_s(cps))
    cand = list(cps) if rng.random() < 0.3 else [ord(c) for c in unicodedata.normalize(rng.choice(["NFC", "NFD", "NFD"]), _s(cps))]
    for _ in range(rng.choice([0, 1, 2, 3, 5])):
        if not cand:
            break
        x = rng.random()
        i = rng.randrange(len(cand))
        if x < 0.35:
            j = min(len(cand), i + rng.choice([2, 2, 3, 4]))
            new = cand[:i] + [ord(c) for c in nfc(_s(cand[i:j]))] + cand[j:]
        elif x < 0.7:
            new = cand[:i] + _one_level(cand[i]) + cand[i + 1:]
        elif i + 1 < len(cand):
            new = cand[:i] + [cand[i + 1], cand[i]] + cand[i + 2:]
        else:
            continue
        if nfc(_s(new)) == target and len(new) <= 16:
            cand = new
    return cand


def near_miss(rng: random.Random, cps: typing.List[int]) -> typing.List[int]:
    """A text that looks like `cps` but is NOT canonically equivalent to it."""
    target = nfc(_s(cps))
    for _ in range(8):
        cand = respell(rng, cps)
        if not cand:
            break
        i = rng.randrange(len(cand))
        x = rng.random()
        if x < 0.2 and i + 1 < len(cand):
            new = cand[:i] + [cand[i + 1], cand[i]] + cand[i + 2:]                 # marks of one class do not commute
        elif x < 0.4:
            new = cand[:i] + cand[i + 1:]
        elif x < 0.55:
            new = cand[:i] + [ord(c) for c in unicodedata.normalize("NFKD", chr(cand[i]))] + cand[i + 1:]   # compatibility expansion
        elif x < 0.7:
            new = cand[:i + 1] + [rng.choice(NFC_MARKS)] + cand[i + 1:]
        elif x < 0.85:
            new = cand[:i] + [rng.choice(NFC_MARKS + NFC_BASES)] + cand[i + 1:]
        else:
            new = cand[:i] + [ord(c) for c in chr(cand[i]).swapcase()] + cand[i + 1:]
        if nfc(_s(new)) != target:
            return new[:16]
    return list(cps) + [0x78]


def junctions(cps: typing.List[int]) -> typing.List[int]:
    """Cut positions at which the two parts interact under normalisation (NFC(a) NFC(b) is not NFC(a b))."""
    whole = nfc(_s(cps))
    return [i for i in range(1, len(cps)) if nfc(_s(cps[:i])) + nfc(_s(cps[i:])) != whole]


def spelled(rng: random.Random, cps: typing.List[int], pieces: typing.Optional[int] = None) -> list:
    """The text as an expression: string literals joined by `+`, cut preferably where a junction composes."""
    n = pieces if pieces is not None else rng.choice([1, 1, 2, 2, 2, 3, 4])
    cuts: typing.Set[int] = set()
    hot = junctions(cps)
    while len(cuts) < n - 1 and len(cuts) < len(cps) + 1:
        if hot and rng.random() < 0.7:
            cuts.add(rng.choice(hot))
        else:
            cuts.add(rng.randint(0, len(cps)))               # 0 and len: an empty piece
        if len(cps) == 0:
            break
    bounds = [0] + sorted(cuts) + [len(cps)]
    leaves = [lit_str(rng, list(cps[a:b])) for a, b in zip(bounds, bounds[1:])]
    while len(leaves) > 1:                                   # a random shape of the `+` tree
        i = rng.randrange(len(leaves) - 1)
        leaves[i:i + 2] = [["bin", "add", leaves[i], leaves[i + 1]]]
    return leaves[0]


def gen_nfc_tree(rng: random.Random) -> typing.Tuple[list, str, str]:
    """(tree, family, what is expected to be observed) of the string-equality families."""
    a = nfc_text(rng)
    x = rng.random()
    if x < 0.5:
        same = rng.random() < 0.6
        b = respell(rng, a) if same else near_miss(rng, a)
        l, r = spelled(rng, respell(rng, a)), spelled(rng, b)
        if rng.random() < 0.5:
            l, r = r, l
        return ["bin", rng.choice(["eq", "ne"]), l, r], "cmp", "equal" if same else "unequal"
    if x < 0.6:
        return spelled(rng, respell(rng, a), rng.choice([2, 3, 4])), "value", "string"
    # sets of strings: the same texts cut differently or spelled differently (one element: identity is by NFC form), and near misses
    texts = [respell(rng, a)] + [respell(rng, nfc_text(rng)) if rng.random() < 0.7 else near_miss(rng, a) for _ in range(rng.choice([0, 1, 1, 2]))]

    def again(t):
        return respell(rng, t) if rng.random() < 0.5 else t

    s1 = ["set", [spelled(rng, t) for t in texts]]
    others = [again(t) for t in texts if rng.random() < 0.85] or [again(texts[0])]
    if rng.random() < 0.3:
        others.append(near_miss(rng, rng.choice(texts)))
    rng.shuffle(others)
    s2 = ["set", [spelled(rng, t) for t in others]]
    y = rng.random()
    if y < 0.45:
        return ["bin", rng.choice(CMP), s1, s2], "set-cmp", "boolean"
    if y < 0.6:
        return ["attr", ["bin", rng.choice(BIT), s1, s2], "count"], "set-count", "number"
    if y < 0.7:
        return ["attr", ["set", s1[1] + s2[1]], "count"], "set-count", "number"
    if y < 0.8:
        return ["bin", rng.choice(BIT), s1, s2], "set-algebra", "set"
    # element-wise concatenation: a mark (or anything else) appended or prepended to every element
    tail = [rng.choice(NFC_MARKS)] if rng.random() < 0.6 else nfc_text(rng)[:3]
    ew = ["bin", "add", s1, spelled(rng, tail, 1)] if rng.random() < 0.6 else ["bin", "add", spelled(rng, tail, 1), s1]
    if rng.random() < 0.5:
        return ew, "set-elementwise", "set"
    want = [t + tail if ew[2] is s1 else tail + t for t in texts]
    return ["bin", rng.choice(["eq", "ne", "le", "ge"]), ew, ["set", [spelled(rng, again(t)) for t in want]]], "set-elementwise", "boolean"

# ------------------------------------------------------------------------------------------------ Unicode normalisation
#
# The Specification compares strings by their NFC forms.  The reference of the oracle is Python's `unicodedata` (the
# Unicode Character Database of the interpreter).  The Lean model has its own implementation of the normalisation
# algorithm (UAX #15) and receives, per case, the character data it needs as plain tables (`ucd_extract`).


def nfc(s: str) -> str:
    return unicodedata.normalize("NFC", s)


_PRIMARY: typing.Optional[typing.Dict[int, typing.List[typing.Tuple[int, int]]]] = None
HANGUL_S = range(0xAC00, 0xAC00 + 11172)


def primary_composites() -> typing.Dict[int, typing.List[typing.Tuple[int, int]]]:
    """first -> [(second, composite)]: canonical two-character decompositions whose composite is not excluded from
    composition (a composite is excluded exactly when it is not its own NFC form).  Hangul is arithmetical: not listed."""
    global _PRIMARY
    if _PRIMARY is None:
        table: typing.Dict[int, typing.List[typing.Tuple[int, int]]] = {}
        for cp in range(0xA0, 0x30000):            # nothing outside has a decomposition mapping
            ch = chr(cp)
            d = unicodedata.decomposition(ch)
            if d and d[0] != "<":
                parts = d.split()
                if len(parts) == 2 and nfc(ch) == ch:
                    table.setdefault(int(parts[0], 16), []).append((int(parts[1], 16), cp))
        _PRIMARY = table
    return _PRIMARY


def ucd_extract(cps: typing.Iterable[int]) -> typing.Optional[dict]:
    """The character data the NFC algorithm can touch while normalising any text over `cps`: the closure of the code
    points under canonical decomposition and pairwise composition, with the combining class (where not 0), the full
    canonical decomposition (where there is one; Hangul syllables left out) and the primary composites.  None: all ASCII."""
    start = {c for c in cps if c >= 0x80}
    if not start:
        return None
    closure = set(cps)
    for c in list(closure):
        closure.update(ord(x) for x in unicodedata.normalize("NFD", chr(c)))
    prim = primary_composites()
    comp = set()
    grew = True
    while grew:
        grew = False
        for a in list(closure):
            for b, c in prim.get(a, ()):
                if b in closure and (a, b, c) not in comp:
                    comp.add((a, b, c))
                    if c not in closure:
                        closure.add(c)
                        grew = True
    ccc = sorted([c, unicodedata.combining(chr(c))] for c in closure if unicodedata.combining(chr(c)))
    dec = []
    for c in sorted(closure):
        if c in HANGUL_S:
            continue
        d = unicodedata.normalize("NFD", chr(c))
        if d != chr(c):
            dec.append([c, [ord(x) for x in d]])
    return {"ccc": ccc, "dec": dec, "comp": sorted(list(x) for x in comp)}


def tree_code_points(t) -> typing.Set[int]:
    """Every code point a string literal of the tree can contribute (intended value and raw characters of its text)."""
    out: typing.Set[int] = set()
    stack = [t]
    while stack:
        x = stack.pop()
        if x[0] == "str":
            out.update(x[2] or [])
            out.update(ord(c) for c in x[1])
        elif x[0] == "set":
            stack.extend(x[1])
        elif x[0] == "un":
            stack.append(x[2])
        elif x[0] == "bin":
            stack.extend([x[2], x[3]])
        elif x[0] == "attr":
            stack.append(x[1])
    return out


def case_ucd(case) -> typing.Optional[dict]:
    cps = tree_code_points(case["tree"])
    for _name, _ty, t, _text in case.get("env", []):
        cps |= tree_code_points(t)
    return ucd_extract(cps)

# ------------------------------------------------------------------------------------------------ oracle


class Invalid(Exception):
    pass


class Skip(Exception):
    """Outside the bounds of the property (non-integral exponent, oversized value, hash-order dependent minimum)."""


BIG_BITS = 12000


class OStr:
    """A string value of the oracle.  A string is identified by its NFC form (`key`) wherever identity matters: `==`,
    `!=`, membership in a set.  `raw` is one spelling of it; `amb` records that the value went through a set in which two
    different spellings met, so that which of them a `.min` / `.max` hands back is not determined (the Specification
    cannot tell them apart; only the ASCII test of a constant initialiser looks at the spelling)."""
    __slots__ = ("raw", "key", "amb")

    def __init__(self, raw: str, amb: bool = False):
        self.raw = raw
        self.key = nfc(raw)
        self.amb = amb

    def __eq__(self, other):
        return isinstance(other, OStr) and self.key == other.key

    def __hash__(self):
        return hash(self.key)

    def __repr__(self):
        return "OStr(%r)" % self.raw


def kind_of(v) -> str:
    if isinstance(v, bool):
        return "bool"
    if isinstance(v, Fraction):
        return "rat"
    if isinstance(v, (str, OStr)):
        return "str"
    if isinstance(v, frozenset):
        return "set"
    raise TypeError(type(v))


def elem_kind(s: frozenset) -> str:
    return kind_of(next(iter(s)))


def mk_set(elems) -> frozenset:
    elems = list(elems)
    if not elems:
        raise Invalid("empty set")
    if len({kind_of(e) for e in elems}) != 1:
        raise Invalid("heterogeneous set")
    if isinstance(elems[0], OStr):
        groups: typing.Dict[str, typing.List[OStr]] = {}
        for e in elems:
            groups.setdefault(e.key, []).append(e)
        return frozenset(OStr(g[0].raw, any(x.amb for x in g) or len({x.raw for x in g}) > 1) for g in groups.values())
    return frozenset(elems)


def _bits(q: Fraction) -> int:
    return q.numerator.bit_length() + q.denominator.bit_length()


def prim_bin(op: str, a, b):
    ka, kb = kind_of(a), kind_of(b)
    if ka == kb == "rat":
        if op == "add":
            return a + b
        if op == "sub":
            return a - b
        if op == "mul":
            return a * b
        if op == "div":
            if b == 0:
                raise Invalid("division by zero")
            return a / b
        if op == "mod":
            if b == 0:
                raise Invalid("modulo by zero")
            return a - b * math.floor(a / b)
        if op == "pow":
            if b.denominator != 1:
                raise Skip("non-integral exponent")
            n = b.numerator
            if abs(n) > 4096 or _bits(a) * abs(n) > BIG_BITS:
                raise Skip("oversized power")
            if n >= 0:
                return Fraction(a.numerator ** n, a.denominator ** n)
            if a == 0:
                raise Invalid("zero to a negative power")
            return Fraction(a.denominator ** -n, a.numerator ** -n)
        if op == "eq":
            return a == b
        if op == "ne":
            return a != b
        if op == "le":
            return a <= b
        if op == "ge":
            return a >= b
        if op == "lt":
            return a < b
        if op == "gt":
            return a > b
        if op in BIT:
            if a.denominator != 1 or b.denominator != 1:
                raise Invalid("bitwise operator on a non-integer")
            x, y = a.numerator, b.numerator
            return Fraction(x | y if op == "bor" else x ^ y if op == "bxor" else x & y)
        raise Invalid("undefined for rationals: " + op)
    if ka == kb == "bool":
        if op == "lor":
            return a or b
        if op == "land":
            return a and b
        if op == "eq":
            return a == b
        if op == "ne":
            return a != b
        raise Invalid("undefined for booleans: " + op)
    if ka == kb == "str":
        if op == "add":
            return OStr(a.raw + b.raw, a.amb or b.amb)   # the code points are concatenated; nothing else happens to them
        if op == "eq":
            return nfc(a.raw) == nfc(b.raw)          # the Specification: strings compare by their NFC forms
        if op == "ne":
            return nfc(a.raw) != nfc(b.raw)
        raise Invalid("undefined for strings: " + op)
    raise Invalid("operand kinds %s, %s" % (ka, kb))


def o_bin(op: str, a, b):
    ka, kb = kind_of(a), kind_of(b)
    if ka != "set" and kb != "set":
        return prim_bin(op, a, b)
    if ka == "set" and kb == "set":
        if op not in CMP and op not in BIT:
            raise Invalid("set x set: " + op)
        if elem_kind(a) != elem_kind(b):
            raise Invalid("sets of different element kinds")
        if op == "eq":
            return a == b
        if op == "ne":
            return a != b
        if op == "le":
            return a <= b
        if op == "ge":
            return a >= b
        if op == "lt":
            return a < b
        if op == "gt":
            return a > b
        la, lb = list(a), list(b)           # as lists: mk_set sees every spelling that meets in the result
        if op == "bor":
            return mk_set(la + lb)
        if op == "bxor":
            return mk_set([x for x in la if x not in b] + [x for x in lb if x not in a])
        return mk_set([x for x in la if x in b] + [x for x in lb if x in a])
    if op not in ARITH:
        raise Invalid("set x scalar: " + op)
    if ka == "set":
        return mk_set(_each(lambda x: o_bin(op, x, b), a))
    return mk_set(_each(lambda x: o_bin(op, a, x), b))


def _each(f, s):
    """Element-wise; the element order of the library is unspecified, so an Invalid wins over a Skip only if every order agrees."""
    out, inv, skip = [], None, None
    for x in sorted(s, key=lambda v: json.dumps(canon(v))):
        try:
            out.append(f(x))
        except Invalid as ex:
            inv = ex
        except Skip as ex:
            skip = ex
    if skip is not None:
        raise skip
    if inv is not None:
        raise inv
    return out


def o_un(op: str, a):
    k = kind_of(a)
    if op == "not":
        if k != "bool":
            raise Invalid("! on " + k)
        return not a
    if k != "rat":
        raise Invalid("unary sign on " + k)
    return a if op == "pos" else -a


def o_attr(a, name: str):
    if kind_of(a) != "set":
        raise Invalid("attribute of a " + kind_of(a))
    if name == "count":
        return Fraction(len(a))
    if name in ("min", "max"):
        if len(a) == 1:
            return next(iter(a))
        ek = elem_kind(a)
        if ek == "rat":
            return min(a) if name == "min" else max(a)
        if ek == "set":
            if len({elem_kind(x) for x in a}) != 1:
                raise Invalid("incomparable sets")
            raise Skip("minimum of a set of sets depends on the iteration order")
        raise Invalid("no order on " + ek)
    raise Invalid("unknown attribute " + name)


def o_eval(t, env: dict):
    k = t[0]
    if k == "int":
        return Fraction(t[2])
    if k == "real":
        return Fraction(t[2][0], t[2][1])
    if k == "str":
        if t[2] is None:
            raise Invalid("malformed string literal")
        return OStr("".join(chr(c) for c in t[2]))
    if k == "bool":
        return bool(t[1])
    if k == "id":
        if t[1] not in env:
            raise Invalid("undefined identifier")
        return env[t[1]]
    if k == "set":
        return mk_set([o_eval(e, env) for e in t[1]])
    if k == "un":
        return o_un(t[1], o_eval(t[2], env))
    if k == "bin":
        a = o_eval(t[2], env)
        b = o_eval(t[3], env)
        return o_bin(t[1], a, b)
    if k == "attr":
        return o_attr(o_eval(t[1], env), t[2])
    raise ValueError(k)


def canon(v):
    """Canonical JSON form of a value; a string is represented by the code points of its NFC form."""
    k = kind_of(v)
    if k == "rat":
        return ["r", v.numerator, v.denominator]
    if k == "bool":
        return ["b", v]
    if k == "str":
        return ["s", [ord(c) for c in nfc(v.raw if isinstance(v, OStr) else v)]]
    return canon_json(["set", [canon(x) for x in v]])


def canon_raw(v):
    """Canonical JSON form of a value observed from the library: strings exactly as delivered."""
    k = kind_of(v)
    if k == "str":
        return ["s", [ord(c) for c in v]]
    if k == "set":
        return canon_json(["set", [canon_raw(x) for x in v]])
    return canon(v)


def canon_json(j):
    """Canonical form of a value in JSON form (sets sorted, duplicates removed)."""
    if isinstance(j, list) and j and j[0] == "set":
        seen = []
        for x in sorted((canon_json(e) for e in j[1]), key=json.dumps):
            if x not in seen:
                seen.append(x)
        return ["set", seen]
    return j


def norm_json(j):
    """A value in JSON form with every string in NFC form: the granularity at which string values are compared."""
    if isinstance(j, list) and j:
        if j[0] == "s":
            return ["s", [ord(c) for c in nfc("".join(chr(c) for c in j[1]))]]
        if j[0] == "set":
            return canon_json(["set", [norm_json(e) for e in j[1]]])
    return j


# ---- types and the contexts that observe a value


def ty_wf(ty) -> bool:
    k = ty[0]
    if k == "bool" or k == "other":
        return True
    n, m = ty[1], ty[2]
    if k == "uint":
        return 1 <= n <= 64
    if k == "int":
        return 2 <= n <= 64 and m == "sat"
    if k == "float":
        return n in (16, 32, 64)
    raise ValueError(k)


FLOAT_MAX = {
    16: Fraction(65504),
    32: Fraction((2 ** 24 - 1) * 2 ** 104),
    64: Fraction((2 ** 53 - 1) * 2 ** 971),
}


def o_const(ty, v):
    """The declarative rule of C12: the stored value, or Invalid."""
    if not ty_wf(ty):
        raise Invalid("type parameters")
    k, vk = ty[0], kind_of(v)
    if k == "bool":
        if vk == "bool":
            return v
        raise Invalid("bool constant needs a boolean")
    if k in ("uint", "int"):
        n = ty[1]
        lo, hi = (0, 2 ** n - 1) if k == "uint" else (-(2 ** (n - 1)), 2 ** (n - 1) - 1)
        if vk == "rat":
            if v.denominator == 1 and lo <= v.numerator <= hi:
                return v
            raise Invalid("integer constant out of range or not integral")
        if vk == "str":
            raw = v.raw
            if any(0xD800 <= ord(c) <= 0xDFFF for c in raw):
                raise Skip("lone surrogate in a constant string (no UTF-8 encoding exists)")
            one_ascii = [len(x) == 1 and ord(x) < 128 for x in (raw, nfc(raw))]
            if one_ascii[0] != one_ascii[1] or (v.amb and one_ascii[1]):
                raise Skip("one ASCII character in only one of two canonically equivalent spellings (U+212A KELVIN SIGN = 'K')")
            if k == "uint" and n == 8 and one_ascii[0]:
                return Fraction(ord(raw))
            raise Invalid("string constant")
        raise Invalid("integer constant from " + vk)
    if k == "float":
        if vk == "rat" and -FLOAT_MAX[ty[1]] <= v <= FLOAT_MAX[ty[1]]:
            return v
        raise Invalid("float constant")
    raise Invalid("type cannot carry a constant")


PRINT_LIMIT = 10 ** 4300


def o_observe(ctx, v):
    c = ctx[0]
    if c == "print":
        def huge(x):
            return kind_of(x) == "rat" and (abs(x.numerator) >= PRINT_LIMIT or x.denominator >= PRINT_LIMIT)
        if huge(v) or kind_of(v) == "set" and any(huge(x) for x in v):
            raise Skip("beyond CPython's integer-to-string limit")
        return v
    if c == "assert":
        if kind_of(v) != "bool":
            raise Invalid("assert needs a boolean")
        return v
    if c == "const":
        return o_const(ctx[1], v)
    if c == "cap":
        if kind_of(v) != "rat" or v.denominator != 1:
            raise Invalid("capacity")
        n = v.numerator - (1 if ctx[1] == 2 else 0)
        if n < 1:
            raise Invalid("capacity below one")
        if ctx[1] != 0 and n >= 2 ** 64:
            raise Invalid("variable-length array whose length prefix would exceed 64 bits")
        return Fraction(n)
    if c == "extent":
        if kind_of(v) != "rat" or v.denominator != 1 or v < 0 or v.numerator % 8:
            raise Invalid("extent")
        return v
    raise ValueError(c)


def o_case(case) -> typing.Tuple[str, typing.Any]:
    """('v', canonical value) | ('invalid', why) | ('skip', why)"""
    try:
        env: dict = {}
        for name, ty, t, _text in case.get("env", []):
            if not ty_wf(ty):
                raise Invalid("type parameters")
            env[name] = o_const(ty, o_eval(t, env))
        ctx = case["ctx"]
        if ctx[0] == "const" and not ty_wf(ctx[1]):
            raise Invalid("type parameters")
        return "v", canon(o_observe(ctx, o_eval(case["tree"], env)))
    except Invalid as ex:
        return "invalid", str(ex)
    except Skip as ex:
        return "skip", str(ex)


# ------------------------------------------------------------------------------------------------ generator

ENV_POOL = [
    ("KA", ["int", 64, "sat", "int64"], lambda rng: lit_int(rng.choice([0, 1, 2, 3, 7, 8, 255]), rng)),
    ("KB", ["uint", 8, "sat", "saturated uint8"], lambda rng: lit_str(rng, [rng.choice([48, 65, 97, 126])])),
    ("KH", ["float", 64, "sat", "float64"], lambda rng: lit_real(rng)),
    ("KT", ["bool"], lambda rng: ["bool", rng.random() < 0.5]),
    ("KN", ["int", 16, "sat", "saturated int16"], lambda rng: ["un", "neg", lit_int(rng.choice([1, 2, 5, 100, 32768]), rng)]),
]
ENV_KIND = {"KA": "int", "KB": "int", "KH": "rat", "KT": "bool", "KN": "int"}


class Gen:
    def __init__(self, rng: random.Random, env_names: typing.List[str], ill: float):
        self.rng = rng
        self.env = env_names
        self.ill = ill
        self.nfc_texts: typing.List[typing.List[int]] = []

    def any(self, d):
        return self.of(self.rng.choice(["rat", "rat", "int", "bool", "str", "setrat", "setstr", "setbool"]), d)

    def of(self, kind, d):
        if self.rng.random() < self.ill:
            return self.any(d - 1)
        return getattr(self, kind)(d)

    def ident(self, want):
        names = [n for n in self.env if ENV_KIND[n] == want or want == "rat" and ENV_KIND[n] == "int"]
        if names and self.rng.random() < 0.8:
            return ["id", self.rng.choice(names)]
        return None

    def small_int(self):
        r = self.rng
        x = r.random()
        if x < 0.6:
            return r.randint(0, 12)
        if x < 0.85:
            return r.choice([15, 16, 31, 32, 63, 64, 100, 127, 128, 255, 256, 1000, 65535, 65536])
        return r.choice([2 ** 31 - 1, 2 ** 31, 2 ** 32, 2 ** 53 + 1, 2 ** 63, 2 ** 64 - 1, 2 ** 64, 10 ** 20 + 7, 3 ** 70])

    def int(self, d):
        r = self.rng
        if d <= 0 or r.random() < 0.25:
            if r.random() < 0.15:
                i = self.ident("int")
                if i:
                    return i
            return lit_int(self.small_int(), r)
        x = r.random()
        if x < 0.12:
            return ["un", r.choice(["neg", "neg", "pos"]), self.of("int", d - 1)]
        if x < 0.5:
            return ["bin", r.choice(["add", "sub", "mul"]), self.of("int", d - 1), self.of("int", d - 1)]
        if x < 0.62:
            return ["bin", "mod", self.of("int", d - 1), self.of("int", d - 1)]
        if x < 0.8:
            return ["bin", r.choice(BIT), self.of("int", d - 1), self.of("int", d - 1)]
        if x < 0.9:
            return ["bin", "pow", self.of("int", d - 1), lit_int(r.randint(0, 5), r)]
        return ["attr", self.of(r.choice(["setrat", "setstr", "setbool"]), d - 1), "count"]

    def exponent(self, d):
        r = self.rng
        x = r.random()
        n = r.randint(0, 6)
        if x < 0.45:
            return lit_int(n, r)
        if x < 0.8:
            return ["un", "neg", lit_int(n, r)]
        if x < 0.9:
            return ["bin", r.choice(["sub", "add"]), lit_int(r.randint(0, 4), r), lit_int(r.randint(0, 4), r)]
        return ["bin", "pow", lit_int(r.randint(0, 2), r), self.exponent(d - 1)] if d > 0 else lit_int(n, r)

    def rat(self, d):
        r = self.rng
        if d <= 0 or r.random() < 0.2:
            x = r.random()
            if x < 0.1:
                i = self.ident("rat")
                if i:
                    return i
            return lit_real(r) if x < 0.55 else lit_int(self.small_int(), r)
        x = r.random()
        if x < 0.12:
            return ["un", r.choice(["neg", "neg", "pos"]), self.of("rat", d - 1)]
        if x < 0.55:
            return ["bin", r.choice(["add", "sub", "mul", "div", "div"]), self.of("rat", d - 1), self.of("rat", d - 1)]
        if x < 0.65:
            return ["bin", "mod", self.of("rat", d - 1), self.of("rat", d - 1)]
        if x < 0.82:
            return ["bin", "pow", self.of("rat", d - 1), self.exponent(d - 1)]
        if x < 0.9:
            return ["attr", self.of("setrat", d - 1), r.choice(["min", "max"])]
        return self.int(d)

    def bool(self, d):
        r = self.rng
        if d <= 0 or r.random() < 0.15:
            i = self.ident("bool") if r.random() < 0.2 else None
            return i or ["bool", r.random() < 0.5]
        x = r.random()
        if x < 0.15:
            return ["un", "not", self.of("bool", d - 1)]
        if x < 0.4:
            return ["bin", r.choice(["lor", "land"]), self.of("bool", d - 1), self.of("bool", d - 1)]
        if x < 0.7:
            k = r.choice(["rat", "rat", "int"])
            return ["bin", r.choice(CMP), self.of(k, d - 1), self.of(k, d - 1)]
        if x < 0.8:
            k = r.choice(["bool", "str"])
            return ["bin", r.choice(["eq", "ne"]), self.of(k, d - 1), self.of(k, d - 1)]
        k = r.choice(["setrat", "setrat", "setstr", "setbool"])
        return ["bin", r.choice(CMP), self.of(k, d - 1), self.of(k, d - 1)]

    def str(self, d):
        r = self.rng
        if r.random() < 0.12:            # a text that is sensitive to normalisation, in some spelling, possibly cut into pieces
            if self.nfc_texts and r.random() < 0.6:
                t = r.choice(self.nfc_texts)     # a text used before in this tree: comparisons and sets meet it again
            else:
                t = nfc_text(r)
                self.nfc_texts.append(t)
            return spelled(r, respell(r, t), None if d > 0 else 1)
        if d <= 0 or r.random() < 0.5:
            return lit_str(r, bad=r.random() < 0.01)
        return ["bin", "add", self.of("str", d - 1), self.of("str", d - 1)]

    def _setlit(self, kind, d):
        r = self.rng
        n = r.choice([1, 1, 2, 2, 3, 4]) if r.random() > 0.015 else 0
        return ["set", [self.of(kind, d - 1) for _ in range(n)]]

    def setrat(self, d):
        r = self.rng
        if d <= 0 or r.random() < 0.4:
            return self._setlit(r.choice(["int", "int", "rat"]), d)
        x = r.random()
        if x < 0.35:
            return ["bin", r.choice(BIT + ("bor", "bor")), self.of("setrat", d - 1), self.of("setrat", d - 1)]
        op = r.choice(ARITH)
        scalar = self.exponent(d - 1) if op == "pow" else self.of(r.choice(["int", "rat"]), d - 1)
        if r.random() < 0.5 or op == "pow":
            return ["bin", op, self.of("setrat", d - 1), scalar]
        return ["bin", op, scalar, self.of("setrat", d - 1)]

    def setstr(self, d):
        r = self.rng
        if d <= 0 or r.random() < 0.5:
            return self._setlit("str", d)
        x = r.random()
        if x < 0.5:
            return ["bin", r.choice(BIT + ("bor", "bor")), self.of("setstr", d - 1), self.of("setstr", d - 1)]
        if x < 0.75:
            return ["bin", "add", self.of("setstr", d - 1), self.of("str", d - 1)]
        return ["bin", "add", self.of("str", d - 1), self.of("setstr", d - 1)]

    def setbool(self, d):
        r = self.rng
        if d <= 0 or r.random() < 0.6:
            return self._setlit("bool", d)
        return ["bin", r.choice(BIT), self.of("setbool", d - 1), self.of("setbool", d - 1)]


TRAPS = [
    # -2**2, 2**-1, !a == b, || and && on one level, ** right-associative, chains of one level
    lambda r: ["un", "neg", ["bin", "pow", lit_int(2, r), lit_int(2, r)]],
    lambda r: ["bin", "pow", ["un", "neg", lit_int(2, r)], lit_int(2, r)],
    lambda r: ["bin", "pow", lit_int(2, r), ["un", "neg", lit_int(1, r)]],
    lambda r: ["bin", "pow", lit_int(2, r), ["bin", "pow", lit_int(3, r), lit_int(2, r)]],
    lambda r: ["bin", "pow", ["bin", "pow", lit_int(2, r), lit_int(3, r)], lit_int(2, r)],
    lambda r: ["un", "not", ["bin", "eq", ["bool", True], ["bool", False]]],
    lambda r: ["bin", "eq", ["un", "not", ["bool", True]], ["bool", False]],
    lambda r: ["bin", "land", ["bin", "lor", ["bool", True], ["bool", False]], ["bool", False]],
    lambda r: ["bin", "lor", ["bool", True], ["bin", "land", ["bool", False], ["bool", False]]],
    lambda r: ["bin", "sub", lit_int(10, r), ["bin", "sub", lit_int(4, r), lit_int(3, r)]],
    lambda r: ["bin", "div", lit_int(64, r), ["bin", "div", lit_int(8, r), lit_int(2, r)]],
    lambda r: ["bin", "div", ["bin", "div", lit_int(64, r), lit_int(8, r)], lit_int(2, r)],
    lambda r: ["bin", "mod", ["un", "neg", lit_int(7, r)], lit_int(3, r)],
    lambda r: ["bin", "mod", lit_int(7, r), ["un", "neg", lit_int(3, r)]],
    lambda r: ["bin", "bor", lit_int(1, r), ["bin", "band", lit_int(2, r), lit_int(6, r)]],
    lambda r: ["bin", "band", ["bin", "bor", lit_int(1, r), lit_int(2, r)], lit_int(6, r)],
    lambda r: ["bin", "lt", lit_int(1, r), ["bin", "bor", lit_int(2, r), lit_int(4, r)]],
    lambda r: ["bin", "le", ["bin", "add", lit_int(1, r), lit_int(2, r)], ["bin", "mul", lit_int(1, r), lit_int(3, r)]],
    lambda r: ["bin", "lt", ["set", [lit_int(1, r)]], ["set", [lit_int(1, r), lit_int(2, r)]]],
    lambda r: ["bin", "lt", ["set", [lit_int(1, r), lit_int(2, r)]], ["set", [lit_int(2, r), lit_int(1, r)]]],
    lambda r: ["bin", "le", ["set", [lit_int(1, r), lit_int(2, r)]], ["set", [lit_int(2, r), lit_int(1, r)]]],
    lambda r: ["bin", "sub", lit_int(10, r), ["set", [lit_int(1, r), lit_int(2, r)]]],
    lambda r: ["bin", "div", ["set", [lit_int(1, r), lit_int(2, r)]], lit_int(4, r)],
    lambda r: ["bin", "pow", lit_int(2, r), ["set", [lit_int(1, r), ["un", "neg", lit_int(2, r)]]]],
    lambda r: ["bin", "band", ["set", [lit_int(1, r)]], ["set", [lit_int(2, r)]]],
    lambda r: ["bin", "bor", lit_real(r), lit_int(1, r)],
    lambda r: ["attr", ["attr", ["set", [lit_int(3, r), lit_int(1, r)]], "max"], "min"],
    lambda r: ["un", "neg", ["attr", ["set", [lit_int(3, r), lit_int(1, r)]], "max"]],
    lambda r: ["un", "neg", ["un", "neg", lit_int(3, r)]],
    lambda r: ["bin", "sub", lit_int(3, r), ["un", "neg", lit_int(3, r)]],
    lambda r: ["bin", "mul", ["un", "neg", lit_int(3, r)], ["un", "neg", lit_int(3, r)]],
    lambda r: ["bin", "lor", ["un", "not", ["bool", False]], ["bool", False]],
    lambda r: ["un", "not", ["un", "not", ["bool", False]]],
]


def gen_ty(rng: random.Random, want: str) -> list:
    if want == "bool":
        return ["bool"]
    x = rng.random()
    if want == "int":
        if x < 0.4:
            n = rng.choice([8, 16, 32, 64, 64])
        else:
            n = rng.randint(1, 64)
        if rng.random() < 0.5:
            m = rng.choice(["sat", "sat", "trunc"])
            return ["uint", n, m, ("truncated " if m == "trunc" else rng.choice(["", "saturated "])) + "uint%d" % n]
        return ["int", max(2, n), "sat", rng.choice(["", "saturated "]) + "int%d" % max(2, n)]
    n = rng.choice([16, 32, 64])
    m = rng.choice(["sat", "sat", "trunc"])
    return ["float", n, m, ("truncated " if m == "trunc" else rng.choice(["", "saturated "])) + "float%d" % n]


def _general_case(rng: random.Random, g: "Gen", names: typing.List[str], env_items: list, depth: int) -> dict:
    x = rng.random()
    if x < 0.08:
        tree = rng.choice(TRAPS)(rng)
        if rng.random() < 0.5:
            tree = ["bin", rng.choice(["add", "mul", "eq", "sub"]), tree, g.any(1)]
    elif x < 0.12:
        tree = ["id", rng.choice(["KZ", "K_", "ka"] + names)]
    else:
        tree = g.any(depth)
    if rng.random() < 0.05:
        tree = ["attr", tree, rng.choice(["size", "length", "Min", "count", "_bit_length_"])]
    y = rng.random()
    wild = rng.random() < 0.1          # a tree of an arbitrary kind in a context that expects a particular one
    case: dict = {"tree": tree, "env": env_items}
    if y < 0.55:
        case["ctx"] = ["print"]
    elif y < 0.7:
        case["ctx"] = ["assert"]
        if not wild:
            case["tree"] = tree = g.of("bool", depth)
    elif y < 0.85:
        want = rng.choice(["bool", "int", "int", "float"])
        if not wild:
            case["tree"] = tree = g.of({"bool": "bool", "int": "int", "float": "rat"}[want], depth)
        ty = gen_ty(rng, want)
        if want == "int" and rng.random() < 0.7:
            st, v = o_case({"tree": tree, "env": env_items, "ctx": ["print"]})
            if st == "v" and v[0] == "r" and v[2] == 1:
                n = min(64, max(2, abs(v[1]).bit_length() + rng.choice([-1, 0, 0, 1, 1, 2])))
                ty = ["uint", n, "sat", "uint%d" % n] if v[1] >= 0 and rng.random() < 0.6 else ["int", n, "sat", "int%d" % n]
        case["ctx"] = ["const", ty]
    elif y < 0.95:
        case["ctx"] = ["cap", rng.choice([0, 1, 2])]
        if not wild:
            case["tree"] = tree = g.of("int", min(depth, 3))
    else:
        case["ctx"] = ["extent"]
        if not wild:
            case["tree"] = tree = ["bin", "mul", g.of("int", min(depth, 3)), lit_int(8, rng)]
    return case


NFC_SHARE = 0.12      # share of the cases that belong to the string-equality families


def _nfc_case(rng: random.Random, g: "Gen", env_items: list) -> dict:
    tree, fam, want = gen_nfc_tree(rng)
    if want in ("equal", "unequal", "boolean"):
        x = rng.random()
        if x < 0.12:
            tree = ["un", "not", tree]
        elif x < 0.3:                    # the comparison as an operand of further operators
            other = g.of("bool", 1)
            tree = ["bin", rng.choice(["lor", "land", "eq", "ne"]), tree, other] if rng.random() < 0.5 else \
                ["bin", rng.choice(["lor", "land", "eq", "ne"]), other, tree]
        ctx = rng.choice([["print"], ["print"], ["assert"], ["assert"]])
    elif want == "number":
        ctx = rng.choice([["print"], ["print"], ["cap", rng.choice([0, 1, 2])], ["const", ["uint", 8, "sat", "uint8"]]])
    else:
        ctx = ["print"]
    return {"tree": tree, "env": env_items, "ctx": ctx, "fam": "nfc-" + fam}


def gen_case(rng: random.Random) -> dict:
    for _ in range(50):
        env_items = []
        if rng.random() < 0.35:
            for name, ty, mk in ENV_POOL:
                if rng.random() < 0.5:
                    t = mk(rng)
                    env_items.append([name, ty, t, render(t)])
        names = [e[0] for e in env_items]
        g = Gen(rng, names, rng.choice([0.0, 0.0, 0.0, 0.02, 0.06]))
        depth = rng.choice([1, 2, 2, 3, 3, 4, 5])
        if rng.random() < NFC_SHARE:
            case = _nfc_case(rng, g, env_items)
        else:
            case = _general_case(rng, g, names, env_items, depth)
        tree = case["tree"]
        status, val = o_case(case)
        if status == "skip":
            continue
        style = rng.random()
        if style < 0.45:
            case["text"] = render(tree, rng, 0.0, rng.choice([0.0, 0.5, 1.0]))
            case["style"] = "minimal"
        elif style < 0.9:
            case["text"] = render(tree, rng, rng.choice([0.1, 0.3, 0.5]), rng.choice([0.0, 0.5, 1.0]))
            case["style"] = "redundant"
        else:
            case["text"] = render(tree)
            case["style"] = "plain"
        return case
    t = lit_int(1, rng)
    return {"tree": t, "env": [], "ctx": ["print"], "text": render(t), "style": "plain"}


# ------------------------------------------------------------------------------------------------ implementation side

_TMP: typing.Optional[Path] = None


def _sweep_stale_tmp() -> None:
    """Remove scratch trees of worker processes that no longer exist (pool workers do not run atexit handlers)."""
    base = Path(tempfile.gettempdir())
    for d in base.glob("verif-expr-*"):
        try:
            pid = int(d.name.split("-")[2])
            os.kill(pid, 0)
        except (ValueError, IndexError, PermissionError):
            continue
        except ProcessLookupError:
            shutil.rmtree(d, ignore_errors=True)


def tmp_root() -> Path:
    global _TMP
    if _TMP is None or not _TMP.exists():
        _sweep_stale_tmp()
        _TMP = Path(tempfile.mkdtemp(prefix="verif-expr-%d-" % os.getpid()))
        atexit.register(shutil.rmtree, str(_TMP), True)
        try:
            from multiprocessing import util as _mpu
            _mpu.Finalize(None, shutil.rmtree, args=(str(_TMP), True), exitpriority=1)
        except Exception:  # noqa
            pass
    return _TMP


def dsdl_text(case) -> str:
    lines = []
    for name, ty, _t, text in case.get("env", []):
        lines.append("%s %s = %s" % (ty[-1] if ty[0] != "bool" else "bool", name, text))
    ctx = case["ctx"]
    ex = case["text"]
    if ctx[0] == "print":
        lines += ["@print " + ex, "@sealed"]
    elif ctx[0] == "assert":
        lines += ["@assert " + ex, "@sealed"]
    elif ctx[0] == "const":
        ty = ctx[1]
        lines += ["%s X = %s" % (ty[-1] if ty[0] != "bool" else "bool", ex), "@sealed"]
    elif ctx[0] == "cap":
        lines += ["uint8[%s%s] x" % (["", "<=", "<"][ctx[1]], ex), "@sealed"]
    elif ctx[0] == "extent":
        lines += ["@extent " + ex]
    else:
        raise ValueError(ctx)
    return "\n".join(lines) + "\n"


def parse_printed(s: str):
    """Inverse of str(pydsdl expression value): rational, boolean, string (Python repr), set."""
    v, i = _pp(s, 0)
    if i != len(s):
        raise ValueError("trailing text in %r" % s)
    return v


def _pp(s: str, i: int):
    if s[i] == "{":
        i += 1
        elems = []
        while True:
            v, i = _pp(s, i)
            elems.append(v)
            if s.startswith(", ", i):
                i += 2
                continue
            if s[i] == "}":
                return frozenset(elems), i + 1
            raise ValueError("bad set text")
    if s[i] in "'\"":
        q = s[i]
        j = i + 1
        while s[j] != q:
            j += 2 if s[j] == "\\" else 1
        return ast.literal_eval(s[i:j + 1]), j + 1
    j = i
    while j < len(s) and s[j] not in ",}":
        j += 1
    w = s[i:j]
    if w == "true":
        return True, j
    if w == "false":
        return False, j
    return Fraction(w), j


def from_expression_value(pydsdl, v):
    E = pydsdl._expression  # noqa: used only to read the value of Constant.value
    if isinstance(v, E.Boolean):
        return bool(v.native_value)
    if isinstance(v, E.Rational):
        return Fraction(v.native_value)
    if isinstance(v, E.String):
        return str(v.native_value)
    if isinstance(v, E.Set):
        return frozenset(from_expression_value(pydsdl, x) for x in v)
    raise TypeError(type(v).__name__)


def classify_exception(pydsdl, ex: BaseException, file: typing.Optional[Path]) -> dict:
    name = type(ex).__name__
    if isinstance(ex, pydsdl.InvalidDefinitionError):
        out = {"err": "invalid", "soft_exc": name}
        p = getattr(ex, "path", None)
        out["soft_path_ok"] = bool(p is not None and file is not None and Path(p).resolve() == file.resolve())
        return out
    if isinstance(ex, pydsdl.InternalError):
        return {"err": "internal", "soft_exc": name, "soft_msg": str(ex)[:300]}
    return {"err": "foreign:" + name, "soft_msg": str(ex)[:300]}


def run_definition(text: str):
    """Read one definition `ns/A.1.0.dsdl`; returns (types or None, printed lines, exception or None, file)."""
    import logging
    import sys
    logging.disable(logging.CRITICAL)
    old = sys.getrecursionlimit()
    sys.setrecursionlimit(1000)
    try:
        return _run_definition(text)
    finally:
        sys.setrecursionlimit(old)


def _run_definition(text: str):
    pydsdl = common.import_pydsdl()
    root = tmp_root() / "ns"
    root.mkdir(exist_ok=True)
    for p in root.iterdir():
        if p.is_dir():
            shutil.rmtree(p)
        else:
            p.unlink()
    f = root / "A.1.0.dsdl"
    f.write_text(text, encoding="utf8")
    printed: typing.List[str] = []
    try:
        types = pydsdl.read_namespace(root, [], print_output_handler=lambda p, l, t: printed.append(t))
        return types, printed, None, f
    except RecursionError as ex:  # the harness itself must survive
        return None, printed, ex, f
    except Exception as ex:  # noqa
        return None, printed, ex, f


def observe_impl(case) -> dict:
    pydsdl = common.import_pydsdl()
    types, printed, ex, f = run_definition(dsdl_text(case))
    ctx = case["ctx"][0]
    if ex is not None:
        if ctx == "assert" and type(ex).__name__ == "AssertionCheckFailureError":
            return {"v": ["b", False], "rt": True}
        out = classify_exception(pydsdl, ex, f)
        out["rt"] = True
        return out
    t = types[0]
    if ctx == "print":
        if len(printed) != 1:
            return {"err": "no-print-output", "rt": True}
        v = parse_printed(printed[0])
    elif ctx == "assert":
        v = True
    elif ctx == "const":
        c = [c for c in t.constants if c.name == "X"][0]
        v = from_expression_value(pydsdl, c.value)
    elif ctx == "cap":
        v = Fraction(t.fields[0].data_type.capacity)
    elif ctx == "extent":
        v = Fraction(t.extent)
    else:
        raise ValueError(ctx)
    return {"v": canon_raw(v), "rt": True}


# ------------------------------------------------------------------------------------------------ suite


def subtrees(t):
    k = t[0]
    if k == "set":
        return list(t[1])
    if k == "un":
        return [t[2]]
    if k == "bin":
        return [t[2], t[3]]
    if k == "attr":
        return [t[1]]
    return []


def replace_child(t, i, new):
    k = t[0]
    if k == "set":
        return ["set", t[1][:i] + [new] + t[1][i + 1:]]
    if k == "un":
        return ["un", t[1], new]
    if k == "bin":
        return ["bin", t[1], new, t[3]] if i == 0 else ["bin", t[1], t[2], new]
    if k == "attr":
        return ["attr", new, t[2]]
    raise ValueError(k)


def shrink_tree(t):
    subs = subtrees(t)
    for s in subs:
        yield s
    if t[0] == "set" and len(t[1]) > 1:
        for i in range(len(t[1])):
            yield ["set", t[1][:i] + t[1][i + 1:]]
    if t[0] == "int" and (t[2] > 1 or t[1] != str(t[2])):
        yield ["int", str(t[2]), t[2]]
        if t[2] > 1:
            yield ["int", str(t[2] // 2), t[2] // 2]
    if t[0] == "real":
        yield ["int", "1", 1]
    if t[0] == "str" and t[2]:
        yield ["str", "''", []]
        if len(t[2]) <= 16:
            for i in range(len(t[2])):
                yield ascii_str(t[2][:i] + t[2][i + 1:])
        if t[1] != ascii_str(t[2])[1]:
            yield ascii_str(t[2])
    for i, s in enumerate(subs):
        for s2 in shrink_tree(s):
            yield replace_child(t, i, s2)


def ascii_str(cps: typing.List[int]) -> list:
    """A string literal in pure ASCII: everything outside the printable range escaped."""
    text = "'"
    for c in cps:
        if 0x20 <= c < 0x7F and c not in (0x27, 0x5C):
            text += chr(c)
        else:
            text += "\\u%04x" % c if c <= 0xFFFF else "\\U%08x" % c
    return ["str", text + "'", list(cps)]


def nfc_features(tree) -> typing.Set[str]:
    """What the strings of the tree exercise (only for trees with non-ASCII text)."""
    out: typing.Set[str] = set()

    def val(t):
        try:
            v = o_eval(t, {})
        except (Invalid, Skip):
            return None
        return v.raw if isinstance(v, OStr) else None

    for t in walk(tree):
        if t[0] == "str" and t[2] is not None:
            raw = _s(t[2])
            if nfc(raw) != raw:
                out.add("nfc:literal-not-in-nfc")
            if any(unicodedata.normalize("NFKC", c) != nfc(c) for c in raw):
                out.add("nfc:compatibility-character")
            if any(0x1100 <= c < 0x1200 or 0xAC00 <= c < 0xD7A4 for c in t[2]):
                out.add("nfc:hangul")
        elif t[0] == "bin" and t[1] in ("add", "eq", "ne"):
            a, b = val(t[2]), val(t[3])
            if a is None or b is None:
                continue
            if t[1] == "add":
                out.add("nfc:junction-composes" if nfc(a) + nfc(b) != nfc(a + b) else "nfc:junction-inert")
            elif nfc(a) != nfc(b):
                out.add("nfc:compared-unequal")
            else:
                out.add("nfc:compared-equal-same-spelling" if a == b else "nfc:compared-equal-other-spelling")
                if t[2][0] == "bin" or t[3][0] == "bin":
                    out.add("nfc:compared-equal-concatenation")
    return out


def walk(t):
    yield t
    for s in subtrees(t):
        yield from walk(s)


class ExprSuite(common.Suite):
    name = "expr"

    def generate(self, rng, n, prop, tier):
        return [gen_case(rng) for _ in range(n)]

    def corpus(self, prop):
        r = random.Random(1)
        out = []
        for mk in TRAPS:
            t = mk(r)
            out.append({"tree": t, "env": [], "ctx": ["print"], "text": render(t, r, 0.0, 0.0), "style": "minimal"})
            out.append({"tree": t, "env": [], "ctx": ["print"], "text": render(t, r, 0.4, 0.5), "style": "redundant"})
        # canonical equivalence (UAX #15, figures 3-6): each text in its NFC form, its NFD form and put together from
        # single characters with `+`, compared in every combination; compatibility characters stay distinct
        texts = [[0xC5], [0x212B], [0xF4], [0x1E69], [0x1E0B, 0x323], [0x71, 0x307, 0x323], [0xAC00], [0xAC01], [0x1ED1], [0x958], [0x344]]
        for cps in texts:
            forms = [[ord(c) for c in unicodedata.normalize(f, _s(cps))] for f in ("NFC", "NFD")]
            trees = [ascii_str(f) for f in forms]
            pieces = [ascii_str([c]) for c in forms[1]]
            glued = pieces[0]
            for q in pieces[1:]:
                glued = ["bin", "add", glued, q]
            trees.append(glued)
            for a in trees:
                for b in trees:
                    if a is not b:
                        t = ["bin", "eq", a, b]
                        out.append({"tree": t, "env": [], "ctx": ["assert"], "text": render(t), "style": "plain", "fam": "nfc-corpus"})
        # regression for finding F14 (repo fix 5c4ff03): the elements of a set are identified by their NFC forms, like the
        # operands of `==` - two spellings of one text are one element in literals, comparisons, algebra and element-wise results
        for cps in ([0xE9], [0x1ED1], [0xAC01], [0x212B]):
            c, d = ascii_str(cps), ascii_str([ord(x) for x in unicodedata.normalize("NFD", _s(cps))])
            one = lit_int(1, r)
            for t in (["bin", "eq", ["set", [c]], ["set", [d]]],
                      ["bin", "le", ["set", [d]], ["set", [c, ascii_str([0x78])]]],
                      ["bin", "eq", ["attr", ["set", [c, d]], "count"], one],
                      ["bin", "eq", ["attr", ["bin", "band", ["set", [c]], ["set", [d]]], "count"], one],
                      ["bin", "eq", ["attr", ["bin", "bor", ["set", [c]], ["set", [d]]], "count"], one],
                      ["bin", "eq", ["bin", "add", ["set", [ascii_str(d[2][:-1])]], ascii_str(d[2][-1:])], ["set", [c]]],
                      ["bin", "eq", ["attr", ["set", [c, d]], "min"], c]):
                out.append({"tree": t, "env": [], "ctx": ["assert"], "text": render(t), "style": "plain", "fam": "nfc-corpus"})
            t = ["bin", "bxor", ["set", [c]], ["set", [d]]]                  # empty: must be rejected
            out.append({"tree": t, "env": [], "ctx": ["print"], "text": render(t), "style": "plain", "fam": "nfc-corpus"})
        for a, b in ((0xFB03, "ffi"), (0xB5, "\u03bc"), (0x2460, "1"), (0xFF21, "A")):
            t = ["bin", "ne", ascii_str([a]), ascii_str([ord(c) for c in b])]
            out.append({"tree": t, "env": [], "ctx": ["assert"], "text": render(t), "style": "plain", "fam": "nfc-corpus"})
        return out

    def run_impl(self, case):
        try:
            return observe_impl(case)
        except Exception as ex:  # harness-side problem: visible as a disagreement, never a crash
            return {"err": "harness:" + type(ex).__name__, "soft_msg": str(ex)[:300], "rt": True}

    def model_case(self, case):
        # "text": the model lexes and parses the very characters the library gets and compares the result with the tree
        # "ucd": the character data over which the model's NFC algorithm runs (absent: the case is pure ASCII)
        m = {"id": case["id"], "tree": case["tree"], "env": case.get("env", []), "ctx": case["ctx"], "text": case["text"]}
        u = case_ucd(case)
        if u is not None:
            m["ucd"] = u
        return m

    def compare(self, case, impl, model, prop):
        m = {k: v for k, v in model.items() if k != "id" and not k.startswith("soft")}
        if model.get("err") in ("inexact", "unsupported") and model.get("rt") is True:
            return None
        # string values are compared in NFC form (the granularity of the property: equal strings are one value); the
        # model's side is normalised by the model's own algorithm ("vn"), the library's side by unicodedata
        vn = m.pop("vn", None)
        if "v" in m:
            m["v"] = canon_json(vn if vn is not None else m["v"])
        if str(m.get("err", "")).startswith("hazard:"):
            # a modelled hazard: the library lets it through as InternalError (the defect) or rejects the definition (the fix)
            m["err"] = impl.get("err") if impl.get("err") in ("internal", "invalid") else "internal"
        a = {k: v for k, v in impl.items() if not k.startswith("soft")}
        if "v" in a:
            a["v"] = norm_json(a["v"])
        if a == m:
            return None
        return "impl=%s model=%s" % (json.dumps(a, sort_keys=True)[:500], json.dumps(m, sort_keys=True)[:500])

    def oracle(self, case, impl, prop):
        status, val = o_case(case)
        if status == "skip":
            return None
        err = impl.get("err")
        if err is not None and err != "invalid":
            return "expression %r: %s (%s) instead of a value or an InvalidDefinitionError" % (case["text"], err, impl.get("soft_msg", ""))
        if status == "invalid":
            if err != "invalid":
                return "expression %r (%s) must be rejected (%s), the library produced %s" % (case["text"], case["ctx"][0], val, _short(impl.get("v")))
            if impl.get("soft_path_ok") is False:
                return "expression %r rejected without the path of its file" % case["text"]
            return None
        if err == "invalid":
            return "expression %r (%s) has the value %s, the library rejected it (%s)" % (case["text"], case["ctx"][0], _short(val), impl.get("soft_exc"))
        if norm_json(impl.get("v")) != val:
            return "expression %r (%s): library value %s, mathematical value %s%s" % (
                case["text"], case["ctx"][0], _short(impl.get("v")), _short(val),
                " (strings are compared in NFC form)" if impl.get("v") != norm_json(impl.get("v")) or _has_str(val) else "")
        return None

    def signature(self, case, desc, prop):
        # coarse on purpose: one class per way of failing, so that shrinking may change the operators
        if "instead of a value" in desc:
            cls = desc.split(" instead of a value")[0].rsplit(": ", 1)[-1].split(" ")[0]
            exc = ""
            if cls == "internal" and "(" in desc:
                exc = desc.split(" instead of a value")[0].rsplit("(", 1)[-1].split(":")[0].strip()
            return "%s/%s%s" % (prop, cls, "/" + exc[:40] if exc else "")
        what = "wrong-value" if "mathematical value" in desc else "wrongly-rejected" if "rejected it" in desc else "wrongly-accepted" if "must be rejected" in desc else \
            "no-path" if "without the path" in desc else "diff"
        return "%s/%s" % (prop, what)

    def shrink(self, case):
        for t in shrink_tree(case["tree"]):
            c = dict(case)
            c["tree"] = t
            c["text"] = render(t)
            c["style"] = "plain"
            yield c
        if case.get("env"):
            for i in range(len(case["env"])):
                c = dict(case)
                c["env"] = case["env"][:i] + case["env"][i + 1:]
                yield c
        if case.get("style") != "plain":
            c = dict(case)
            c["text"] = render(case["tree"])
            c["style"] = "plain"
            yield c
        if case["ctx"][0] != "print":
            c = dict(case)
            c["ctx"] = ["print"]
            yield c

    def features(self, case, impl):
        yield "ctx:" + case["ctx"][0]
        yield "style:" + case.get("style", "?")
        if case.get("fam"):
            yield "family:" + case["fam"]
        if any(c >= 0x80 for c in tree_code_points(case["tree"])):
            yield from nfc_features(case["tree"])
        yield "outcome:" + ("value:" + impl["v"][0] if "v" in impl else str(impl.get("err")))
        if impl.get("soft_exc"):
            yield "rejected-as:" + impl["soft_exc"]
        seen = set()
        depth = 0
        for t in walk(case["tree"]):
            if t[0] in ("un", "bin"):
                seen.add("op:" + t[1])
            elif t[0] == "int":
                tx = t[1].lower()
                seen.add("lit:" + ("hex" if tx.startswith("0x") else "bin" if tx.startswith("0b") else "oct" if tx.startswith("0o") else "dec") + ("+sep" if "_" in tx else ""))
            else:
                seen.add("node:" + t[0])
        yield from seen
        yield "depth:%d" % _depth(case["tree"])
        _ = depth

    def nontrivial(self, case, impl):
        return case["tree"][0] in ("un", "bin", "attr", "set")


def _depth(t):
    return 1 + max([_depth(s) for s in subtrees(t)] or [0])


def _has_str(j) -> bool:
    return isinstance(j, list) and bool(j) and (j[0] == "s" or j[0] == "set" and any(_has_str(e) for e in j[1]))


def _short(x):
    s = json.dumps(x) if not isinstance(x, str) else x
    return s if len(s) < 300 else s[:300] + "..."


SUITE = ExprSuite()
