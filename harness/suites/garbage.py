"""
Suite `garbage` (C13): whatever is offered as a definition, reading ends with a type model or with an
InvalidDefinitionError that carries a path; InternalError and foreign exceptions never reach the caller.

Streams
  tokmut   token-level mutations (delete / duplicate / swap / replace) of valid definitions
  noise    random character noise, control characters, Unicode oddities inside valid definitions
  arith    targeted arithmetic corner cases as expression trees (roots of negatives, overflowing powers, out-of-range
           escapes, surrogates in constants, literals beyond CPython's digit limit); the Lean hazard model predicts these
  nest     deep nesting and very long chains
  names    arbitrary file names (and directory names) under the namespace directory, duplicates of one (name, version)
  constellation   valid definitions whose NAMES meet: a namespace named like a type next to it (and the other way round), types
           named like the synthetic sections of a service (`Request` / `Response`) inside a namespace named like that
           service, types named like their own namespace or the root, letter-case variants of directory and type names,
           further versions of one name (same or other kind), references between them (full, relative, in another letter
           case, to a section of a service); read with read_namespace, with read_files (all files) or with read_files (one
           target, the rest reached as dependencies)

  diag     DIAGNOSTIC PATHS: namespaces with exactly one defect (or one defective pair of files), one family per rule the library
           can report - undefined type / version / namespace, undefined identifier, unknown directive, misused directive, extent
           against the size of the type, minor versions that disagree (extent, sealing, kind, port-ID) or are defined twice,
           constants out of range / of the wrong kind, array capacities, bit lengths and cast modes, reserved / too long /
           colliding / non-ASCII names, unions and aggregation rules, fixed port-IDs at and beyond their limits, version numbers
           and malformed file names, root and lookup directories against each other, undefined attributes and operators, failing
           assertions - each reached with EXTREME parameters (2**64, around the largest double 2**1024 and 8x / 64x that, 10**400,
           10**4000, beyond CPython's 4300-digit int -> str limit, names and literals of 10**4 characters) and TIED candidates
           (no / one / two equally close / a ring of / many other versions of the requested type, equally similar names, letter-case
           variants, the same candidates visible through a second directory), because the text of a diagnostic is computed from
           the offending values.  The defect sits in a plain definition, in either section of a service, in a union, in a nested
           namespace, in a dependency, in a dependency of a dependency or in a lookup namespace; all three entry points.
           The oracle additionally demands that the InvalidDefinitionError names the offending file ("offending": the files that
           hold the defect by construction; absent where the input may be legitimate).

Case:    {"kind", "files": [[relative path, text], ...], optional "tree"/"ctx"/"env"/"text" (arith), "names": [basenames],
          optional "how": "ns" | "files" | "files1" (entry point, default "ns"), "target": relative path (files1),
          optional (diag) "root": root namespace directory (default "ns"), "lookups": [directories], "opts": see run_files,
          "offending": [relative paths], "diag" / "mag" / "place" / "cand" / "shape": labels for features}
Outcome: {"cls": "ok" | "invalid" | "internal" | "foreign:<cls>", "path": relative path named by the error, soft_*}
Oracle:  the exception class itself: anything but ok / InvalidDefinitionError-with-path is a violation; where the case states the
         offending files, the path must be one of them.
"""
from __future__ import annotations

import json
import os
import random
import re
import shutil
import traceback
import typing
import urllib.parse
from pathlib import Path

import common
from suites import expr as X

HELPERS = [
    ["ns/B.1.0.dsdl", "uint8 v\n@sealed\n"],
    ["ns/S.1.0.dsdl", "uint8 q\n@sealed\n---\nuint8 r\n@sealed\n"],
]

BASES = [
    "uint8 a\nint16[<=4] b\nfloat32 c\n@sealed\n",
    "# header comment\n\nuint8 VALUE = 2 ** 3 - 1\nbool flag\nvoid7\n@assert VALUE == 7\n@extent 64 * 8\n",
    "@union\nuint8 a\nfloat16[3] b\nns.B.1.0 c\n@sealed\n",
    "@deprecated\nns.B.1.0[<=2] items  # trailing comment\nB.1.0 rel\ntruncated uint3 x\nsaturated int5 y\n@print _offset_\n@assert _offset_.min >= 8\n@sealed",
    "uint8 req\n@sealed\n---\nfloat64 resp\n@extent 128\n",
    "float64 PI = 3.141_592\nuint8 CH = 'a'\nbool T = true && !false || false\nint32 N = -(0x10 + 0b11 * 0o7) % 5\n@print {1, 2, 3}.count\n"
    "@assert {'a', \"b\"} != {'a'}\nutf8[<=10] s\nbyte[4] raw\n@sealed\n",
    "uint8[<5] a\nbool[<=16] b\n@assert _offset_ % 8 == {0, 1, 2, 3, 4, 5, 6, 7}\n@extent 512\n",
    "@print 1.5e3 / 7 + .5\n@print 'x' + \"\\u0041\\n\"\nbool[<=2 ** 4] b\n@extent 1024\n",
    "int64 MIN = -2 ** 63\nuint64 MAX = 2 ** 64 - 1\nfloat16 H = 65504.0\n@assert MAX > MIN && (MIN < 0) == true\n@assert {1, 2} <= {1, 2, 3}\nvoid64\nuint1 bit\n@sealed\n",
]

TOKEN_RE = re.compile(r"""\r?\n|[ \t]+|\#[^\r\n]*|'(?:[^'\\\n]|\\.)*'|"(?:[^"\\\n]|\\.)*"|[A-Za-z_][A-Za-z0-9_]*|\d[\dA-Za-z_]*|---+|\*\*|\|\||&&|==|!=|<=|>=|.""", re.S)

VOCAB = ["@", "@sealed", "@union", "@extent", "@assert", "@print", "@deprecated", "@foo", "---", "uint8", "int8", "float16", "float32", "bool", "void3", "byte", "utf8",
         "truncated", "saturated", "ns", "B", "S", "ns.B.1.0", "ns.S.1.0", "S.1.0", "ns.Q.1.0", "A.1.0", "1", "0", "2", "255", "0x", "0b2", "1e", "1.", ".5", "1e400", "_offset_", "_", "x",
         "[", "]", "[<=", "[<", "(", ")", "{", "}", ",", ".", "=", "+", "-", "*", "/", "%", "**", "!", "||", "&&", "==", "!=", "<", "<=", ">", ">=", "|", "^", "&",
         "true", "false", "'a'", '"', "'", "'\\'", "'\\u12'", "#", " ", "\n", "\n\n", "\t", "min", "max", "count", "0.5", "-1", "**0.5", "uint65", "int1", "float17", "void0", "void65",
         "uint8[0]", "uint8[<=0]", "uint8[2**64]", "ns.S.1.0[2]", "ns.S.1.0[<=2]"]

NOISE = list("!\"#$%&'()*+,-./:;<=>?@[\\]^_`{|}~") + [chr(c) for c in range(0, 32)] + ["\x7f", "\x85", "\xa0", "\u2028", "\u2029", "\ufeff", "\u200b", "\u202e", "\u0301",
                                                                                       "\u0660", "\uff11", "\U0001f600", "\U0010ffff", "\u00e9", "\ufffd", "\u212a"]


_POW_OK = re.compile(r"\*\*[ \t]*-?[ \t]*(\d{1,2}|\.\d{1,3}|\d\.\d{1,3})(?![\w.]|[ \t]*\*\*)")


def risky(text: str) -> bool:
    """Texts on which evaluation may not terminate in practice (outside the bounded quantifier of the property):
    a power whose exponent is not a short literal, the numerical expansion `_offset_` next to large numbers, or a real literal
    with an astronomic exponent."""
    n_pow = text.count("**")
    if n_pow and len(_POW_OK.findall(text)) != n_pow:
        return True
    if "_offset_" in text and (n_pow or re.search(r"\d{4}|\de\d|0[xX][0-9a-fA-F]{4}|0[bB][01]{10}", text)):
        return True
    if re.search(r"[\d.][eE][+-]?\d[\d_]{4,}", text):   # a real literal with an exponent of five or more digits (3.1e400141_592): 10 ** exponent is computed
        return True
    return False


def tokenize(text: str) -> typing.List[str]:
    return TOKEN_RE.findall(text)


def mutate_tokens(text: str, rng: random.Random) -> str:
    toks = tokenize(text)
    for _ in range(rng.choice([1, 1, 1, 2, 3])):
        if not toks:
            break
        i = rng.randrange(len(toks))
        m = rng.choice(["delete", "duplicate", "swap", "replace", "replace", "insert"])
        if m == "delete":
            del toks[i]
        elif m == "duplicate":
            toks.insert(i, toks[i])
        elif m == "swap":
            j = rng.randrange(len(toks))
            toks[i], toks[j] = toks[j], toks[i]
        elif m == "replace":
            toks[i] = rng.choice(VOCAB) if rng.random() < 0.7 else rng.choice(toks)
        else:
            toks.insert(i, rng.choice(VOCAB))
    return "".join(toks)


def add_noise(text: str, rng: random.Random) -> str:
    s = list(text)
    for _ in range(rng.choice([1, 1, 2, 3, 8])):
        i = rng.randrange(len(s) + 1)
        m = rng.random()
        c = rng.choice(NOISE)
        if m < 0.5:
            s.insert(i, c)
        elif m < 0.8 and i < len(s):
            s[i] = c
        elif i < len(s):
            del s[i]
    return "".join(s)


def pure_noise(rng: random.Random) -> str:
    n = rng.choice([0, 1, 2, 5, 20, 80])
    alphabet = NOISE + list("abcuint8 \n\n@=") + ["uint8 ", "@sealed\n"]
    return "".join(rng.choice(alphabet) for _ in range(n))


# ---- targeted arithmetic corner cases (as trees, so that the Lean hazard model predicts the outcome)


def _i(v, rng):
    return X.lit_int(v, rng) if v >= 0 else ["un", "neg", X.lit_int(-v, rng)]


def _real(text, num, den=1):
    return ["real", text, [num, den]]


def arith_tree(rng: random.Random):
    """(tree, ctx) of a corner case."""
    r = rng
    k = r.randrange(16)
    print_ctx = ["print"]
    if k == 0:    # root of a negative number
        base = r.choice([_i(-1, r), _i(-8, r), ["un", "neg", _real("2.5", 5, 2)], ["bin", "sub", _i(1, r), _i(r.randint(2, 9), r)]])
        return ["bin", "pow", base, r.choice([_real("0.5", 1, 2), _real(".25", 1, 4), _real("1.5", 3, 2), ["bin", "div", _i(1, r), _i(3, r)]])], print_ctx
    if k == 1:    # operands beyond the double range
        return ["bin", "pow", r.choice([_real("1e400", 10 ** 400), _real("1E+309", 10 ** 309), ["bin", "pow", _i(10, r), _i(400, r)]]),
                r.choice([_real("0.5", 1, 2), _real("1.5", 3, 2)])], print_ctx
    if k == 2:    # overflowing result (inexact for the model: unmodelled)
        return ["bin", "pow", _real("10.0", 10), r.choice([_real("1000.5", 2001, 2), _real("400.5", 801, 2)])], print_ctx
    if k == 3:    # exact corner cases of integer powers
        return ["bin", "pow", r.choice([_i(0, r), _real("0.0", 0), _i(2, r), _i(-2, r)]), r.choice([_i(-1, r), _i(0, r), _i(-3, r), _i(3, r)])], print_ctx
    if k == 4:    # division / modulo by zero in all spellings
        return ["bin", r.choice(["div", "mod"]), r.choice([_i(1, r), _real("1.5", 3, 2), ["set", [_i(1, r), _i(2, r)]]]),
                r.choice([_i(0, r), _real("0.0", 0), ["bin", "sub", _i(2, r), _i(2, r)]])], print_ctx
    if k == 5:    # escapes beyond Unicode
        h = r.choice(["FFFFFFFF", "00110000", "7FFFFFFF", "80000000", "0010FFFF", "00110001", "ffffffff"])
        v = int(h, 16)
        return ["str", "'\\U%s'" % h, [v] if v <= 0x10FFFF else None], print_ctx
    if k == 6:    # lone surrogates: printable, but not encodable in a constant
        cp = r.choice([0xD800, 0xDBFF, 0xDC00, 0xDFFF])
        t = ["str", r.choice(["'\\u%04x'", "\"\\U%08x\""]) % cp, [cp]]
        if r.random() < 0.3:
            return t, print_ctx
        n = r.choice([8, 8, 16, 7])
        ty = r.choice([["uint", n, "sat", "uint%d" % n], ["int", max(2, n), "sat", "int%d" % max(2, n)]])
        if r.random() < 0.3:
            t = ["bin", "add", t, X.lit_str(r, [97])]
        return t, ["const", ty]
    if k == 7:    # literals beyond CPython's integer-string conversion limit
        n = r.choice([4299, 4300, 4301, 5000])
        kind = r.random()
        if kind < 0.4:
            ds = "".join(r.choice("123456789") for _ in range(n))
            return ["int", ds, 0], r.choice([["cap", 0], ["print"]])
        if kind < 0.6:
            ds = "".join(r.choice("0123456789") for _ in range(n))
            return ["real", "0." + ds, [0, 1]], ["extent"]
        if kind < 0.8:
            ds = "1" * (n // 4 + 1)
            return ["int", "0x" + ds, 0], ["cap", 0]
        ds = "".join(r.choice("123456789") for _ in range(n))
        return ["bin", "gt", ["int", ds, 0], _i(0, r)], ["assert"]
    if k == 8:    # values beyond the limit of integer-to-string conversion, printed
        e = r.choice([4299, 4300, 4301, 6000])
        t = ["bin", "pow", _i(10, r), _i(e, r)]
        if r.random() < 0.4:
            t = ["bin", "div", _i(1, r), t]
        if r.random() < 0.3:
            t = ["set", [t, _i(1, r)]]
        return t, print_ctx
    if k == 9:    # empty / heterogeneous sets, min of unordered kinds
        return r.choice([
            ["set", []], ["set", [_i(1, r), ["bool", True]]], ["bin", "band", ["set", [_i(1, r)]], ["set", [_i(2, r)]]],
            ["attr", ["set", [["bool", True], ["bool", False]]], "min"], ["attr", ["set", [X.lit_str(r, [97]), X.lit_str(r, [98])]], "max"],
            ["bin", "bxor", ["set", [_i(1, r)]], ["set", [_i(1, r)]]], ["bin", "bor", ["set", [_i(1, r)]], ["set", [X.lit_str(r, [97])]]],
        ]), print_ctx
    if k == 10:   # malformed escapes
        return ["str", r.choice(["'\\z'", "'\\u12'", "'\\U0000'", "'\\u00zz'", "\"\\x41\"", "'\\8'"]), None], print_ctx
    if k == 11:   # bitwise on non-integers, huge shifts of meaning
        return ["bin", r.choice(X.BIT), r.choice([_real("1.5", 3, 2), _i(-7, r), _i(2 ** 70, r)]), r.choice([_real("0.5", 1, 2), _i(3, r), _i(-(2 ** 65), r)])], print_ctx
    if k == 12:   # constants exactly around a boundary with a hazard-free but extreme spelling
        return ["bin", "sub", ["bin", "pow", _i(2, r), _i(64, r)], _i(r.choice([0, 1]), r)], ["const", ["uint", 64, "sat", "uint64"]]
    if k == 13:   # comparison / logic on wrong kinds
        return ["bin", r.choice(["lt", "lor", "eq", "add"]), r.choice([["bool", True], X.lit_str(r, [97]), ["set", [_i(1, r)]]]), r.choice([_i(1, r), ["bool", False]])], print_ctx
    if k == 14:   # zero-sized and negative capacities, non-integral extents
        return r.choice([_i(0, r), _i(-1, r), _real("1.5", 3, 2), ["bool", True], _i(2 ** 64, r), _i(2 ** 64 - 1, r)]), r.choice([["cap", 0], ["cap", 1], ["cap", 2], ["extent"]])
    # a fractional power of a positive number (inexact: unmodelled, but it must not crash)
    return ["bin", "pow", r.choice([_i(2, r), _real("0.5", 1, 2), _i(0, r)]), r.choice([_real("0.5", 1, 2), ["un", "neg", _real("0.5", 1, 2)]])], print_ctx


def nest_text(rng: random.Random) -> str:
    k = rng.randrange(5)
    n = rng.choice([2, 5, 10, 10, 20, 20, 30, 30, 50, 100, 300])
    if k == 0:
        return "@print " + "(" * n + "1" + ")" * n + "\n@sealed\n"
    if k == 1:
        return "@print " + "-(" * n + "1" + ")" * n + "\n@sealed\n"
    if k == 2:
        return "@print " + "!" * n + "true\n@sealed\n"
    if k == 3:
        return "@print " + " + ".join(["1"] * (n * 5)) + "\n@sealed\n"
    return "@print " + "{" * n + "1" + "}" * n + "\n@sealed\n"


NAME_PARTS = ["A", "B", "a", "_", "A1", "1A", "", "7000", "0", "-1", "+1", "1_0", " 1", "1 ", "٣", "１", "1.0", "x", "65536", "99999999999999999999", "1e3", "0x1", "é", "Ω", " ",
              "\t", "\n", "..", "A.B", "A-B", "uint8", "ns", "S", "\u202e", "\x01", "A" * 100,
              # characters that str.isdigit() / isnumeric() accept but int() does not (superscripts, circled digits, fractions,
              # Roman numerals) and decimal digits of other scripts that int() does accept
              "\u00b2", "\u2460", "\u00bd", "\u2163", "\u0e53", "\U0001d7d9", "\u2070", "1\u00b2", "\u00b21"]


def gen_names(rng: random.Random) -> typing.List[typing.List[str]]:
    """Files of a namespace with arbitrary names (every file holds a valid definition)."""
    files = []
    bodies = ["uint8 v\n@sealed\n", "@sealed\n", "uint16 w\n@extent 64\n", "uint8 q\n@sealed\n---\n@sealed\n"]
    for _ in range(rng.choice([1, 1, 2, 3])):
        x = rng.random()
        if x < 0.5:
            parts = [rng.choice(NAME_PARTS) for _ in range(rng.choice([3, 3, 4, 4, 2, 5, 1]))]
            base = ".".join(parts) + rng.choice([".dsdl", ".dsdl", ".dsdl", ".uavcan", ".DSDL", ".dsdl.dsdl", ""])
        elif x < 0.7:
            base = "%s.%s.%s.dsdl" % (rng.choice(["A", "Q", "q", "A_", "_A", "A1"]), rng.choice(["0", "1", "255", "256", "-1", "1_0", "+1", " 1", "\u00b2", "\u2460", "\u0e53"]), rng.choice(["0", "1", "255", "256", "00", "\u00b2", "\u2461", "1\u00b3"]))
        elif x < 0.85:
            base = "%s.%s.1.0.dsdl" % (rng.choice(["0", "1", "7000", "7509", "8191", "8192", "65535", "-1", "1e3", "x", "511", "512", "\u00b2", "7\u2070\u2070\u2070", "\u2460"]), rng.choice(["A", "Q"]))
        else:
            base = rng.choice(["A.1.0.dsdl", "7000.A.1.0.dsdl", "A.1.0.uavcan", "a.1.0.dsdl", "A.1.1.dsdl", "A.01.0.dsdl", "A.1.00.dsdl"])
        base = base.replace("/", "_").replace("\x00", "_")
        if not base or base in (".", "..") or len(base.encode("utf8", "replace")) > 200:
            base = "A.1.0.dsdl"
        sub = rng.choice(["", "", "", "sub/", "sub.dir/", "1sub/", "_/", "sub/deeper/", " /", "Ω/"])
        rel = "ns/" + sub + base
        if all(rel != f[0] for f in files):
            files.append([rel, rng.choice(bodies)])
    if rng.random() < 0.3:   # the same (name, version) twice
        twin = rng.choice([("ns/A.1.0.dsdl", "ns/7000.A.1.0.dsdl"), ("ns/A.1.0.dsdl", "ns/A.1.0.uavcan"), ("ns/sub/A.1.0.dsdl", "ns/sub/7001.A.1.0.dsdl"),
                           ("ns/A.1.0.dsdl", "ns/a.1.0.dsdl"), ("ns/A.1.0.dsdl", "ns/A.01.0.dsdl")])
        for rel in twin:
            if all(rel != f[0] for f in files):
                files.append([rel, rng.choice(bodies)])
    return files


# ---- name constellations: every file is a valid definition; what is unusual is how the names relate to each other

STEMS = ["Svc", "Msg", "Request", "Response", "ns", "sub", "A", "Bq", "Q"]
SECTION_NAMES = ["Request", "Response"]
MESSAGE_BODIES = ["uint8 v\n@sealed\n", "@sealed\n", "uint16 w\n@extent 64\n", "@union\nuint8 a\nfloat16 b\n@sealed\n", "bool[<=9] x\n@extent 1024\n"]
SERVICE_BODIES = ["uint8 q\n@sealed\n---\n@sealed\n", "@sealed\n---\n@sealed\n", "uint64 a\n@extent 1024\n---\nuint8 b\n@sealed\n", "@extent 64\n---\nuint8 r\n@extent 64\n",
                  "uint8 q\n@sealed\n---\nuint16 w\n@extent 64\n"]


def _case_variant(rng: random.Random, s: str, p: float) -> str:
    if rng.random() >= p:
        return s
    return rng.choice([s.lower(), s.upper(), s.capitalize(), s.swapcase(), s[:1].lower() + s[1:]])


def gen_constellation(rng: random.Random) -> dict:
    pool = rng.sample(STEMS, rng.choice([2, 3, 3, 4]))

    def name() -> str:
        return _case_variant(rng, rng.choice(pool), 0.15)

    def version_near(v):
        x = rng.random()
        if x < 0.6:
            return v
        if x < 0.85:
            return (v[0], rng.choice([0, 1, 2, 3]) if v[0] else rng.choice([1, 2, 3]))
        return (rng.choice([1, 2]), rng.choice([v[1], 0, 1]))

    def new(dirs, short, ver, service=None, refs=None):
        service = (rng.random() < 0.4) if service is None else service
        pid = None
        if rng.random() < 0.15:
            pid = rng.choice([300, 256, 383, 300, 100] if service else [7000, 7001, 6200, 6144, 100])   # vendor-specific regulated ranges, and one outside
        return {"dirs": list(dirs), "short": short, "ver": ver, "service": service, "pid": pid, "ext": ".uavcan" if rng.random() < 0.05 else ".dsdl",
                "body": rng.choice(SERVICE_BODIES if service else MESSAGE_BODIES), "refs": refs or []}

    def full(d) -> str:
        return ".".join(["ns"] + d["dirs"] + [d["short"]])

    defs = [new([name() for _ in range(rng.choice([0, 0, 0, 1, 1, 2]))], name(), rng.choice([(0, 1), (0, 2), (1, 0), (1, 0), (1, 0), (1, 1), (1, 3), (2, 0), (2, 1)]))]
    for _ in range(rng.choice([1, 1, 2, 2, 3, 4])):
        d = rng.choice(defs)
        t = rng.choice(["nested", "nested", "lifted", "like-namespace", "case", "version", "sibling", "referrer", "referrer", "twin"])
        if t == "nested":       # a namespace named like the type d, holding a type named like a section / like d / like anything
            short = rng.choice([rng.choice(SECTION_NAMES), rng.choice(SECTION_NAMES), d["short"], name()])
            defs.append(new(d["dirs"] + [_case_variant(rng, d["short"], 0.15)], _case_variant(rng, short, 0.1), version_near(d["ver"])))
        elif t == "lifted":     # a type named like the namespace d lives in, next to that namespace
            if d["dirs"]:
                defs.append(new(d["dirs"][:-1], _case_variant(rng, d["dirs"][-1], 0.15), version_near(d["ver"])))
            else:
                defs.append(new([], "ns", version_near(d["ver"])))
        elif t == "like-namespace":   # a type named like its own namespace
            defs.append(new(d["dirs"], d["dirs"][-1] if d["dirs"] else "ns", version_near(d["ver"])))
        elif t == "case":       # the same place in another letter case
            dirs = [_case_variant(rng, x, 0.5) for x in d["dirs"]]
            defs.append(new(dirs, _case_variant(rng, d["short"], 0.7), version_near(d["ver"]), service=d["service"] if rng.random() < 0.7 else None))
        elif t == "version":    # another version of the same name, of the same kind or not
            v = (d["ver"][0], d["ver"][1] + rng.choice([1, 2])) if rng.random() < 0.7 else (d["ver"][0] + 1, rng.choice([0, d["ver"][1]]))
            e = new(d["dirs"], d["short"], v, service=d["service"] if rng.random() < 0.75 else None)
            if rng.random() < 0.7:
                e["body"], e["pid"] = d["body"], d["pid"]
            defs.append(e)
        elif t == "sibling":
            defs.append(new(d["dirs"], name(), version_near(d["ver"])))
        elif t == "twin":       # the same (name, version) under another file name
            if rng.random() < 0.2:
                e = dict(d)
                e["twin"] = True
                e["pid"], e["ext"] = (7000 if d["pid"] is None and not d["service"] else None), rng.choice([".dsdl", ".uavcan"])
                e["body"] = d["body"] if rng.random() < 0.5 else rng.choice(SERVICE_BODIES if d["service"] else MESSAGE_BODIES)
                defs.append(e)
        else:                   # a definition that refers to the others
            refs = []
            for _k in range(rng.choice([1, 1, 2])):
                g = rng.choice(defs)
                n = full(g)
                x = rng.random()
                if x < 0.2:
                    n = n + "." + rng.choice(SECTION_NAMES)        # the synthetic name of a section
                elif x < 0.35:
                    n = _case_variant(rng, n, 1.0)
                v = g["ver"] if rng.random() < 0.8 else version_near(g["ver"])
                refs.append([n, v, g["dirs"]])
            where = rng.choice([d["dirs"], d["dirs"], [], d["dirs"] + [d["short"]]])
            e = new(where, rng.choice(["Zr", "Zr", name()]), version_near(d["ver"]), service=rng.random() < 0.2)
            lines = []
            for i, (n, v, gdirs) in enumerate(refs):
                if gdirs == e["dirs"] and rng.random() < 0.4:
                    n = n.rsplit(".", 1)[-1] if n.count(".") == len(gdirs) + 1 else n     # relative reference
                lines.append("%s.%d.%d%s r%d" % (n, v[0], v[1], rng.choice(["", "", "[<=2]", "[3]"]), i))
            tail = ["@sealed\n", "@extent 8192\n"]
            e["body"] = "\n".join(lines) + "\n" + (rng.choice(tail) + "---\n" + rng.choice(tail) if e["service"] else rng.choice(tail))
            defs.append(e)
    files = []
    seen = set()
    for d in defs:
        key = (tuple(d["dirs"]), d["short"], d["ver"])
        if key in seen and not d.get("twin"):
            continue          # one file per (name, version), except where two are meant
        seen.add(key)
        rel = "/".join(["ns"] + d["dirs"] + ["%s%s.%d.%d%s" % ("" if d["pid"] is None else "%d." % d["pid"], d["short"], d["ver"][0], d["ver"][1], d["ext"])])
        if all(rel != f[0] for f in files):
            files.append([rel, d["body"]])
    how = rng.choice(["ns", "ns", "files", "files1"])
    case = {"kind": "constellation", "files": files, "names": [f[0].rsplit("/", 1)[-1] for f in files], "how": how}
    if how == "files1":
        case["target"] = rng.choice(files)[0]
    return case


def definition_key(rel: str):
    """(namespace path, short name, major, minor) a definition file stands for by its path, or None."""
    parts = rel.split("/")
    base = parts[-1]
    for ext in (".dsdl", ".uavcan"):
        if base.endswith(ext):
            comps = base[: -len(ext)].split(".")
            break
    else:
        return None
    if len(comps) not in (3, 4):
        return None

    def num(x: str):
        return int(x) if x.isascii() and x.isdigit() else x

    return ("/".join(parts[:-1]), comps[-3], num(comps[-2]), num(comps[-1]))


def same_version_twice(files) -> bool:
    """Two files of the case define the same (full name, major, minor)."""
    keys = [k for k in (definition_key(f[0]) for f in files) if k is not None]
    return len(set(keys)) != len(keys)


def constellation_traits(files) -> typing.Set[str]:
    out = set()
    keys = [k for k in (definition_key(f[0]) for f in files) if k is not None]
    fulls = {k[0] + "/" + k[1] for k in keys}
    dirs = {k[0] for k in keys}
    services = {f[0].rsplit("/", 1)[0] + "/" + definition_key(f[0])[1] for f in files if definition_key(f[0]) is not None and isinstance(f[1], str) and "\n---" in "\n" + f[1]}
    if fulls & dirs:
        out.add("namespace-named-like-a-type")
    if any(k[1] in SECTION_NAMES and k[0] in services for k in keys):
        out.add("section-name-inside-namespace-named-like-a-service")
    if any(k[0].rsplit("/", 1)[-1] == k[1] for k in keys):
        out.add("type-named-like-its-namespace")
    low = {}
    for x in fulls | dirs:
        low.setdefault(x.lower(), set()).add(x)
    if any(len(v) > 1 for v in low.values()):
        out.add("letter-case-variants")
    if same_version_twice(files):
        out.add("same-name-and-version-twice")
    if len({(k[0], k[1]) for k in keys}) < len(set(keys)):
        out.add("several-versions-of-a-name")
    return out


UNREADABLE = [
    {"hex": "232063616621e90a407365616c65640a"},          # Latin-1 text
    {"hex": "80"}, {"hex": "40736561" + "6c6564e2820a"},  # lone continuation byte, truncated sequence
    {"hex": "c0af0a407365616c65640a"},                    # overlong form
    {"hex": "eda0800a407365616c65640a"},                  # encoded surrogate
    {"hex": "fffe40007300650061006c00650064000a00"},      # UTF-16 with BOM
    {"hex": "ff" * 40},
    {"dir": True},
]


def gen_unreadable(rng: random.Random) -> dict:
    """A namespace in which one definition file cannot be loaded as text at all (undecodable bytes, a directory under its
    name), alone or first reached through a reference from a definition that sorts before it."""
    bad = rng.choice(["Zq.1.0.dsdl", "Zq.1.0.dsdl", "7000.Zq.1.0.dsdl", "sub/Zq.1.0.dsdl", "Zq.1.0.uavcan"])
    files = [["ns/" + bad, rng.choice(UNREADABLE)]]
    if rng.random() < 0.6:
        ref = "ns.sub.Zq.1.0" if bad.startswith("sub/") else "ns.Zq.1.0"
        files.insert(0, ["ns/A.1.0.dsdl", "%s z\n@sealed\n" % ref])
    if rng.random() < 0.4:
        files.append(["ns/B.1.0.dsdl", "uint8 b\n@sealed\n"])
    return {"kind": "unreadable", "files": files}


# ---- diagnostic paths: every rule the library can report, reached with EXTREME and TIED parameters.  The text of an error is
# computed from the offending values (sizes, versions, names, candidate lists), so producing the diagnostic is itself code that can
# fail: numbers beyond the double range, beyond CPython's int -> str limit, candidates at equal distance, no candidate at all.

SEALED = "@sealed\n"
DIAG_ENTRIES = ["ns", "ns", "files", "files1"]


def _num(rng: random.Random, xl: bool = False):
    """(magnitude class, DSDL spelling, value) of a positive integer.  No value beyond 4000 digits is ever turned into text here
    (the harness runs under CPython's conversion limit as well): such numbers are spelled as powers."""
    k = rng.choice(["small", "small", "u64", "u64", "double-edge", "double-edge", "double-edge", "astronomic", "astronomic"] + (["xl"] if xl else []))
    if k == "small":
        v = rng.choice([1, 2, 3, 7, 8, 9, 16, 255, 256, 300, 65536])
        return k, str(v), v
    if k == "u64":
        b, e, d = 2, rng.choice([32, 53, 63, 64, 64, 65, 128]), rng.choice([-1, 0, 0, 1])
    elif k == "double-edge":   # around the largest double (and 8 x / 64 x that: sizes are converted between bits, bytes and elements)
        b, e, d = 2, rng.choice([1018, 1021, 1023, 1024, 1024, 1027, 1030, 1031]), rng.choice([-1, 0, 0, 1])
    elif k == "astronomic":
        b, e = rng.choice([(2, 2000), (10, 309), (10, 400), (10, 400), (10, 1000), (10, 4000), (16, 300)])
        d = rng.choice([-1, 0, 0, 1])
    else:                      # beyond CPython's int -> str limit: whatever quotes the value runs into the known finding F12b
        b, e, d = 10, rng.choice([4300, 5000]), 0
    v = b ** e + d
    text = "%d ** %d" % (b, e) + ("" if d == 0 else " + 1" if d > 0 else " - 1")
    if k != "xl" and e <= 1100 and rng.random() < 0.3:
        text = rng.choice([str(v), hex(v)]) if v.bit_length() < 8000 else str(v)
    return k, text, v


def _big_type(rng: random.Random, n_text: str, n: int):
    """A type whose size is governed by the number n: (statements, further files, smallest valid extent in bits, shape)."""
    shape = rng.choice(["bytes", "bytes", "bits", "words", "union", "nested", "nested-array", "variable"])
    if shape == "variable" and n >= 2 ** 64:
        shape = "bytes"
    if shape == "bytes":
        return ["uint8[%s] a" % n_text], [], 8 * n, shape
    if shape == "bits":
        return ["bool[(%s) * 8] a" % n_text], [], 8 * n, shape
    if shape == "words":
        return ["uint64[%s] a" % n_text, "uint8 b"], [], 64 * n + 8, shape
    if shape == "union":
        return ["@union", "uint8[%s] a" % n_text, "uint16 b"], [], 8 + max(8 * n, 16), shape
    if shape == "nested":
        return ["ns.Big.1.0 big"], [["ns/Big.1.0.dsdl", "uint8[%s] a\n@sealed\n" % n_text]], 8 * n, shape
    if shape == "nested-array":
        return ["ns.Big.1.0[3] big"], [["ns/Big.1.0.dsdl", "uint8[%s] a\n@sealed\n" % n_text]], 24 * n, shape
    prefix = 8 if n < 2 ** 8 else 16 if n < 2 ** 16 else 32 if n < 2 ** 32 else 64
    return ["uint8[<=%s] a" % n_text], [], prefix + 8 * n, shape


def _extent_text(rng: random.Random, bits: int) -> str:
    """Spelling of an extent given in bits (a multiple of 8 is written the customary way now and then)."""
    assert abs(bits).bit_length() < 14000       # never turn a number beyond CPython's conversion limit into digits
    if bits % 8 == 0 and rng.random() < 0.5:
        return "%d * 8" % (bits // 8)
    return str(bits)


def _place(rng: random.Random, body: str, extra=(), simple: bool = True, allow=None) -> dict:
    """Put the definition text `body` - the one that holds the defect - somewhere into a namespace; the rest of the namespace is
    valid.  simple: one section, not deprecated (so it can become a section of a service or a dependency)."""
    options = ["plain", "plain", "plain", "deep"] + (["request", "response", "dependency", "dependency", "chain", "lookup"] if simple else [])
    if allow is not None:
        options = [o for o in options if o in allow]
    p = rng.choice(options)
    files = [list(f) for f in extra]
    lookups = []
    x = rng.random()
    if x < 0.12 and p != "request" and body.endswith("\n"):
        body = body[:-1]                         # the last statement ends with the file
    elif x < 0.2:
        body = body.replace("\n", "\r\n")        # the other admitted line ending
    if p == "plain":
        off = "ns/A.1.0.dsdl"
        files.append([off, body])
    elif p == "deep":
        off = "ns/sub/deeper/A.1.0.dsdl"
        files.append([off, body])
    elif p == "request":
        off = "ns/A.1.0.dsdl"
        files.append([off, body + "---\nuint8 r\n@sealed\n"])
    elif p == "response":
        off = "ns/A.1.0.dsdl"
        files.append([off, "uint8 q\n@sealed\n---\n" + body])
    elif p == "dependency":
        off = "ns/Zq.1.0.dsdl"
        files += [["ns/A.1.0.dsdl", "ns.Zq.1.0%s z\n@sealed\n" % rng.choice(["", "", "[<=2]", "[2]"])], [off, body]]
    elif p == "chain":
        off = "ns/sub/Zq.1.0.dsdl"
        files += [["ns/A.1.0.dsdl", "ns.Mid.1.0 m\n@sealed\n"], ["ns/Mid.1.0.dsdl", "ns.sub.Zq.1.0 z\n@sealed\n"], [off, body]]
    else:
        off = "lib/Zq.1.0.dsdl"
        lookups = ["lib"]
        files += [["ns/A.1.0.dsdl", "lib.Zq.1.0 z\n@sealed\n"], [off, body]]
    return {"files": files, "lookups": lookups, "offending": [off], "place": p}


def _versions_around(rng: random.Random, M: int, m: int):
    """(configuration name, versions defined) around a requested version (M, m) that is NOT defined."""
    k = rng.choice(["none", "one", "tie-minor", "tie-minor", "tie-major", "tie-major", "tie-diagonal", "ring", "tie-not-closest", "untied", "many"])
    d = rng.choice([1, 1, 1, 2, 5])
    vs = []
    if k == "one":
        vs = [rng.choice([(M, m + d), (M + d, m), (M, max(0, m - d)), (max(0, M - d), m)])]
    elif k == "tie-minor":
        vs = [(M, m - d), (M, m + d)]
    elif k == "tie-major":
        vs = [(M - d, m), (M + d, m)]
    elif k == "tie-diagonal":
        vs = rng.choice([[(M - 1, m + 1), (M + 1, m - 1)], [(M - 1, m - 1), (M + 1, m + 1)], [(M - 1, m), (M + 1, m), (M, m + 1), (M, m - 1)]])
    elif k == "ring":
        vs = [(M + i, m + j) for i in (-1, 0, 1) for j in (-1, 0, 1) if (i, j) != (0, 0)]
    elif k == "tie-not-closest":
        vs = [(M, m + 1), (M + 2, m), (M - 2, m)]
    elif k == "untied":
        vs = [(M, m + 1), (M, m + 3), (M + 2, m)]
    elif k == "many":
        vs = [(M + i, j) for i in (-1, 0, 1) for j in range(0, 6)]
    vs = sorted({v for v in vs if v != (M, m) and v != (0, 0) and 0 <= v[0] <= 255 and 0 <= v[1] <= 255})
    return k, vs


NEAR_NAMES = {   # requested name -> names at the same small distance from it
    "Foo": ["Fop", "Fon", "Fooo", "Fo", "Foo_", "Boo"], "Limit": ["Limit1", "Limit2", "Limits", "Limit_"], "Abcd": ["Abce", "Abcf", "Abc", "Bbcd"],
}


def d_undefined_type(rng: random.Random) -> dict:
    """A reference to a version / a name / a namespace that is not defined, with 0, 1, 2 equally close or many candidates."""
    name = rng.choice(list(NEAR_NAMES))
    M, m = rng.choice([(1, 1), (1, 1), (2, 0), (0, 3), (1, 5), (2, 1), (3, 2), (254, 254), (1, 0), (128, 7)])
    where = rng.choice(["own", "own", "nested", "lookup"])
    base = {"own": "ns/", "nested": "ns/lib/", "lookup": "lib/"}[where]
    full = {"own": "ns.", "nested": "ns.lib.", "lookup": "lib."}[where] + name
    body_of_candidates = rng.choice([SEALED, "uint8 X = 1\n@sealed\n", "uint8 v\n@extent 64\n"])
    cand, vs = _versions_around(rng, M, m)
    files = [[base + "%s.%d.%d.dsdl" % (name, a, b), body_of_candidates] for a, b in vs]
    similar = rng.choice(["no", "no", "no", "names", "names-only", "letter-case"])
    if similar != "no":
        if similar == "names-only":
            files, cand = [], "similar-names-only"
        else:
            cand += "+" + similar
        others = rng.sample(NEAR_NAMES[name], rng.choice([1, 2, 2, 3])) if similar != "letter-case" else [name.lower(), name.upper()][: rng.choice([1, 2])]
        files += [[base + "%s.%d.%d.dsdl" % (o, M, m), body_of_candidates] for o in others]
    second = where != "lookup" and files and rng.random() < 0.12
    if second:      # every candidate is visible through two directories (a second checkout of the root namespace among the lookup directories)
        files += [["other/" + f[0], f[1]] for f in files]
        cand += "+second-directory"
    wrong_ns = rng.random() < 0.12
    if wrong_ns:    # the namespace itself is misspelled / is the sub-root taken for a root / does not exist at all
        full = rng.choice(["nss." + name, "n." + name, "lib." + name if where != "lookup" else "libs." + name, "ns.lib.lib." + name, "ns.sub.deeper." + name])
        cand += "+other-namespace"
    ver = "%d.%d" % (M, m)
    if rng.random() < 0.1:
        ver = rng.choice(["%d.%d" % (M, 2 ** 64), "%d.%d" % (10 ** 400, m), "%d.%d" % (256, 0), "0.0", "%d.%d" % (M, 10 ** 4000), "%s.0" % ("9" * 4301)])
        cand += "+extreme-version"
    form = rng.choice(["field", "field", "array", "array", "constant", "assert"])
    if form == "field":
        stmt = "%s.%s f" % (full, ver)
    elif form == "array":
        stmt = "%s.%s[%s] f" % (full, ver, rng.choice(["<=4", "3", "<2 ** 64"]))
    elif form == "constant":
        stmt = "uint8 X = %s.%s.X" % (full, ver)
    else:
        stmt = "@assert %s.%s.X == 1" % (full, ver)
    body = stmt + "\n" + rng.choice([SEALED, "@extent 8 * 10 ** 4000\n"])
    case = _place(rng, body, files, allow=["plain", "plain", "deep", "request", "response", "dependency", "chain"] if where != "lookup" else ["plain", "request", "response", "dependency"])
    if where == "lookup":
        case["lookups"] = ["lib"]
    if second:
        case["lookups"] = case["lookups"] + ["other/ns"]
    if rng.random() < 0.15 and where == "own" and case["place"] == "plain":    # the referrer is another version of the requested type itself
        v2 = rng.choice([(M, m + 2), (M, m + 1), (M + 1, 0)])
        if v2 not in vs and v2[1] <= 255:
            for f in case["files"]:
                if f[0] == "ns/A.1.0.dsdl":
                    f[0] = "ns/%s.%d.%d.dsdl" % (name, v2[0], v2[1])
                    case["offending"] = [f[0]]
            cand += "+own-other-version"
    if "letter-case" in cand:
        case.pop("offending")     # the library names the definition whose name differs by case: that one is the offender as well
    case.update({"diag": "undefined-type", "cand": cand})
    return case


def d_undefined_identifier(rng: random.Random) -> dict:
    name = rng.choice(["LIMIT", "LIMIT", "Max", "x", "_offset", "offset_", "_Offset_", "OFFSET", "X" * rng.choice([300, 5000, 30000]), "q" * 256])
    cand = rng.choice(["none", "one-near", "two-near", "two-near", "letter-case", "many"])
    near = {"none": [], "one-near": [name + "1"], "two-near": [name + "1", name + "2"], "letter-case": [name.swapcase()],
            "many": [name + s for s in "0123456789"] + [name[:-1] or "k"]}[cand]
    if len(name) > 1000 and cand == "many":
        cand, near = "two-near", [name + "1", name + "2"]
    near = [n for n in dict.fromkeys(near) if n != name and re.fullmatch(r"[A-Za-z_][A-Za-z0-9_]*", n)]
    consts = "".join("uint8 %s = %d\n" % (n, i) for i, n in enumerate(near))
    use = rng.choice(["@assert %s == 1", "uint8 Y = %s + 1", "uint8[%s] f", "uint8[<=%s * 2] f", "@extent %s * 8", "@print %s", "@assert {%s, 1} == {1}", "@assert 2 ** 64 < %s"]) % name
    tail = "" if use.startswith("@extent") else SEALED
    if rng.random() < 0.2 and near:    # the constants are in the other section of a service: a lookup cannot cross the boundary
        body, simple = consts + "@sealed\n---\n" + use + "\n" + tail, False
        cand += "+across-sections"
    else:
        body, simple = consts + use + "\n" + tail, True
    case = _place(rng, body, simple=simple)
    case.update({"diag": "undefined-identifier", "cand": cand, "mag": "long-name" if len(name) > 255 else "small"})
    return case


DIRECTIVES = ["sealed", "extent", "union", "deprecated", "assert", "print"]


def d_unknown_directive(rng: random.Random) -> dict:
    k = rng.choice(["near", "near", "tie", "tie", "letter-case", "long", "other"])
    if k == "near":
        d = rng.choice(DIRECTIVES)
        i = rng.randrange(len(d))
        name = rng.choice([d[:i] + d[i + 1:], d[:i] + d[i] + d[i:], d[:i] + "x" + d[i + 1:], d + "s", d[:-1]])
    elif k == "tie":      # equally far from two directives
        name = rng.choice(["se", "e", "ext", "sealent", "exted", "unint", "print_assert", "a", "s", "deprecatedsealed", "prinsert", "un", "xtent", "ealed"])
    elif k == "letter-case":
        name = rng.choice(DIRECTIVES).upper() if rng.random() < 0.5 else rng.choice(DIRECTIVES).capitalize()
    elif k == "long":
        name = rng.choice(["x", "sealed", "ab"]) * rng.choice([100, 5000, 15000])
    else:
        name = rng.choice(["foo", "_", "sealed_", "_extent", "bitlength", "offset", "x1", "uint8", "true"])
    if name in DIRECTIVES:
        name += "x"
    arg = rng.choice(["", "", " 64", " 10 ** 400", " 'a'", " {1, 2}", " true"])
    pos = rng.choice(["first", "last", "after-mode"])
    stmt = "@" + name + arg
    body = {"first": stmt + "\nuint8 a\n@sealed\n", "last": "uint8 a\n" + stmt + "\n@sealed\n", "after-mode": "uint8 a\n@sealed\n" + stmt + "\n"}[pos]
    case = _place(rng, body)
    case.update({"diag": "unknown-directive", "cand": k, "mag": "long-name" if len(name) > 255 else "small"})
    return case


def d_directive_misuse(rng: random.Random) -> dict:
    mag, n_text, _n = _num(rng, xl=True)
    simple = True
    k = rng.choice(["sealed-expr", "union-expr", "deprecated-expr", "union-twice", "deprecated-twice", "deprecated-in-response", "union-late", "deprecated-late",
                    "extent-bare", "assert-bare", "assert-not-boolean", "extent-not-rational", "extent-after-extent", "sealed-after-extent", "extent-after-sealed",
                    "sealed-twice", "attribute-after-extent", "marker-twice", "extent-fraction", "print-bare"])
    if k == "sealed-expr":
        body = "uint8 a\n@sealed %s\n" % n_text
    elif k == "union-expr":
        body = "@union %s\nuint8 a\nuint8 b\n@sealed\n" % n_text
    elif k == "deprecated-expr":
        body, simple = "@deprecated %s\nuint8 a\n@sealed\n" % n_text, False
    elif k == "union-twice":
        body = "@union\n@union\nuint8 a\nuint8 b\n@sealed\n"
    elif k == "deprecated-twice":
        body, simple = "@deprecated\n@deprecated\nuint8 a\n@sealed\n", False
    elif k == "deprecated-in-response":
        body, simple = "uint8 a\n@sealed\n---\n@deprecated\nuint8 b\n@sealed\n", False
    elif k == "union-late":
        body = "uint8 a\n@union\nuint8 b\n@sealed\n"
    elif k == "deprecated-late":
        body, simple = "uint8 a\n@deprecated\n@sealed\n", False
    elif k == "extent-bare":
        body = "uint8 a\n@extent\n"
    elif k == "assert-bare":
        body = "uint8 a\n@assert\n@sealed\n"
    elif k == "print-bare":
        body = "uint8 a\n@print\n@sealed\n"
    elif k == "assert-not-boolean":
        body = "uint8 a\n@assert %s\n@sealed\n" % rng.choice([n_text, "{%s}" % n_text, "'a'", "(%s) / 3" % n_text])
    elif k == "extent-not-rational":
        body = "uint8 a\n@extent %s\n" % rng.choice(["'a'", "true", "{%s}" % n_text, "{8, 16}"])
    elif k == "extent-fraction":
        body = "uint8 a\n@extent (%s) / %s\n" % (n_text, rng.choice(["3", "7", "(%s + 1)" % n_text]))
    elif k == "extent-after-extent":
        body = "uint8 a\n@extent (%s) * 8\n@extent (%s) * 8\n" % (n_text, n_text)
    elif k == "sealed-after-extent":
        body = "uint8 a\n@extent (%s) * 8\n@sealed\n" % n_text
    elif k == "extent-after-sealed":
        body = "uint8 a\n@sealed\n@extent (%s) * 8\n" % n_text
    elif k == "sealed-twice":
        body = "uint8 a\n@sealed\n@sealed\n"
    elif k == "attribute-after-extent":
        body = "uint8 a\n@extent (%s) * 8\n%s\n" % (n_text, rng.choice(["uint8 b", "uint8 B = 1", "void8"]))
    else:
        body, simple = "uint8 a\n@sealed\n---\nuint8 b\n@sealed\n---\nuint8 c\n@sealed\n", False
    case = _place(rng, body, simple=simple)
    case.update({"diag": "directive-misuse:" + k, "mag": mag})
    if k == "print-bare":
        case.pop("offending")     # legitimate: a control
    return case


def d_extent(rng: random.Random) -> dict:
    """The extent of a delimited type against the size of the type: too small, not a multiple of eight, negative, exactly enough."""
    mag, n_text, n = _num(rng, xl=True)
    stmts, extra, need, shape = _big_type(rng, n_text, n)
    k = rng.choice(["too-small", "too-small", "too-small", "one-byte-short", "one-byte-short", "unaligned", "unaligned-huge", "negative", "zero", "exact", "missing", "missing"])
    if mag == "xl" and k in ("one-byte-short", "exact", "unaligned"):
        k = "too-small"
    if k == "too-small":
        ext = _extent_text(rng, rng.choice([8, 64, 1024 * 8] + ([need // 2 // 8 * 8] if mag != "xl" else [])))
    elif k == "one-byte-short":
        ext = _extent_text(rng, need - 8 - need % 8)
    elif k == "unaligned":
        ext = _extent_text(rng, need + rng.choice([1, 4, 7, -1]))
    elif k == "unaligned-huge":
        ext = "2 ** 1024 + 1" if rng.random() < 0.5 else "(%s) * 8 + 1" % n_text
    elif k == "negative":
        ext = rng.choice(["-8", "-64", "-(%s) * 8" % n_text, "-1"])
    elif k == "zero":
        ext = "0"
    elif k == "exact":
        ext = _extent_text(rng, need + (-need) % 8)
    body = "\n".join(stmts) + "\n" + ("" if k == "missing" else "@extent %s\n" % ext)
    case = _place(rng, body, extra)
    case.update({"diag": "extent:" + k, "mag": mag, "shape": shape})
    if k == "exact":
        case.pop("offending")
    return case


def d_version_consistency(rng: random.Random) -> dict:
    """Two or three minor versions of one type that differ in extent / in sealing / in kind / in the fixed port-ID."""
    # NOTE (genuine defect of the unchanged library, reported): with extents of more than 4300 digits the text of
    # ExtentConsistencyError cannot be produced and a BARE ValueError leaves read_namespace (the check runs outside the per-file
    # funnel).  Same root cause as the known finding F12b but another signature: that magnitude is kept out of this generator.
    mag, n_text, n = _num(rng, xl=False)
    k = rng.choice(["extent", "extent", "extent-sealed", "sealing", "sealing", "kind", "kind", "port-id-changed", "port-id-removed", "port-id-shared", "port-id-shared-3", "defined-twice"])
    M = rng.choice([1, 1, 2, 255])
    a, b = "ns/A.%d.0.dsdl" % M, "ns/A.%d.%d.dsdl" % (M, rng.choice([1, 2, 255]))
    files, off = [], [a, b]
    if k == "extent":
        other = rng.choice(["(%s) * 8 + 8" % n_text, "(%s) * 16" % n_text, "8", "64", "8", "(%s + 1) * 8" % n_text] +
                           (["(%s) * (%s) * 8" % (n_text, n_text)] if n.bit_length() < 6500 else []))    # (stays below 4300 digits, see the note above)
        if rng.random() < 0.5:
            a, b = b, a
        files = [[a, "uint8 x\n@extent (%s) * 8\n" % n_text], [b, "uint8 x\n@extent %s\n" % other]]
    elif k == "extent-sealed":
        files = [[a, "uint8[%s] x\n@sealed\n" % n_text], [b, "uint8[(%s) + 1] x\n@sealed\n" % n_text]]
    elif k == "sealing":
        files = [[a, "uint8[%s] x\n@sealed\n" % n_text], [b, "uint8[%s] x\n@extent (%s) * 8\n" % (n_text, n_text)]]
        if rng.random() < 0.5:
            files[0][0], files[1][0] = b, a
    elif k == "kind":
        files = [[a, "uint8 x\n@sealed\n"], [b, "uint8 x\n@sealed\n---\n@sealed\n"]]
    elif k == "defined-twice":     # two (or three) files define the version somebody refers to: the reference is ambiguous
        twin = rng.choice(["ns/7000.Tw.1.0.dsdl", "ns/Tw.1.0.uavcan", "other/ns/Tw.1.0.dsdl"])
        files = [["ns/Tw.1.0.dsdl", "uint8 x\n@sealed\n"], [twin, "uint8 x\n@sealed\n"], ["ns/A.1.0.dsdl", "ns.Tw.1.0 t\n@sealed\n"]]
        if rng.random() < 0.3:
            files.append(["other/ns/6999.Tw.1.0.dsdl", "uint8 x\n@sealed\n"])
        off = None
    else:
        svc = rng.random() < 0.3
        body = "uint8 x\n@sealed\n---\n@sealed\n" if svc else "uint8 x\n@sealed\n"
        p1, p2 = (rng.sample([256, 257, 383, 300], 2)) if svc else (rng.sample([6144, 6145, 7167, 7000], 2))
        if k == "port-id-changed":
            files = [["ns/%d.A.%d.0.dsdl" % (p1, M), body], ["ns/%d.A.%d.1.dsdl" % (p2, M), body]]
        elif k == "port-id-removed":
            files = [["ns/%d.A.%d.0.dsdl" % (p1, M), body], ["ns/A.%d.1.dsdl" % M, body]]
        elif k == "port-id-shared":
            files = [["ns/%d.A.%d.0.dsdl" % (p1, M), body], ["ns/%d.Q.%d.%d.dsdl" % (p1, rng.choice([1, M]), rng.choice([0, 1])), body]]
        else:
            files = [["ns/%d.A.%d.0.dsdl" % (p1, M), body], ["ns/%d.Q.1.0.dsdl" % p1, body], ["ns/sub/%d.A.1.0.dsdl" % p1, body]]
        off = [f[0] for f in files]
    if k != "defined-twice" and rng.random() < 0.3:   # a third version that agrees with the first one: which pair is reported is a tie
        first = files[0][0].rsplit("/", 1)[-1].split(".")
        third = "ns/%sA.%d.7.dsdl" % (first[0] + "." if len(first) == 5 else "", M)
        if all(f[0] != third for f in files):
            files.append([third, files[0][1]])
            off = off + [third]
    case = {"files": files, "lookups": ["other/ns"] if any(f[0].startswith("other/") for f in files) else [], "place": "pair", "diag": "versions:" + k,
            "mag": mag if k in ("extent", "extent-sealed", "sealing") else "small"}
    if off:
        case["offending"] = off
    return case


CONST_TYPES = ["uint8", "uint8", "int8", "uint64", "int64", "uint1", "int2", "float16", "float32", "float64", "bool", "truncated uint8", "saturated int16"]


def d_constant(rng: random.Random) -> dict:
    mag, n_text, _n = _num(rng, xl=True)
    ty = rng.choice(CONST_TYPES)
    k = rng.choice(["out-of-range", "out-of-range", "negative", "fraction", "tiny", "boundary", "string", "wrong-kind", "wrong-type"])
    if k == "out-of-range":
        v = n_text
    elif k == "negative":
        v = "-(%s)" % n_text
    elif k == "fraction":
        v = rng.choice(["(%s) / 3", "1 / (%s + 2)", "(%s) / (%s + 1)" % ("%s", n_text)]) % n_text
    elif k == "tiny":
        v = rng.choice(["1 / (%s)", "-1 / (%s)"]) % n_text
    elif k == "boundary":
        v = rng.choice(["256", "-1", "255", "-129", "128", "2 ** 64", "-2 ** 63 - 1", "2 ** 63", "65505", "65504.000001", "3.5e38", "1.8e308", "1e309", "-1e309", "2", "-3", "0.5", "0", "-0.0"])
    elif k == "string":
        v = rng.choice(["'ab'", "''", "'\\u00e9'", "'\\u0100'", "'%s'" % ("a" * rng.choice([2, 1000, 30000])), "'a' + 'b'", "'\\U0001f600'", "'a'"])
    elif k == "wrong-kind":
        v = rng.choice(["{1, 2}", "{%s}" % n_text, "true", "'a' == 'a'", "{'a'}"])
    else:
        ty, v = rng.choice(["ns.B.1.0", "ns.S.1.0", "utf8", "byte", "void8", "uint8[2]", "uint8[<=2]", "ns.B.1.0[2]"]), rng.choice(["1", n_text, "'a'", "true"])
    body = "%s X = %s\n@sealed\n" % (ty, v)
    case = _place(rng, body, HELPERS)
    case.update({"diag": "constant:" + k, "mag": mag if k in ("out-of-range", "negative", "fraction", "tiny") else "small"})
    case.pop("offending")       # several of these values are legitimate for some of the types
    return case


def d_capacity(rng: random.Random) -> dict:
    mag, n_text, n = _num(rng, xl=True)
    el = rng.choice(["uint8", "uint8", "bool", "float16", "ns.B.1.0", "ns.S.1.0", "utf8", "byte", "uint64", "void8", "truncated uint3"])
    k = rng.choice(["zero", "negative", "negative", "below-one", "fraction", "wrong-kind", "prefix-limit", "prefix-limit", "prefix-limit", "huge-fixed"])
    if k == "zero":
        cap = rng.choice(["0", "<=0", "<1", "(%s) - (%s)" % (n_text, n_text), "<=(%s) * 0" % n_text])
    elif k == "negative":
        cap = rng.choice(["-(%s)", "<=-(%s)", "<-(%s)", "1 - (%s) * 2"]) % n_text
    elif k == "below-one":
        cap = rng.choice(["<0", "<1", "<=-1", "<=1 / 2"])
    elif k == "fraction":
        cap = rng.choice(["(%s) / 3", "<=(%s) / 7", "<(%s + 1) / (%s + 2)" % ("%s", n_text), "1 / (%s)"]) % n_text
    elif k == "wrong-kind":
        cap = rng.choice(["'a'", "<=true", "<{%s}" % n_text, "{1}", "<='%s'" % ("z" * rng.choice([1, 5000]))])
    elif k == "prefix-limit":    # the length prefix of a variable-length array has at most 64 bits
        cap = rng.choice(["<=%s", "<%s", "<=(%s) - 1", "<(%s) + 1", "<=2 ** 64 - 1", "<=2 ** 64", "<2 ** 64 + 1", "<=2 ** 32", "<=65535", "<=65536"]).replace("%s", n_text)
    else:
        cap = n_text
    body = "%s[%s] a\n%s" % (el, cap, rng.choice([SEALED, SEALED, "@extent 64\n", ""]))
    case = _place(rng, body, HELPERS)
    case.update({"diag": "capacity:" + k, "mag": mag})
    if k in ("prefix-limit", "huge-fixed"):
        case.pop("offending")
    _ = n
    return case


def d_bit_length(rng: random.Random) -> dict:
    digits = rng.choice(["0", "00", "1", "2", "7", "8", "008", "16", "17", "63", "64", "65", "128", "255", "256", "1024", str(2 ** 64), str(2 ** 64 + 1), "9" * 400, "1" + "0" * 400,
                         "9" * 4300, "9" * 4301, "1" * 10000])
    fam = rng.choice(["uint", "int", "float", "void", "uint", "bool", "byte", "utf8"])
    pre = rng.choice(["", "", "truncated ", "saturated "])
    if fam in ("bool", "byte", "utf8"):
        digits = rng.choice(["", "", "8", "1"])
    elif pre == "truncated " and fam in ("int", "float") and rng.random() < 0.7:
        digits = rng.choice(["8", "16", "64", "2"] if fam == "int" else ["16", "32", "64"])
    ty = pre + fam + digits
    stmt = rng.choice(["%s a", "%s[3] a", "%s[<=3] a", "%s X = 1"]) % ty if fam != "void" else ty
    body = stmt + "\n@sealed\n"
    case = _place(rng, body)
    case.update({"diag": "bit-length:" + fam, "mag": "long-literal" if len(digits) > 100 else "small"})
    if fam in ("bool", "byte", "utf8") or digits in ("8", "16", "64", "63", "7", "2", "17", "1"):
        case.pop("offending")
    return case


RESERVED = ["truncated", "saturated", "true", "false", "bool", "void", "void8", "uint8", "int", "uint", "float16", "float", "q1_15", "uq16_16", "optional", "aligned", "const", "struct",
            "super", "template", "enum", "self", "and", "or", "not", "auto", "type", "con", "prn", "aux", "nul", "com1", "lpt9", "True", "UINT8", "Float", "CON", "_offset_", "_", "__", "a_", "_9"]


def d_names(rng: random.Random) -> dict:
    """Rules about names: reserved words and patterns, the length limit of a full name, collisions between attributes."""
    k = rng.choice(["reserved-attribute", "reserved-attribute", "reserved-type", "reserved-namespace", "too-long", "too-long", "collision", "collision", "collision-many", "void-named", "non-ascii",
                    "non-ascii-path"])
    if k == "reserved-attribute":
        w = rng.choice(RESERVED)
        body = rng.choice(["uint8 %s\n", "uint8 %s = 1\n", "uint8[<=2] %s\n", "ns.B.1.0 %s\n"]) % w + SEALED
        case = _place(rng, body, HELPERS)
        case.pop("offending")
    elif k in ("reserved-type", "reserved-namespace"):
        w = rng.choice(RESERVED)
        rel = "ns/%s.1.0.dsdl" % w if k == "reserved-type" else "ns/%s/A.1.0.dsdl" % w
        case = {"files": [[rel, SEALED], ["ns/Ok.1.0.dsdl", SEALED]], "lookups": [], "place": "file-name"}
    elif k == "too-long":      # the full name has at most 255 characters; a service section adds ".Request" / ".Response" to it
        total = rng.choice([200, 240, 246, 247, 248, 252, 253, 254, 255, 256, 257, 300, 600])
        comps, left = ["ns"], total - 2
        while left > 0:
            c = min(left - 1, rng.choice([1, 10, 60, 100, 200]))
            if c <= 0:
                break
            comps.append(rng.choice("abcXYZ") * c)
            left -= c + 1
        if len(comps) < 2:
            comps.append("A")
        rel = "/".join(comps[:-1]) + "/" + comps[-1] + ".1.0.dsdl"
        case = {"files": [[rel, rng.choice([SEALED, "uint8 q\n@sealed\n---\n@sealed\n"])]], "lookups": [], "place": "file-name", "offending": [rel]}
        if total <= 255:
            case.pop("offending")
    elif k == "collision":
        w = rng.choice(["a", "value", "x" * rng.choice([300, 30000]), "A", "_"])
        w2 = w if rng.random() < 0.8 else w.swapcase()
        body = rng.choice(["uint8 %s\nuint16 %s\n", "uint8 %s\nuint8 %s = 1\n", "uint8 %s = 1\nuint8 %s = 1\n", "@union\nuint8 %s\nuint16 %s\n", "uint8 %s\nvoid8\nvoid8\nfloat32 %s\n"]) % (w, w2) + SEALED
        case = _place(rng, body)
        if w2 != w:
            case.pop("offending")
    elif k == "collision-many":   # several names collide at once: which one is reported is a tie
        ws = rng.sample(["a", "b", "c", "d"], 3)
        body = "".join("uint8 %s\n" % w for w in ws + ws[::-1] + ws) + SEALED
        case = _place(rng, body)
    elif k == "void-named":
        body = rng.choice(["void8 a\n", "void8 A = 1\n", "void64 _\n"]) + SEALED
        case = _place(rng, body)
    elif k == "non-ascii-path":   # the name of a type / of a namespace with characters beyond ASCII: the message quotes the character
        w = rng.choice(["\u00e9", "A\u0301", "\u03a9", "\u212a", "\U0001f600", "A\u200b", "\uff21", "\u0410", "a\u00df", "A\u202e"])
        rel = rng.choice(["ns/%s.1.0.dsdl", "ns/%s/A.1.0.dsdl", "ns/sub/%s/A.1.0.dsdl", "ns/7000.%s.1.0.dsdl"]) % w
        case = {"files": [[rel, SEALED], ["ns/Ok.1.0.dsdl", SEALED]], "lookups": [], "place": "file-name", "offending": [rel]}
    else:
        body = rng.choice(["uint8 \u00e9\n", "uint8 a\u0301\n", "uint8 \u212a\n", "uint8 \uff41\n", "ns.\u00c9.1.0 x\n", "uint8 X = \u0660\n", "@\u00e9\n", "uint8 a\u200b\n",
                           "uint8 X = \u00e9\n", "@assert \u03a9 == 1\n"]) + SEALED
        case = _place(rng, body)
    case.update({"diag": "names:" + k, "mag": "long-name" if k == "too-long" or max(len(f[1]) for f in case["files"]) > 600 else "small"})
    return case


def d_union_and_aggregation(rng: random.Random) -> dict:
    mag, n_text, _n = _num(rng, xl=True)
    k = rng.choice(["no-variant", "one-variant", "one-variant-huge", "padding-in-union", "offset-in-union", "utf8-alone", "byte-alone", "utf8-fixed", "deprecated-dependency",
                    "service-as-field", "service-as-element", "many-variants"])
    simple = True
    extra = list(HELPERS)
    if k == "no-variant":
        body = "@union\n" + rng.choice(["", "uint8 X = 1\n", "uint8 X = 1\nuint8 Y = 2\n"]) + SEALED
    elif k == "one-variant":
        body = "@union\nuint8 a\n" + rng.choice(["", "uint8 X = 1\n"]) + rng.choice([SEALED, "@extent 64\n"])
    elif k == "one-variant-huge":
        body = "@union\nuint8[%s] a\n" % n_text + rng.choice([SEALED, "@extent 64\n", ""])
    elif k == "padding-in-union":
        body = "@union\nuint8 a\nvoid8\nuint8 b\n" + SEALED
    elif k == "offset-in-union":
        body = "@union\nuint8 a\n@assert _offset_ == {8}\nuint16 b\n" + SEALED
    elif k == "utf8-alone":
        body = rng.choice(["utf8 a\n", "@union\nutf8 a\nuint8 b\n"]) + SEALED
    elif k == "byte-alone":
        body = "byte a\n" + SEALED
    elif k == "utf8-fixed":
        body = "utf8[%s] a\n" % n_text + SEALED
    elif k == "deprecated-dependency":
        extra.append(["ns/Old.1.0.dsdl", "@deprecated\nuint8 x\n@sealed\n"])
        body = rng.choice(["ns.Old.1.0 a\n", "ns.Old.1.0[<=3] a\n", "ns.Old.1.0[%s] a\n" % n_text, "@union\nuint8 b\nns.Old.1.0 a\n"]) + SEALED
    elif k == "service-as-field":
        body = rng.choice(["ns.S.1.0 a\n", "@union\nns.S.1.0 a\nuint8 b\n"]) + SEALED
    elif k == "service-as-element":
        body = rng.choice(["ns.S.1.0[2] a\n", "ns.S.1.0[<=2] a\n", "ns.S.1.0[%s] a\n" % n_text]) + SEALED
    else:       # the tag of a union grows with the number of variants
        cnt = rng.choice([2, 255, 256, 257])
        body = "@union\n" + "".join("uint8 f%d\n" % i for i in range(cnt)) + SEALED
    case = _place(rng, body, extra, simple=simple)
    if k == "many-variants":
        case.pop("offending")
    case.update({"diag": "composition:" + k, "mag": mag if n_text in body else "small"})
    return case


def d_port_id(rng: random.Random) -> dict:
    """Fixed port-IDs at and beyond the limits (8191 subjects, 511 services, the regulated ranges), as huge as a file name allows."""
    svc = rng.random() < 0.4
    root = rng.choice(["ns", "ns", "uavcan", "cyphal", "Uavcan", "uavcan_"])
    pid = rng.choice(["0", "1", "255", "256", "383", "384", "511", "512", "6143", "6144", "7167", "7168", "8191", "8192", "65535", "65536", str(2 ** 32), str(2 ** 64), "9" * 30, "9" * 200,
                      "1" + "0" * 230, "00", "007168", "0384"])
    body = "uint8 q\n@sealed\n---\n@sealed\n" if svc else "uint8 v\n@sealed\n"
    rel = "%s/%s%s.A.%d.%d.dsdl" % (root, rng.choice(["", "", "sub/"]), pid, rng.choice([0, 1, 1, 255]), rng.choice([1, 0, 255]))
    files = [[rel, body]]
    if rng.random() < 0.3:
        files.append(["%s/Ok.1.0.dsdl" % root, SEALED])
    return {"files": files, "lookups": [], "root": root, "place": "file-name", "diag": "port-id:" + ("service" if svc else "subject"), "mag": "long-literal" if len(pid) > 20 else "small",
            "opts": {"unregulated": True} if rng.random() < 0.3 else {}}


def d_file_version(rng: random.Random) -> dict:
    v = rng.choice([("0", "0"), ("256", "0"), ("0", "256"), ("255", "255"), ("1", "256"), (str(2 ** 64), "0"), ("9" * 100, "9" * 100), ("1", "9" * 230), ("00", "00"), ("0", "00")])
    rel = "ns/%sA.%s.%s.dsdl" % (rng.choice(["", "sub/", "7000."]), v[0], v[1])
    if rng.random() < 0.3:      # not a file name of a definition at all: the message quotes the offending component
        rel = "ns/" + rng.choice(["A.1.dsdl", "A.dsdl", "A.1.0.0.0.dsdl", "x.A.1.0.dsdl", "ns.A.1.0.dsdl", "%s.A.1.0.dsdl" % ("p" * 200), "-1.A.1.0.dsdl", "7000.A.1.x.dsdl", "A.1.-0.dsdl",
                                  "sub.dir/A.1.0.dsdl", ".1.0.dsdl", "...dsdl"])
    files = [[rel, rng.choice([SEALED, "uint8 q\n@sealed\n---\n@sealed\n"])]]
    if rng.random() < 0.4:       # somebody refers to it
        ref = "ns.%sA.%s.%s" % ("sub." if "/sub/" in rel else "", v[0], v[1])
        files.append(["ns/Ref.1.0.dsdl", "%s r\n@sealed\n" % ref])
    return {"files": files, "lookups": [], "place": "file-name", "diag": "file-version", "mag": "long-literal" if len(v[0] + v[1]) > 20 else "small"}


def d_root_namespaces(rng: random.Random) -> dict:
    """The root and the lookup directories against each other: the same name twice, names that differ by letter case, one inside the other."""
    k = rng.choice(["same-name", "same-name", "same-name-2", "letter-case", "nested-lookup", "nested-root", "lookup-is-root", "two-similar", "target-outside", "target-outside"])
    files = [["ns/A.1.0.dsdl", "uint8 a\n@sealed\n"]]
    root, lookups, opts, how = "ns", [], {}, None
    if k in ("same-name", "same-name-2", "letter-case") and rng.random() < 0.7:
        opts, how = {"no_collision": True}, "ns"
    if k == "same-name":
        files.append(["other/ns/B.1.0.dsdl", SEALED])
        lookups = ["other/ns"]
    elif k == "same-name-2":
        files += [["o1/lib/B.1.0.dsdl", SEALED], ["o2/lib/C.1.0.dsdl", SEALED]]
        lookups = ["o1/lib", "o2/lib"]
    elif k == "letter-case":
        files.append(["other/%s/B.1.0.dsdl" % rng.choice(["NS", "Ns", "nS"]), SEALED])
        lookups = [files[-1][0].rsplit("/", 1)[0]]
    elif k == "nested-lookup":
        files.append(["ns/sub/B.1.0.dsdl", SEALED])
        lookups = ["ns/sub"]
    elif k == "nested-root":
        files = [["lib/ns/A.1.0.dsdl", "uint8 a\n@sealed\n"], ["lib/B.1.0.dsdl", SEALED]]
        root, lookups = "lib/ns", ["lib"]
    elif k == "lookup-is-root":
        lookups = ["ns"] * rng.choice([1, 2])
    elif k == "target-outside":   # a file that lies under none of the roots
        out = rng.choice(["elsewhere/X.1.0.dsdl", "X.1.0.dsdl", "nss/X.1.0.dsdl", "elsewhere/ns_/sub/X.1.0.dsdl", "elsewhere/%s/X.1.0.dsdl" % ("d" * 200)])
        files.append([out, SEALED])
        opts, how = {"targets": [out] + (["ns/A.1.0.dsdl"] if rng.random() < 0.5 else [])}, "files"
    else:
        files += [["lib/B.1.0.dsdl", SEALED], ["lib_/B.1.0.dsdl", SEALED], ["Lib/C.1.0.dsdl", SEALED]]
        lookups = ["lib", "lib_", "Lib"]
        files[0][1] = rng.choice(["lib.B.1.0 b\n@sealed\n", "lib.C.1.0 b\n@sealed\n", "Lib.B.1.0 b\n@sealed\n", "libb.B.1.0 b\n@sealed\n"])
    case = {"files": files, "lookups": lookups, "root": root, "place": "roots", "diag": "roots:" + k, "mag": "small", "opts": opts}
    if how:
        case["how"] = how
    return case


def d_attribute_and_operator(rng: random.Random) -> dict:
    """Attributes that do not exist (with near misses at equal distance) and operators applied to operands they are not defined for."""
    mag, n_text, _n = _num(rng, xl=True)
    extra = HELPERS + [["ns/K.1.0.dsdl", "uint8 LIMIT1 = 1\nuint8 LIMIT2 = 2\nuint8 limit = 3\n@sealed\n"]]
    e = rng.choice([
        "ns.K.1.0.LIMIT", "ns.K.1.0.LIMIT3", "ns.K.1.0.Limit", "ns.K.1.0.%s" % ("L" * 10000), "ns.B.1.0.X", "ns.S.1.0.X", "ns.K.1.0.LIMIT1.min", "ns.K.1.0 + 1", "ns.K.1.0 == ns.K.1.0",
        "{1, 2}.mix", "{1, 2}.mean", "{1, 2}.Min", "{1, 2}.coun", "{%s}.m" % n_text, "'abc'.count", "true.min", "(%s).max" % n_text, "{%s, 1}.min.min" % n_text,
        "(%s) + 'a'" % n_text, "{%s} < 'a'" % n_text, "(%s) / 3 | 1" % n_text, "!(%s)" % n_text, "-'a'", "-{'a'}", "true + (%s)" % n_text,
        "{%s} + {1}" % n_text, "{%s, 'a'}" % n_text, "'a' * (%s)" % n_text, "(%s) && true" % n_text, "{1} || {2}", "0 ** -(3)",
    ] + ([] if mag == "xl" else ["(%s) / 0" % n_text, "(%s) %% 0" % n_text, "(%s) / ((%s) - (%s))" % (n_text, n_text, n_text)]))
    # NOTE: a division of a number of more than 4300 digits by zero is kept out: the text of that error quotes the dividend, i.e. it is
    # the known finding F12b again, but raised while ZeroDivisionError is being handled, which gives it another signature.
    use = rng.choice(["@assert %s == 1", "@assert %s", "uint8 Y = %s", "uint8[%s] f", "@print %s"]) % e
    case = _place(rng, use + "\n@sealed\n", extra)
    case.update({"diag": "expression", "mag": mag if n_text in e else "small"})
    case.pop("offending")       # a few of these are legitimate
    return case


def d_assertion(rng: random.Random) -> dict:
    mag, n_text, _n = _num(rng, xl=True)
    e = rng.choice(["false", "(%s) == (%s) + 1", "(%s) < (%s)", "{%s} == {1}", "(%s) / 3 * 3 != (%s)", "1 / (%s) > 1", "(%s) % 2 == 2", "!((%s) > 0)"]).replace("%s", n_text)
    body = rng.choice(["uint8 a\n@assert %s\n@sealed\n", "@assert %s\n@sealed\n", "uint8 a\n@sealed\n@assert %s\n"]) % e
    case = _place(rng, body)
    case.update({"diag": "assertion", "mag": mag if n_text in e else "small"})
    return case


def d_syntax(rng: random.Random) -> dict:
    """A syntax error at an extreme position: first / last character, the end of a file without a final line break, far to the right in
    a very long line, after thousands of lines, behind characters outside the BMP, behind unusual line breaks."""
    bad = rng.choice(["?", "uint8", "uint8 a b", "@", "= 1", "uint8 a =", "]", "uint8[ a", "'abc", "uint8 X = 'a", "1 +", "---x", "uint8 a;", "\x00", "\u00e9", "\U0001f600", "\ufeff"])
    k = rng.choice(["first", "last", "last-no-newline", "long-line", "long-comment", "many-lines", "astral-before", "odd-breaks", "only"])
    if k == "first":
        body = bad + "\nuint8 a\n@sealed\n"
    elif k == "last":
        body = "uint8 a\n@sealed\n" + bad + "\n"
    elif k == "last-no-newline":
        body = "uint8 a\n@sealed\n" + bad
    elif k == "long-line":
        body = "uint8 a" + " " * rng.choice([300, 5000, 30000]) + bad + "\n@sealed\n"
    elif k == "long-comment":
        body = "uint8 a # " + rng.choice(["x", "\u00e9", "\U0001f600"]) * rng.choice([300, 5000, 30000]) + "\n" + bad + "\n@sealed\n"
    elif k == "many-lines":
        body = rng.choice(["\n", "# c\n", "void8\n", "\r\n"]) * rng.choice([255, 256, 1000, 3000]) + bad + "\n@sealed\n"
    elif k == "astral-before":
        body = "# " + "\U0001f600\U0010ffff\u0301" * rng.choice([1, 50]) + "\nuint8 X = '\U0001f600' " + bad + "\n@sealed\n"
    elif k == "odd-breaks":
        body = "uint8 a" + rng.choice(["\r", "\x0b", "\x0c", "\x85", "\u2028", "\u2029", "\r\r\n", "\n\r"]) + bad + "\n@sealed\n"
    else:
        body = bad
    case = _place(rng, body)
    case.update({"diag": "syntax:" + k, "mag": "long-name" if len(body) > 1000 else "small"})
    if bad in ("\ufeff",) or k == "odd-breaks":
        case.pop("offending")
    return case


DIAGS = [(d_syntax, 3), (d_undefined_type, 7), (d_extent, 7), (d_version_consistency, 5), (d_constant, 4), (d_capacity, 4), (d_undefined_identifier, 3), (d_unknown_directive, 3),
         (d_directive_misuse, 4), (d_bit_length, 2), (d_names, 4), (d_union_and_aggregation, 4), (d_port_id, 3), (d_file_version, 1), (d_root_namespaces, 3),
         (d_attribute_and_operator, 4), (d_assertion, 2)]


def gen_diag(rng: random.Random, which=None) -> dict:
    f = which or rng.choices([d for d, _ in DIAGS], [w for _, w in DIAGS])[0]
    case = f(rng)
    case["kind"] = "diag"
    case.setdefault("how", rng.choice(DIAG_ENTRIES))
    root = case.get("root", "ns")
    inside = [f[0] for f in case["files"] if f[0].startswith(root + "/")]
    if case["how"] == "files1":
        off = [o for o in case.get("offending", []) if o in inside]
        case["target"] = rng.choice(off) if off and rng.random() < 0.5 else rng.choice(inside) if inside else case["files"][0][0]
    case["names"] = [f[0].rsplit("/", 1)[-1] for f in case["files"]]
    return case


def gen_case(rng: random.Random) -> dict:
    x = rng.random()
    if x < 0.03:
        return gen_unreadable(rng)
    if x < 0.28:
        for _ in range(20):
            text = mutate_tokens(rng.choice(BASES), rng)
            if not risky(text):
                break
        else:
            text = BASES[0]
        return {"kind": "tokmut", "files": HELPERS + [["ns/A.1.0.dsdl", text]]}
    if x < 0.45:
        for _ in range(20):
            text = pure_noise(rng) if rng.random() < 0.15 else add_noise(rng.choice(BASES), rng)
            if not risky(text):
                break
        else:
            text = BASES[0]
        return {"kind": "noise", "files": HELPERS + [["ns/A.1.0.dsdl", text]]}
    if x < 0.66:
        tree, ctx = arith_tree(rng)
        case = {"kind": "arith", "tree": tree, "ctx": ctx, "env": []}
        case["text"] = X.render(tree, rng, rng.choice([0.0, 0.2]), rng.choice([0.0, 0.5]))
        case["files"] = HELPERS + [["ns/A.1.0.dsdl", X.dsdl_text(case)]]
        return case
    if x < 0.70:
        return {"kind": "nest", "files": HELPERS + [["ns/A.1.0.dsdl", nest_text(rng)]]}
    if x < 0.78:
        return gen_constellation(rng)
    if x < 0.92:
        return gen_diag(rng)
    files = gen_names(rng)
    return {"kind": "names", "files": files, "names": [f[0].rsplit("/", 1)[-1] for f in files]}


# ------------------------------------------------------------------------------------------------ implementation side


def exception_origin(ex: BaseException) -> str:
    """`<class>@<module>.<function>` of the deepest exception of the chain, at its last frame inside pydsdl proper."""
    e = ex
    seen = 0
    while (e.__cause__ is not None or e.__context__ is not None) and seen < 20:
        e = e.__cause__ if e.__cause__ is not None else e.__context__
        seen += 1
    where = ""
    if not isinstance(e, RecursionError):
        tb = e.__traceback__
        pkg = str(common.REPO / "pydsdl")
        while tb is not None:
            fn = tb.tb_frame.f_code.co_filename
            if fn.startswith(pkg) and "third_party" not in fn:
                where = "%s.%s" % (Path(fn).stem, getattr(tb.tb_frame.f_code, "co_qualname", tb.tb_frame.f_code.co_name))
            tb = tb.tb_next
    msg = str(e)
    tag = ""
    if "integer string conversion" in msg:
        tag = "str->int" if "value has" in msg else "int->str"
    elif "from complex" in msg:
        tag = "complex"
    elif "Service types are not directly serializable" in msg:
        tag = "service"
    return "%s@%s%s" % (type(e).__name__, where, "#" + tag if tag else "")


NICE = [
    (r"^ValueError@_primitive\.Rational\.__init__#complex$", "Rational._power-complex"),
    (r"^OverflowError@_primitive\.Rational\._generic_arithmetic$", "Rational._power-overflow"),
    (r"^(OverflowError|ValueError)@_parser\._parse_string_literal", "string-escape-chr-range"),
    (r"^UnicodeEncodeError@_attribute\.Constant\.__init__$", "Constant-surrogate-encode"),
    (r"^ValueError@.*#str->int$", "literal-int-digit-limit"),
    (r"^ValueError@.*#int->str$", "int-to-str-digit-limit"),
    (r"^RecursionError@", "RecursionError"),
    (r"^TypeError@.*#service$", "service-type-as-field"),
    (r"^AssertionError@_namespace\._ensure_minor_version_compatibility_pairwise$", "same-name-and-version-twice"),
]


def nice_origin(origin: str) -> str:
    for pat, name in NICE:
        if re.search(pat, origin):
            return name
    return origin


def origin_name(case, impl) -> str:
    """Name of the place an exception came from.  The name of the known defect F9 (two files define one (name, version))
    is given only to inputs that do contain two such files: whatever else trips over the same internal check is something else."""
    name = nice_origin(impl.get("soft_origin", ""))
    if name == "same-name-and-version-twice" and not same_version_twice(case["files"]):
        return impl.get("soft_origin", "")
    return name


def run_files(files, how: str = "ns", target: typing.Optional[str] = None, root_name: str = "ns", lookups: typing.Sequence[str] = (),
              opts: typing.Optional[dict] = None) -> dict:
    """Read the namespace `ns` (or `root_name`) made of `files` the way a user would: default recursion limit, logging silenced.
    how: "ns" read_namespace(ns, lookups) | "files" read_files(all files of the root, [ns], lookups) | "files1" read_files([target], [ns], lookups).
    opts: {"targets": [relative paths] (for "files": these instead of all files of the root), "no_collision": true (read_namespace with
    allow_root_namespace_name_collision=False), "unregulated": true (allow_unregulated_fixed_port_id=True)}."""
    import logging
    import sys
    logging.disable(logging.CRITICAL)
    old = sys.getrecursionlimit()
    sys.setrecursionlimit(1000)
    try:
        return _run_files(files, how, target, root_name, list(lookups), opts or {})
    finally:
        sys.setrecursionlimit(old)


def _run_files(files, how: str = "ns", target: typing.Optional[str] = None, root_name: str = "ns", lookups: typing.Sequence[str] = (),
               opts: typing.Optional[dict] = None) -> dict:
    opts = opts or {}
    pydsdl = common.import_pydsdl()
    root = X.tmp_root() / "g"
    if root.exists():
        shutil.rmtree(root)
    root.mkdir()
    try:
        for rel, text in files:
            p = root / rel
            p.parent.mkdir(parents=True, exist_ok=True)
            if isinstance(text, dict):  # not a text: raw bytes, or a directory under the name of a definition file
                if text.get("dir"):
                    p.mkdir(parents=True, exist_ok=True)
                else:
                    p.write_bytes(bytes.fromhex(text["hex"]))
                continue
            p.write_bytes(text.encode("utf8", "replace"))
    except (OSError, ValueError) as ex:
        return {"cls": "unwritable", "soft_msg": str(ex)[:100]}
    ns = root / root_name
    look = [root / x for x in lookups]
    try:
        for d in [ns] + look:
            if not d.exists():
                d.mkdir(parents=True)
    except (OSError, ValueError) as ex:
        return {"cls": "unwritable", "soft_msg": str(ex)[:100]}
    try:
        unreg = bool(opts.get("unregulated"))
        if how == "ns":
            pydsdl.read_namespace(ns, look, print_output_handler=lambda p, l, t: None, allow_unregulated_fixed_port_id=unreg,
                                  allow_root_namespace_name_collision=not opts.get("no_collision"))
        else:
            rels = [rel for rel, text in files if not isinstance(text, dict) and rel.startswith(root_name + "/")]
            if how == "files1":
                rels = [target if target in rels else rels[0]] if rels else []
            elif opts.get("targets"):
                rels = list(opts["targets"])
            pydsdl.read_files([root / rel for rel in rels], [ns], look, print_output_handler=lambda p, l, t: None, allow_unregulated_fixed_port_id=unreg)
        return {"cls": "ok"}
    except pydsdl.InvalidDefinitionError as ex:
        p = getattr(ex, "path", None)
        ok = False
        named = None
        if p is not None:
            try:
                named = Path(p).resolve().relative_to(root.resolve()).as_posix()
                ok = True
            except ValueError:
                ok = False
        return {"cls": "invalid", "soft_exc": type(ex).__name__, "path_ok": ok, "path": named}
    except pydsdl.InternalError as ex:
        return {"cls": "internal", "soft_origin": exception_origin(ex), "soft_msg": urllib.parse.unquote(str(ex))[-300:]}
    except RecursionError as ex:
        return {"cls": "foreign:RecursionError", "soft_origin": "RecursionError@"}
    except Exception as ex:  # noqa
        return {"cls": "foreign:" + type(ex).__name__, "soft_origin": exception_origin(ex), "soft_msg": str(ex)[:300]}


def dependency_path_probe(files):
    """The same text, but first reached as a DEPENDENCY: it is stored as ns/Zq.1.0.dsdl and a valid ns/A.1.0.dsdl (which
    sorts first and is therefore read first) refers to it.  If Zq fails on its own, reading the namespace must fail
    with the path of Zq.  Deterministic subset of the cases (a function of the text), so that a case replays exactly."""
    texts = [t for rel, t in files if rel == "ns/A.1.0.dsdl"]
    if len(texts) != 1 or (len(texts[0]) + sum(map(ord, texts[0][:8]))) % 3 != 0:
        return None
    pydsdl = common.import_pydsdl()
    import logging
    logging.disable(logging.CRITICAL)
    root = X.tmp_root() / "gd"
    if root.exists():
        shutil.rmtree(root)
    root.mkdir()
    try:
        for rel, text in files:
            if rel == "ns/A.1.0.dsdl":
                rel = "ns/Zq.1.0.dsdl"
            p = root / rel
            p.parent.mkdir(parents=True, exist_ok=True)
            p.write_bytes(text.encode("utf8", "replace"))
        (root / "ns" / "A.1.0.dsdl").write_text("ns.Zq.1.0 z\n@sealed\n")
    except (OSError, ValueError):
        return None
    zq = (root / "ns" / "Zq.1.0.dsdl").resolve()
    try:
        pydsdl.read_files([zq], [root / "ns"], [], print_output_handler=lambda p, l, t: None)
        return None  # Zq is fine on its own: nothing to attribute
    except pydsdl.InvalidDefinitionError as ex:
        if ex.path is None or Path(ex.path).resolve() != zq:
            return None  # the fault is not in Zq itself (e.g. it lies in something Zq refers to)
    except Exception:
        return None
    try:
        pydsdl.read_namespace(root / "ns", [], print_output_handler=lambda p, l, t: None)
        return (False, "the namespace is accepted although Zq.1.0 fails on its own")
    except pydsdl.InvalidDefinitionError as ex:
        got = None if ex.path is None else Path(ex.path).resolve()
        return (got == zq, "path %s" % (None if got is None else got.name))
    except Exception as ex:  # judged by the main experiment
        return None


class GarbageSuite(common.Suite):
    name = "garbage"

    def generate(self, rng, n, prop, tier):
        return [gen_case(rng) for _ in range(n)]

    def corpus(self, prop):
        def one(text, kind="arith-text"):
            return {"kind": kind, "files": HELPERS + [["ns/A.1.0.dsdl", text]]}
        r = random.Random(3)
        out = [one(t) for t in [
            "@assert (-1) ** 0.5 == 1\n@sealed\n", "@print 1e400 ** 0.5\n@sealed\n", "@print 10.0 ** 1000.5\n@sealed\n",
            "@print '\\UFFFFFFFF'\n@sealed\n", "uint8 A = '\\ud800'\n@sealed\n",
            "ns.S.1.0 x\n@sealed\n", "ns.S.1.0[2] x\n@sealed\n", "@union\nns.S.1.0 a\nuint8 b\n@sealed\n",
            "@print " + "1" * 5000 + "\n@sealed\n", "@print " + "(" * 300 + "1" + ")" * 300 + "\n@sealed\n",
            "@print 10 ** 5000\n@sealed\n",
            "", "\n", "@sealed", "\x00", "\ufeff@sealed\n", "uint8 a\r\nuint8 b\r@sealed\n",
        ]]
        for text in BASES:
            out.append(one(text, "valid"))
        out.append({"kind": "names", "files": [["ns/A.1.0.dsdl", "uint8 a\n@sealed\n"], ["ns/7000.A.1.0.dsdl", "@sealed\n"]], "names": ["A.1.0.dsdl", "7000.A.1.0.dsdl"]})
        out.append({"kind": "names", "files": [["ns/A.1.0.dsdl", "@sealed\n"], ["ns/A.1.0.uavcan", "@sealed\n"]], "names": ["A.1.0.dsdl", "A.1.0.uavcan"]})
        _ = r
        # a fixed sample of every family of diagnostics (the same on every run, whatever VERIF_SEED is)
        for f, _w in DIAGS:
            rd = random.Random("diag-corpus/" + f.__name__)
            out += [gen_diag(rd, f) for _k in range(8)]
        return out

    def run_impl(self, case):
        try:
            out = run_files(case["files"], case.get("how", "ns"), case.get("target"), case.get("root", "ns"), case.get("lookups", []), case.get("opts"))
            dep = None if case.get("kind") == "diag" else dependency_path_probe(case["files"])
            if dep is not None:
                out["dep_path_ok"] = dep[0]
                out["soft_dep"] = dep[1]
            return out
        except Exception as ex:  # harness-side problem
            return {"cls": "harness:" + type(ex).__name__, "soft_msg": traceback.format_exc()[-400:]}

    def model_case(self, case):
        m = {"id": case["id"], "names": case.get("names", [])}
        if "tree" in case:
            m.update({"tree": case["tree"], "ctx": case["ctx"], "env": case.get("env", [])})
        return m

    def compare(self, case, impl, model, prop):
        if case.get("kind") == "unreadable":
            return None  # judged by the oracle only: the model predicts outcomes of texts and names
        pred = model.get("pred")
        if pred is None:
            return "model error: %s" % model.get("err")
        cls = impl.get("cls")
        if pred == "unmodelled" or cls == "unwritable":
            return None
        if pred == "internal":
            # a modelled hazard: the library either lets it through (the defect) or translates it into a rejection (the fix)
            return None if cls in ("internal", "invalid") else "hazard %s predicted, implementation: %s" % (model.get("soft_hazard"), cls)
        if pred == cls:
            return None
        return "model predicts %s, implementation: %s (%s)" % (pred, cls, impl.get("soft_origin") or impl.get("soft_exc"))

    def oracle(self, case, impl, prop):
        cls = impl.get("cls", "")
        if impl.get("dep_path_ok") is False:
            return "InvalidDefinitionError of a definition first reached as a dependency does not name that file (%s)" % impl.get("soft_dep")
        if cls in ("ok", "unwritable"):
            return None
        if cls == "invalid":
            if not impl.get("path_ok"):
                return "InvalidDefinitionError (%s) without the path of a file of the namespace" % impl.get("soft_exc")
            if case.get("offending") and impl.get("path") not in case["offending"]:
                # the namespace holds exactly one defect (or one defective pair): that is the file the error has to name
                return "InvalidDefinitionError (%s) names %s, the offending file is %s" % (impl.get("soft_exc"), impl.get("path"), " or ".join(case["offending"]))
            return None
        if cls == "internal":
            return "InternalError reached the caller [%s]: %s" % (origin_name(case, impl), impl.get("soft_msg", "")[-160:])
        return "%s reached the caller [%s]: %s" % (cls, origin_name(case, impl), impl.get("soft_msg", "")[:160])

    def signature(self, case, desc, prop):
        m = re.search(r"\[([^\]]*)\]", desc)
        origin = m.group(1) if m else ""
        if desc.startswith("InternalError"):
            return "%s/internal/%s" % (prop, origin)
        if desc.startswith("foreign:"):
            return "%s/foreign/%s" % (prop, origin or desc.split(" ")[0][8:])
        if desc.startswith("InvalidDefinitionError of a definition first reached"):
            return "%s/dependency-error-wrong-path" % prop
        if desc.startswith("InvalidDefinitionError") and " names " in desc and "the offending file is" in desc:
            return "%s/invalid-names-another-file" % prop
        if desc.startswith("InvalidDefinitionError"):
            return "%s/invalid-without-path" % prop
        if desc.startswith("hazard") or desc.startswith("model"):
            return "%s/model-disagreement" % prop
        return "%s/%s" % (prop, desc.split(" ")[0][:40])

    def shrink(self, case):
        if "tree" in case:
            for t in X.shrink_tree(case["tree"]):
                c = dict(case)
                c["tree"] = t
                c["text"] = X.render(t)
                c["files"] = HELPERS + [["ns/A.1.0.dsdl", X.dsdl_text(c)]]
                yield c
            return
        files = case["files"]
        if case.get("kind") == "unreadable":
            for i in range(len(files)):
                if not isinstance(files[i][1], dict) and len(files) > 1:
                    c = dict(case)
                    c["files"] = files[:i] + files[i + 1:]
                    yield c
            return
        if case.get("kind") == "diag":
            if case.get("how", "ns") != "ns":
                c = dict(case)
                c["how"] = "ns"
                c.pop("target", None)
                yield c
            keep = set(case.get("offending", [])) | {case.get("target")}
            for i in range(len(files)):
                if files[i][0] not in keep and len(files) > 1:
                    c = dict(case)
                    c["files"] = files[:i] + files[i + 1:]
                    yield c
            for i, (rel, text) in enumerate(files):
                lines = text.split("\n")
                if 2 < len(lines) <= 400:
                    for k in range(len(lines) - 1):
                        c = dict(case)
                        c["files"] = files[:i] + [[rel, "\n".join(lines[:k] + lines[k + 1:])]] + files[i + 1:]
                        yield c
            return
        if case.get("how", "ns") != "ns":
            c = dict(case)
            c["how"] = "ns"
            c.pop("target", None)
            yield c
        # drop files
        if len(files) > 1:
            for i in range(len(files)):
                c = dict(case)
                c["files"] = files[:i] + files[i + 1:]
                if "names" in case:
                    c["names"] = [f[0].rsplit("/", 1)[-1] for f in c["files"]]
                yield c
        # shrink the text of the last file: lines, then tokens, then halves of long tokens
        rel, text = files[-1]
        lines = text.split("\n")
        if len(lines) > 1:
            for i in range(len(lines)):
                c = dict(case)
                c["files"] = files[:-1] + [[rel, "\n".join(lines[:i] + lines[i + 1:])]]
                yield c
        toks = tokenize(text)
        if 1 < len(toks) <= 400:
            for i in range(len(toks)):
                c = dict(case)
                c["files"] = files[:-1] + [[rel, "".join(toks[:i] + toks[i + 1:])]]
                yield c
        for i, tk in enumerate(toks[:400]):
            if len(tk) > 8:
                c = dict(case)
                c["files"] = files[:-1] + [[rel, "".join(toks[:i] + [tk[: len(tk) // 2]] + toks[i + 1:])]]
                yield c

    def features(self, case, impl):
        yield "stream:" + case["kind"]
        yield "outcome:" + str(impl.get("cls"))
        if impl.get("soft_exc"):
            yield "rejected-as:" + impl["soft_exc"]
        if impl.get("soft_origin"):
            yield "origin:" + origin_name(case, impl)
        if case["kind"] == "diag":
            yield "entry:" + case.get("how", "ns")
            yield "diag:" + case.get("diag", "?")
            yield "diag-family:" + case.get("diag", "?").split(":")[0]
            yield "diag-magnitude:" + case.get("mag", "small")
            yield "diag-placement:" + case.get("place", "?")
            if case.get("cand"):
                for c in case["cand"].split("+"):
                    yield "diag-candidates:" + c
            if case.get("shape"):
                yield "diag-shape:" + case["shape"]
            yield "diag-reached:" + (impl.get("soft_exc") or str(impl.get("cls")))
        if case["kind"] == "constellation":
            yield "entry:" + case.get("how", "ns")
            for t in constellation_traits(case["files"]):
                yield "constellation:" + t
        text = case["files"][-1][1]
        if isinstance(text, dict):
            yield "unreadable:" + ("directory" if text.get("dir") else "bytes")
            return
        if any(ord(c) < 32 and c not in "\n\t" for c in text):
            yield "has-control-characters"
        if any(ord(c) > 127 for c in text):
            yield "has-non-ascii"

    def nontrivial(self, case, impl):
        return len(case["files"][-1][1]) > 0


SUITE = GarbageSuite()
