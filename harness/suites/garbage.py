"""
Suite `garbage` (C13): whatever is offered as a definition, reading ends with a type model or with an
InvalidDefinitionError that carries a path; InternalError and foreign exceptions never reach the caller.

Streams
  tokmut   token-level mutations (delete / duplicate / swap / replace) of valid definitions
  noise    random character noise, control characters, Unicode oddities inside valid definitions
  arith    targeted arithmetic corner cases as expression trees (roots of negatives, overflowing powers, out-of-range
           escapes, surrogates in constants, literals beyond CPython's digit limit); the Lean hazard model predicts these
  nest     deep nesting and very long chains
  names    arbitrary file names (and directory names) under the namespace directory, duplicates of one (name, version)
  constellation   valid definitions whose NAMES meet: a namespace named like a type next to it (and the other way round), types
           named like the synthetic sections of a service (`Request` / `Response`) inside a namespace named like that
           service, types named like their own namespace or the root, letter-case variants of directory and type names,
           further versions of one name (same or other kind), references between them (full, relative, in another letter
           case, to a section of a service); read with read_namespace, with read_files (all files) or with read_files (one
           target, the rest reached as dependencies)

Case:    {"kind", "files": [[relative path, text], ...], optional "tree"/"ctx"/"env"/"text" (arith), "names": [basenames],
          optional "how": "ns" | "files" | "files1" (entry point, default "ns"), "target": relative path (files1)}
Outcome: {"cls": "ok" | "invalid" | "internal" | "foreign:<cls>", soft_*}
Oracle:  the exception class itself: anything but ok / InvalidDefinitionError-with-path is a violation.
"""
from __future__ import annotations

import json
import os
import random
import re
import shutil
import traceback
import typing
import urllib.parse
from pathlib import Path

import common
from suites import expr as X

HELPERS = [
    ["ns/B.1.0.dsdl", "uint8 v\n@sealed\n"],
    ["ns/S.1.0.dsdl", "uint8 q\n@sealed\n---\nuint8 r\n@sealed\n"],
]

BASES = [
    "uint8 a\nint16[<=4] b\nfloat32 c\n@sealed\n",
    "# header comment\n\nuint8 VALUE = 2 ** 3 - 1\nbool flag\nvoid7\n@assert VALUE == 7\n@extent 64 * 8\n",
    "@union\nuint8 a\nfloat16[3] b\nns.B.1.0 c\n@sealed\n",
    "@deprecated\nns.B.1.0[<=2] items  # trailing comment\nB.1.0 rel\ntruncated uint3 x\nsaturated int5 y\n@print _offset_\n@assert _offset_.min >= 8\n@sealed",
    "uint8 req\n@sealed\n---\nfloat64 resp\n@extent 128\n",
    "float64 PI = 3.141_592\nuint8 CH = 'a'\nbool T = true && !false || false\nint32 N = -(0x10 + 0b11 * 0o7) % 5\n@print {1, 2, 3}.count\n"
    "@assert {'a', \"b\"} != {'a'}\nutf8[<=10] s\nbyte[4] raw\n@sealed\n",
    "uint8[<5] a\nbool[<=16] b\n@assert _offset_ % 8 == {0, 1, 2, 3, 4, 5, 6, 7}\n@extent 512\n",
    "@print 1.5e3 / 7 + .5\n@print 'x' + \"\\u0041\\n\"\nbool[<=2 ** 4] b\n@extent 1024\n",
    "int64 MIN = -2 ** 63\nuint64 MAX = 2 ** 64 - 1\nfloat16 H = 65504.0\n@assert MAX > MIN && (MIN < 0) == true\n@assert {1, 2} <= {1, 2, 3}\nvoid64\nuint1 bit\n@sealed\n",
]

TOKEN_RE = re.compile(r"""\r?\n|[ \t]+|\#[^\r\n]*|'(?:[^'\\\n]|\\.)*'|"(?:[^"\\\n]|\\.)*"|[A-Za-z_][A-Za-z0-9_]*|\d[\dA-Za-z_]*|---+|\*\*|\|\||&&|==|!=|<=|>=|.""", re.S)

VOCAB = ["@", "@sealed", "@union", "@extent", "@assert", "@print", "@deprecated", "@foo", "---", "uint8", "int8", "float16", "float32", "bool", "void3", "byte", "utf8",
         "truncated", "saturated", "ns", "B", "S", "ns.B.1.0", "ns.S.1.0", "S.1.0", "ns.Q.1.0", "A.1.0", "1", "0", "2", "255", "0x", "0b2", "1e", "1.", ".5", "1e400", "_offset_", "_", "x",
         "[", "]", "[<=", "[<", "(", ")", "{", "}", ",", ".", "=", "+", "-", "*", "/", "%", "**", "!", "||", "&&", "==", "!=", "<", "<=", ">", ">=", "|", "^", "&",
         "true", "false", "'a'", '"', "'", "'\\'", "'\\u12'", "#", " ", "\n", "\n\n", "\t", "min", "max", "count", "0.5", "-1", "**0.5", "uint65", "int1", "float17", "void0", "void65",
         "uint8[0]", "uint8[<=0]", "uint8[2**64]", "ns.S.1.0[2]", "ns.S.1.0[<=2]"]

NOISE = list("!\"#$%&'()*+,-./:;<=>?@[\\]^_`{|}~") + [chr(c) for c in range(0, 32)] + ["\x7f", "\x85", "\xa0", "\u2028", "\u2029", "\ufeff", "\u200b", "\u202e", "\u0301",
                                                                                       "\u0660", "\uff11", "\U0001f600", "\U0010ffff", "\u00e9", "\ufffd", "\u212a"]


_POW_OK = re.compile(r"\*\*[ \t]*-?[ \t]*(\d{1,2}|\.\d{1,3}|\d\.\d{1,3})(?![\w.]|[ \t]*\*\*)")


def risky(text: str) -> bool:
    """Texts on which evaluation may not terminate in practice (outside the bounded quantifier of the property):
    a power whose exponent is not a short literal, or the numerical expansion `_offset_` next to large numbers."""
    n_pow = text.count("**")
    if n_pow and len(_POW_OK.findall(text)) != n_pow:
        return True
    if "_offset_" in text and (n_pow or re.search(r"\d{4}|\de\d|0[xX][0-9a-fA-F]{4}|0[bB][01]{10}", text)):
        return True
    return False


def tokenize(text: str) -> typing.List[str]:
    return TOKEN_RE.findall(text)


def mutate_tokens(text: str, rng: random.Random) -> str:
    toks = tokenize(text)
    for _ in range(rng.choice([1, 1, 1, 2, 3])):
        if not toks:
            break
        i = rng.randrange(len(toks))
        m = rng.choice(["delete", "duplicate", "swap", "replace", "replace", "insert"])
        if m == "delete":
            del toks[i]
        elif m == "duplicate":
            toks.insert(i, toks[i])
        elif m == "swap":
            j = rng.randrange(len(toks))
            toks[i], toks[j] = toks[j], toks[i]
        elif m == "replace":
            toks[i] = rng.choice(VOCAB) if rng.random() < 0.7 else rng.choice(toks)
        else:
            toks.insert(i, rng.choice(VOCAB))
    return "".join(toks)


def add_noise(text: str, rng: random.Random) -> str:
    s = list(text)
    for _ in range(rng.choice([1, 1, 2, 3, 8])):
        i = rng.randrange(len(s) + 1)
        m = rng.random()
        c = rng.choice(NOISE)
        if m < 0.5:
            s.insert(i, c)
        elif m < 0.8 and i < len(s):
            s[i] = c
        elif i < len(s):
            del s[i]
    return "".join(s)


def pure_noise(rng: random.Random) -> str:
    n = rng.choice([0, 1, 2, 5, 20, 80])
    alphabet = NOISE + list("abcuint8 \n\n@=") + ["uint8 ", "@sealed\n"]
    return "".join(rng.choice(alphabet) for _ in range(n))


# ---- targeted arithmetic corner cases (as trees, so that the Lean hazard model predicts the outcome)


def _i(v, rng):
    return X.lit_int(v, rng) if v >= 0 else ["un", "neg", X.lit_int(-v, rng)]


def _real(text, num, den=1):
    return ["real", text, [num, den]]


def arith_tree(rng: random.Random):
    """(tree, ctx) of a corner case."""
    r = rng
    k = r.randrange(16)
    print_ctx = ["print"]
    if k == 0:    # root of a negative number
        base = r.choice([_i(-1, r), _i(-8, r), ["un", "neg", _real("2.5", 5, 2)], ["bin", "sub", _i(1, r), _i(r.randint(2, 9), r)]])
        return ["bin", "pow", base, r.choice([_real("0.5", 1, 2), _real(".25", 1, 4), _real("1.5", 3, 2), ["bin", "div", _i(1, r), _i(3, r)]])], print_ctx
    if k == 1:    # operands beyond the double range
        return ["bin", "pow", r.choice([_real("1e400", 10 ** 400), _real("1E+309", 10 ** 309), ["bin", "pow", _i(10, r), _i(400, r)]]),
                r.choice([_real("0.5", 1, 2), _real("1.5", 3, 2)])], print_ctx
    if k == 2:    # overflowing result (inexact for the model: unmodelled)
        return ["bin", "pow", _real("10.0", 10), r.choice([_real("1000.5", 2001, 2), _real("400.5", 801, 2)])], print_ctx
    if k == 3:    # exact corner cases of integer powers
        return ["bin", "pow", r.choice([_i(0, r), _real("0.0", 0), _i(2, r), _i(-2, r)]), r.choice([_i(-1, r), _i(0, r), _i(-3, r), _i(3, r)])], print_ctx
    if k == 4:    # division / modulo by zero in all spellings
        return ["bin", r.choice(["div", "mod"]), r.choice([_i(1, r), _real("1.5", 3, 2), ["set", [_i(1, r), _i(2, r)]]]),
                r.choice([_i(0, r), _real("0.0", 0), ["bin", "sub", _i(2, r), _i(2, r)]])], print_ctx
    if k == 5:    # escapes beyond Unicode
        h = r.choice(["FFFFFFFF", "00110000", "7FFFFFFF", "80000000", "0010FFFF", "00110001", "ffffffff"])
        v = int(h, 16)
        return ["str", "'\\U%s'" % h, [v] if v <= 0x10FFFF else None], print_ctx
    if k == 6:    # lone surrogates: printable, but not encodable in a constant
        cp = r.choice([0xD800, 0xDBFF, 0xDC00, 0xDFFF])
        t = ["str", r.choice(["'\\u%04x'", "\"\\U%08x\""]) % cp, [cp]]
        if r.random() < 0.3:
            return t, print_ctx
        n = r.choice([8, 8, 16, 7])
        ty = r.choice([["uint", n, "sat", "uint%d" % n], ["int", max(2, n), "sat", "int%d" % max(2, n)]])
        if r.random() < 0.3:
            t = ["bin", "add", t, X.lit_str(r, [97])]
        return t, ["const", ty]
    if k == 7:    # literals beyond CPython's integer-string conversion limit
        n = r.choice([4299, 4300, 4301, 5000])
        kind = r.random()
        if kind < 0.4:
            ds = "".join(r.choice("123456789") for _ in range(n))
            return ["int", ds, 0], r.choice([["cap", 0], ["print"]])
        if kind < 0.6:
            ds = "".join(r.choice("0123456789") for _ in range(n))
            return ["real", "0." + ds, [0, 1]], ["extent"]
        if kind < 0.8:
            ds = "1" * (n // 4 + 1)
            return ["int", "0x" + ds, 0], ["cap", 0]
        ds = "".join(r.choice("123456789") for _ in range(n))
        return ["bin", "gt", ["int", ds, 0], _i(0, r)], ["assert"]
    if k == 8:    # values beyond the limit of integer-to-string conversion, printed
        e = r.choice([4299, 4300, 4301, 6000])
        t = ["bin", "pow", _i(10, r), _i(e, r)]
        if r.random() < 0.4:
            t = ["bin", "div", _i(1, r), t]
        if r.random() < 0.3:
            t = ["set", [t, _i(1, r)]]
        return t, print_ctx
    if k == 9:    # empty / heterogeneous sets, min of unordered kinds
        return r.choice([
            ["set", []], ["set", [_i(1, r), ["bool", True]]], ["bin", "band", ["set", [_i(1, r)]], ["set", [_i(2, r)]]],
            ["attr", ["set", [["bool", True], ["bool", False]]], "min"], ["attr", ["set", [X.lit_str(r, [97]), X.lit_str(r, [98])]], "max"],
            ["bin", "bxor", ["set", [_i(1, r)]], ["set", [_i(1, r)]]], ["bin", "bor", ["set", [_i(1, r)]], ["set", [X.lit_str(r, [97])]]],
        ]), print_ctx
    if k == 10:   # malformed escapes
        return ["str", r.choice(["'\\z'", "'\\u12'", "'\\U0000'", "'\\u00zz'", "\"\\x41\"", "'\\8'"]), None], print_ctx
    if k == 11:   # bitwise on non-integers, huge shifts of meaning
        return ["bin", r.choice(X.BIT), r.choice([_real("1.5", 3, 2), _i(-7, r), _i(2 ** 70, r)]), r.choice([_real("0.5", 1, 2), _i(3, r), _i(-(2 ** 65), r)])], print_ctx
    if k == 12:   # constants exactly around a boundary with a hazard-free but extreme spelling
        return ["bin", "sub", ["bin", "pow", _i(2, r), _i(64, r)], _i(r.choice([0, 1]), r)], ["const", ["uint", 64, "sat", "uint64"]]
    if k == 13:   # comparison / logic on wrong kinds
        return ["bin", r.choice(["lt", "lor", "eq", "add"]), r.choice([["bool", True], X.lit_str(r, [97]), ["set", [_i(1, r)]]]), r.choice([_i(1, r), ["bool", False]])], print_ctx
    if k == 14:   # zero-sized and negative capacities, non-integral extents
        return r.choice([_i(0, r), _i(-1, r), _real("1.5", 3, 2), ["bool", True], _i(2 ** 64, r), _i(2 ** 64 - 1, r)]), r.choice([["cap", 0], ["cap", 1], ["cap", 2], ["extent"]])
    # a fractional power of a positive number (inexact: unmodelled, but it must not crash)
    return ["bin", "pow", r.choice([_i(2, r), _real("0.5", 1, 2), _i(0, r)]), r.choice([_real("0.5", 1, 2), ["un", "neg", _real("0.5", 1, 2)]])], print_ctx


def nest_text(rng: random.Random) -> str:
    k = rng.randrange(5)
    n = rng.choice([2, 5, 10, 10, 20, 20, 30, 30, 50, 100, 300])
    if k == 0:
        return "@print " + "(" * n + "1" + ")" * n + "\n@sealed\n"
    if k == 1:
        return "@print " + "-(" * n + "1" + ")" * n + "\n@sealed\n"
    if k == 2:
        return "@print " + "!" * n + "true\n@sealed\n"
    if k == 3:
        return "@print " + " + ".join(["1"] * (n * 5)) + "\n@sealed\n"
    return "@print " + "{" * n + "1" + "}" * n + "\n@sealed\n"


NAME_PARTS = ["A", "B", "a", "_", "A1", "1A", "", "7000", "0", "-1", "+1", "1_0", " 1", "1 ", "٣", "１", "1.0", "x", "65536", "99999999999999999999", "1e3", "0x1", "é", "Ω", " ",
              "\t", "\n", "..", "A.B", "A-B", "uint8", "ns", "S", "\u202e", "\x01", "A" * 100,
              # characters that str.isdigit() / isnumeric() accept but int() does not (superscripts, circled digits, fractions,
              # Roman numerals) and decimal digits of other scripts that int() does accept
              "\u00b2", "\u2460", "\u00bd", "\u2163", "\u0e53", "\U0001d7d9", "\u2070", "1\u00b2", "\u00b21"]


def gen_names(rng: random.Random) -> typing.List[typing.List[str]]:
    """Files of a namespace with arbitrary names (every file holds a valid definition)."""
    files = []
    bodies = ["uint8 v\n@sealed\n", "@sealed\n", "uint16 w\n@extent 64\n", "uint8 q\n@sealed\n---\n@sealed\n"]
    for _ in range(rng.choice([1, 1, 2, 3])):
        x = rng.random()
        if x < 0.5:
            parts = [rng.choice(NAME_PARTS) for _ in range(rng.choice([3, 3, 4, 4, 2, 5, 1]))]
            base = ".".join(parts) + rng.choice([".dsdl", ".dsdl", ".dsdl", ".uavcan", ".DSDL", ".dsdl.dsdl", ""])
        elif x < 0.7:
            base = "%s.%s.%s.dsdl" % (rng.choice(["A", "Q", "q", "A_", "_A", "A1"]), rng.choice(["0", "1", "255", "256", "-1", "1_0", "+1", " 1", "\u00b2", "\u2460", "\u0e53"]), rng.choice(["0", "1", "255", "256", "00", "\u00b2", "\u2461", "1\u00b3"]))
        elif x < 0.85:
            base = "%s.%s.1.0.dsdl" % (rng.choice(["0", "1", "7000", "7509", "8191", "8192", "65535", "-1", "1e3", "x", "511", "512", "\u00b2", "7\u2070\u2070\u2070", "\u2460"]), rng.choice(["A", "Q"]))
        else:
            base = rng.choice(["A.1.0.dsdl", "7000.A.1.0.dsdl", "A.1.0.uavcan", "a.1.0.dsdl", "A.1.1.dsdl", "A.01.0.dsdl", "A.1.00.dsdl"])
        base = base.replace("/", "_").replace("\x00", "_")
        if not base or base in (".", "..") or len(base.encode("utf8", "replace")) > 200:
            base = "A.1.0.dsdl"
        sub = rng.choice(["", "", "", "sub/", "sub.dir/", "1sub/", "_/", "sub/deeper/", " /", "Ω/"])
        rel = "ns/" + sub + base
        if all(rel != f[0] for f in files):
            files.append([rel, rng.choice(bodies)])
    if rng.random() < 0.3:   # the same (name, version) twice
        twin = rng.choice([("ns/A.1.0.dsdl", "ns/7000.A.1.0.dsdl"), ("ns/A.1.0.dsdl", "ns/A.1.0.uavcan"), ("ns/sub/A.1.0.dsdl", "ns/sub/7001.A.1.0.dsdl"),
                           ("ns/A.1.0.dsdl", "ns/a.1.0.dsdl"), ("ns/A.1.0.dsdl", "ns/A.01.0.dsdl")])
        for rel in twin:
            if all(rel != f[0] for f in files):
                files.append([rel, rng.choice(bodies)])
    return files


# ---- name constellations: every file is a valid definition; what is unusual is how the names relate to each other

STEMS = ["Svc", "Msg", "Request", "Response", "ns", "sub", "A", "Bq", "Q"]
SECTION_NAMES = ["Request", "Response"]
MESSAGE_BODIES = ["uint8 v\n@sealed\n", "@sealed\n", "uint16 w\n@extent 64\n", "@union\nuint8 a\nfloat16 b\n@sealed\n", "bool[<=9] x\n@extent 1024\n"]
SERVICE_BODIES = ["uint8 q\n@sealed\n---\n@sealed\n", "@sealed\n---\n@sealed\n", "uint64 a\n@extent 1024\n---\nuint8 b\n@sealed\n", "@extent 64\n---\nuint8 r\n@extent 64\n",
                  "uint8 q\n@sealed\n---\nuint16 w\n@extent 64\n"]


def _case_variant(rng: random.Random, s: str, p: float) -> str:
    if rng.random() >= p:
        return s
    return rng.choice([s.lower(), s.upper(), s.capitalize(), s.swapcase(), s[:1].lower() + s[1:]])


def gen_constellation(rng: random.Random) -> dict:
    pool = rng.sample(STEMS, rng.choice([2, 3, 3, 4]))

    def name() -> str:
        return _case_variant(rng, rng.choice(pool), 0.15)

    def version_near(v):
        x = rng.random()
        if x < 0.6:
            return v
        if x < 0.85:
            return (v[0], rng.choice([0, 1, 2, 3]) if v[0] else rng.choice([1, 2, 3]))
        return (rng.choice([1, 2]), rng.choice([v[1], 0, 1]))

    def new(dirs, short, ver, service=None, refs=None):
        service = (rng.random() < 0.4) if service is None else service
        pid = None
        if rng.random() < 0.15:
            pid = rng.choice([300, 256, 383, 300, 100] if service else [7000, 7001, 6200, 6144, 100])   # vendor-specific regulated ranges, and one outside
        return {"dirs": list(dirs), "short": short, "ver": ver, "service": service, "pid": pid, "ext": ".uavcan" if rng.random() < 0.05 else ".dsdl",
                "body": rng.choice(SERVICE_BODIES if service else MESSAGE_BODIES), "refs": refs or []}

    def full(d) -> str:
        return ".".join(["ns"] + d["dirs"] + [d["short"]])

    defs = [new([name() for _ in range(rng.choice([0, 0, 0, 1, 1, 2]))], name(), rng.choice([(0, 1), (0, 2), (1, 0), (1, 0), (1, 0), (1, 1), (1, 3), (2, 0), (2, 1)]))]
    for _ in range(rng.choice([1, 1, 2, 2, 3, 4])):
        d = rng.choice(defs)
        t = rng.choice(["nested", "nested", "lifted", "like-namespace", "case", "version", "sibling", "referrer", "referrer", "twin"])
        if t == "nested":       # a namespace named like the type d, holding a type named like a section / like d / like anything
            short = rng.choice([rng.choice(SECTION_NAMES), rng.choice(SECTION_NAMES), d["short"], name()])
            defs.append(new(d["dirs"] + [_case_variant(rng, d["short"], 0.15)], _case_variant(rng, short, 0.1), version_near(d["ver"])))
        elif t == "lifted":     # a type named like the namespace d lives in, next to that namespace
            if d["dirs"]:
                defs.append(new(d["dirs"][:-1], _case_variant(rng, d["dirs"][-1], 0.15), version_near(d["ver"])))
            else:
                defs.append(new([], "ns", version_near(d["ver"])))
        elif t == "like-namespace":   # a type named like its own namespace
            defs.append(new(d["dirs"], d["dirs"][-1] if d["dirs"] else "ns", version_near(d["ver"])))
        elif t == "case":       # the same place in another letter case
            dirs = [_case_variant(rng, x, 0.5) for x in d["dirs"]]
            defs.append(new(dirs, _case_variant(rng, d["short"], 0.7), version_near(d["ver"]), service=d["service"] if rng.random() < 0.7 else None))
        elif t == "version":    # another version of the same name, of the same kind or not
            v = (d["ver"][0], d["ver"][1] + rng.choice([1, 2])) if rng.random() < 0.7 else (d["ver"][0] + 1, rng.choice([0, d["ver"][1]]))
            e = new(d["dirs"], d["short"], v, service=d["service"] if rng.random() < 0.75 else None)
            if rng.random() < 0.7:
                e["body"], e["pid"] = d["body"], d["pid"]
            defs.append(e)
        elif t == "sibling":
            defs.append(new(d["dirs"], name(), version_near(d["ver"])))
        elif t == "twin":       # the same (name, version) under another file name
            if rng.random() < 0.2:
                e = dict(d)
                e["twin"] = True
                e["pid"], e["ext"] = (7000 if d["pid"] is None and not d["service"] else None), rng.choice([".dsdl", ".uavcan"])
                e["body"] = d["body"] if rng.random() < 0.5 else rng.choice(SERVICE_BODIES if d["service"] else MESSAGE_BODIES)
                defs.append(e)
        else:                   # a definition that refers to the others
            refs = []
            for _k in range(rng.choice([1, 1, 2])):
                g = rng.choice(defs)
                n = full(g)
                x = rng.random()
                if x < 0.2:
                    n = n + "." + rng.choice(SECTION_NAMES)        # the synthetic name of a section
                elif x < 0.35:
                    n = _case_variant(rng, n, 1.0)
                v = g["ver"] if rng.random() < 0.8 else version_near(g["ver"])
                refs.append([n, v, g["dirs"]])
            where = rng.choice([d["dirs"], d["dirs"], [], d["dirs"] + [d["short"]]])
            e = new(where, rng.choice(["Zr", "Zr", name()]), version_near(d["ver"]), service=rng.random() < 0.2)
            lines = []
            for i, (n, v, gdirs) in enumerate(refs):
                if gdirs == e["dirs"] and rng.random() < 0.4:
                    n = n.rsplit(".", 1)[-1] if n.count(".") == len(gdirs) + 1 else n     # relative reference
                lines.append("%s.%d.%d%s r%d" % (n, v[0], v[1], rng.choice(["", "", "[<=2]", "[3]"]), i))
            tail = ["@sealed\n", "@extent 8192\n"]
            e["body"] = "\n".join(lines) + "\n" + (rng.choice(tail) + "---\n" + rng.choice(tail) if e["service"] else rng.choice(tail))
            defs.append(e)
    files = []
    seen = set()
    for d in defs:
        key = (tuple(d["dirs"]), d["short"], d["ver"])
        if key in seen and not d.get("twin"):
            continue          # one file per (name, version), except where two are meant
        seen.add(key)
        rel = "/".join(["ns"] + d["dirs"] + ["%s%s.%d.%d%s" % ("" if d["pid"] is None else "%d." % d["pid"], d["short"], d["ver"][0], d["ver"][1], d["ext"])])
        if all(rel != f[0] for f in files):
            files.append([rel, d["body"]])
    how = rng.choice(["ns", "ns", "files", "files1"])
    case = {"kind": "constellation", "files": files, "names": [f[0].rsplit("/", 1)[-1] for f in files], "how": how}
    if how == "files1":
        case["target"] = rng.choice(files)[0]
    return case


def definition_key(rel: str):
    """(namespace path, short name, major, minor) a definition file stands for by its path, or None."""
    parts = rel.split("/")
    base = parts[-1]
    for ext in (".dsdl", ".uavcan"):
        if base.endswith(ext):
            comps = base[: -len(ext)].split(".")
            break
    else:
        return None
    if len(comps) not in (3, 4):
        return None

    def num(x: str):
        return int(x) if x.isascii() and x.isdigit() else x

    return ("/".join(parts[:-1]), comps[-3], num(comps[-2]), num(comps[-1]))


def same_version_twice(files) -> bool:
    """Two files of the case define the same (full name, major, minor)."""
    keys = [k for k in (definition_key(f[0]) for f in files) if k is not None]
    return len(set(keys)) != len(keys)


def constellation_traits(files) -> typing.Set[str]:
    out = set()
    keys = [k for k in (definition_key(f[0]) for f in files) if k is not None]
    fulls = {k[0] + "/" + k[1] for k in keys}
    dirs = {k[0] for k in keys}
    services = {f[0].rsplit("/", 1)[0] + "/" + definition_key(f[0])[1] for f in files if definition_key(f[0]) is not None and isinstance(f[1], str) and "\n---" in "\n" + f[1]}
    if fulls & dirs:
        out.add("namespace-named-like-a-type")
    if any(k[1] in SECTION_NAMES and k[0] in services for k in keys):
        out.add("section-name-inside-namespace-named-like-a-service")
    if any(k[0].rsplit("/", 1)[-1] == k[1] for k in keys):
        out.add("type-named-like-its-namespace")
    low = {}
    for x in fulls | dirs:
        low.setdefault(x.lower(), set()).add(x)
    if any(len(v) > 1 for v in low.values()):
        out.add("letter-case-variants")
    if same_version_twice(files):
        out.add("same-name-and-version-twice")
    if len({(k[0], k[1]) for k in keys}) < len(set(keys)):
        out.add("several-versions-of-a-name")
    return out


UNREADABLE = [
    {"hex": "232063616621e90a407365616c65640a"},          # Latin-1 text
    {"hex": "80"}, {"hex": "40736561" + "6c6564e2820a"},  # lone continuation byte, truncated sequence
    {"hex": "c0af0a407365616c65640a"},                    # overlong form
    {"hex": "eda0800a407365616c65640a"},                  # encoded surrogate
    {"hex": "fffe40007300650061006c00650064000a00"},      # UTF-16 with BOM
    {"hex": "ff" * 40},
    {"dir": True},
]


def gen_unreadable(rng: random.Random) -> dict:
    """A namespace in which one definition file cannot be loaded as text at all (undecodable bytes, a directory under its
    name), alone or first reached through a reference from a definition that sorts before it."""
    bad = rng.choice(["Zq.1.0.dsdl", "Zq.1.0.dsdl", "7000.Zq.1.0.dsdl", "sub/Zq.1.0.dsdl", "Zq.1.0.uavcan"])
    files = [["ns/" + bad, rng.choice(UNREADABLE)]]
    if rng.random() < 0.6:
        ref = "ns.sub.Zq.1.0" if bad.startswith("sub/") else "ns.Zq.1.0"
        files.insert(0, ["ns/A.1.0.dsdl", "%s z\n@sealed\n" % ref])
    if rng.random() < 0.4:
        files.append(["ns/B.1.0.dsdl", "uint8 b\n@sealed\n"])
    return {"kind": "unreadable", "files": files}


def gen_case(rng: random.Random) -> dict:
    x = rng.random()
    if x < 0.03:
        return gen_unreadable(rng)
    if x < 0.31:
        for _ in range(20):
            text = mutate_tokens(rng.choice(BASES), rng)
            if not risky(text):
                break
        else:
            text = BASES[0]
        return {"kind": "tokmut", "files": HELPERS + [["ns/A.1.0.dsdl", text]]}
    if x < 0.51:
        for _ in range(20):
            text = pure_noise(rng) if rng.random() < 0.15 else add_noise(rng.choice(BASES), rng)
            if not risky(text):
                break
        else:
            text = BASES[0]
        return {"kind": "noise", "files": HELPERS + [["ns/A.1.0.dsdl", text]]}
    if x < 0.75:
        tree, ctx = arith_tree(rng)
        case = {"kind": "arith", "tree": tree, "ctx": ctx, "env": []}
        case["text"] = X.render(tree, rng, rng.choice([0.0, 0.2]), rng.choice([0.0, 0.5]))
        case["files"] = HELPERS + [["ns/A.1.0.dsdl", X.dsdl_text(case)]]
        return case
    if x < 0.79:
        return {"kind": "nest", "files": HELPERS + [["ns/A.1.0.dsdl", nest_text(rng)]]}
    if x < 0.88:
        return gen_constellation(rng)
    files = gen_names(rng)
    return {"kind": "names", "files": files, "names": [f[0].rsplit("/", 1)[-1] for f in files]}


# ------------------------------------------------------------------------------------------------ implementation side


def exception_origin(ex: BaseException) -> str:
    """`<class>@<module>.<function>` of the deepest exception of the chain, at its last frame inside pydsdl proper."""
    e = ex
    seen = 0
    while (e.__cause__ is not None or e.__context__ is not None) and seen < 20:
        e = e.__cause__ if e.__cause__ is not None else e.__context__
        seen += 1
    where = ""
    if not isinstance(e, RecursionError):
        tb = e.__traceback__
        pkg = str(common.REPO / "pydsdl")
        while tb is not None:
            fn = tb.tb_frame.f_code.co_filename
            if fn.startswith(pkg) and "third_party" not in fn:
                where = "%s.%s" % (Path(fn).stem, getattr(tb.tb_frame.f_code, "co_qualname", tb.tb_frame.f_code.co_name))
            tb = tb.tb_next
    msg = str(e)
    tag = ""
    if "integer string conversion" in msg:
        tag = "str->int" if "value has" in msg else "int->str"
    elif "from complex" in msg:
        tag = "complex"
    elif "Service types are not directly serializable" in msg:
        tag = "service"
    return "%s@%s%s" % (type(e).__name__, where, "#" + tag if tag else "")


NICE = [
    (r"^ValueError@_primitive\.Rational\.__init__#complex$", "Rational._power-complex"),
    (r"^OverflowError@_primitive\.Rational\._generic_arithmetic$", "Rational._power-overflow"),
    (r"^(OverflowError|ValueError)@_parser\._parse_string_literal", "string-escape-chr-range"),
    (r"^UnicodeEncodeError@_attribute\.Constant\.__init__$", "Constant-surrogate-encode"),
    (r"^ValueError@.*#str->int$", "literal-int-digit-limit"),
    (r"^ValueError@.*#int->str$", "int-to-str-digit-limit"),
    (r"^RecursionError@", "RecursionError"),
    (r"^TypeError@.*#service$", "service-type-as-field"),
    (r"^AssertionError@_namespace\._ensure_minor_version_compatibility_pairwise$", "same-name-and-version-twice"),
]


def nice_origin(origin: str) -> str:
    for pat, name in NICE:
        if re.search(pat, origin):
            return name
    return origin


def origin_name(case, impl) -> str:
    """Name of the place an exception came from.  The name of the known defect F9 (two files define one (name, version))
    is given only to inputs that do contain two such files: whatever else trips over the same internal check is something else."""
    name = nice_origin(impl.get("soft_origin", ""))
    if name == "same-name-and-version-twice" and not same_version_twice(case["files"]):
        return impl.get("soft_origin", "")
    return name


def run_files(files, how: str = "ns", target: typing.Optional[str] = None) -> dict:
    """Read the namespace `ns` made of `files` the way a user would: default recursion limit, logging silenced.
    how: "ns" read_namespace(ns) | "files" read_files(all files, [ns]) | "files1" read_files([target], [ns])."""
    import logging
    import sys
    logging.disable(logging.CRITICAL)
    old = sys.getrecursionlimit()
    sys.setrecursionlimit(1000)
    try:
        return _run_files(files, how, target)
    finally:
        sys.setrecursionlimit(old)


def _run_files(files, how: str = "ns", target: typing.Optional[str] = None) -> dict:
    pydsdl = common.import_pydsdl()
    root = X.tmp_root() / "g"
    if root.exists():
        shutil.rmtree(root)
    root.mkdir()
    try:
        for rel, text in files:
            p = root / rel
            p.parent.mkdir(parents=True, exist_ok=True)
            if isinstance(text, dict):  # not a text: raw bytes, or a directory under the name of a definition file
                if text.get("dir"):
                    p.mkdir(parents=True, exist_ok=True)
                else:
                    p.write_bytes(bytes.fromhex(text["hex"]))
                continue
            p.write_bytes(text.encode("utf8", "replace"))
    except (OSError, ValueError) as ex:
        return {"cls": "unwritable", "soft_msg": str(ex)[:100]}
    ns = root / "ns"
    if not ns.exists():
        ns.mkdir()
    try:
        if how == "ns":
            pydsdl.read_namespace(ns, [], print_output_handler=lambda p, l, t: None)
        else:
            rels = [rel for rel, text in files if not isinstance(text, dict)]
            if how == "files1":
                rels = [target if target in rels else rels[0]]
            pydsdl.read_files([root / rel for rel in rels], [ns], [], print_output_handler=lambda p, l, t: None)
        return {"cls": "ok"}
    except pydsdl.InvalidDefinitionError as ex:
        p = getattr(ex, "path", None)
        ok = False
        if p is not None:
            try:
                Path(p).resolve().relative_to(root.resolve())
                ok = True
            except ValueError:
                ok = False
        return {"cls": "invalid", "soft_exc": type(ex).__name__, "path_ok": ok}
    except pydsdl.InternalError as ex:
        return {"cls": "internal", "soft_origin": exception_origin(ex), "soft_msg": urllib.parse.unquote(str(ex))[-300:]}
    except RecursionError as ex:
        return {"cls": "foreign:RecursionError", "soft_origin": "RecursionError@"}
    except Exception as ex:  # noqa
        return {"cls": "foreign:" + type(ex).__name__, "soft_origin": exception_origin(ex), "soft_msg": str(ex)[:300]}


def dependency_path_probe(files):
    """The same text, but first reached as a DEPENDENCY: it is stored as ns/Zq.1.0.dsdl and a valid ns/A.1.0.dsdl (which
    sorts first and is therefore read first) refers to it.  If Zq fails on its own, reading the namespace must fail
    with the path of Zq.  Deterministic subset of the cases (a function of the text), so that a case replays exactly."""
    texts = [t for rel, t in files if rel == "ns/A.1.0.dsdl"]
    if len(texts) != 1 or (len(texts[0]) + sum(map(ord, texts[0][:8]))) % 3 != 0:
        return None
    pydsdl = common.import_pydsdl()
    import logging
    logging.disable(logging.CRITICAL)
    root = X.tmp_root() / "gd"
    if root.exists():
        shutil.rmtree(root)
    root.mkdir()
    try:
        for rel, text in files:
            if rel == "ns/A.1.0.dsdl":
                rel = "ns/Zq.1.0.dsdl"
            p = root / rel
            p.parent.mkdir(parents=True, exist_ok=True)
            p.write_bytes(text.encode("utf8", "replace"))
        (root / "ns" / "A.1.0.dsdl").write_text("ns.Zq.1.0 z\n@sealed\n")
    except (OSError, ValueError):
        return None
    zq = (root / "ns" / "Zq.1.0.dsdl").resolve()
    try:
        pydsdl.read_files([zq], [root / "ns"], [], print_output_handler=lambda p, l, t: None)
        return None  # Zq is fine on its own: nothing to attribute
    except pydsdl.InvalidDefinitionError as ex:
        if ex.path is None or Path(ex.path).resolve() != zq:
            return None  # the fault is not in Zq itself (e.g. it lies in something Zq refers to)
    except Exception:
        return None
    try:
        pydsdl.read_namespace(root / "ns", [], print_output_handler=lambda p, l, t: None)
        return (False, "the namespace is accepted although Zq.1.0 fails on its own")
    except pydsdl.InvalidDefinitionError as ex:
        got = None if ex.path is None else Path(ex.path).resolve()
        return (got == zq, "path %s" % (None if got is None else got.name))
    except Exception as ex:  # judged by the main experiment
        return None


class GarbageSuite(common.Suite):
    name = "garbage"

    def generate(self, rng, n, prop, tier):
        return [gen_case(rng) for _ in range(n)]

    def corpus(self, prop):
        def one(text, kind="arith-text"):
            return {"kind": kind, "files": HELPERS + [["ns/A.1.0.dsdl", text]]}
        r = random.Random(3)
        out = [one(t) for t in [
            "@assert (-1) ** 0.5 == 1\n@sealed\n", "@print 1e400 ** 0.5\n@sealed\n", "@print 10.0 ** 1000.5\n@sealed\n",
            "@print '\\UFFFFFFFF'\n@sealed\n", "uint8 A = '\\ud800'\n@sealed\n",
            "ns.S.1.0 x\n@sealed\n", "ns.S.1.0[2] x\n@sealed\n", "@union\nns.S.1.0 a\nuint8 b\n@sealed\n",
            "@print " + "1" * 5000 + "\n@sealed\n", "@print " + "(" * 300 + "1" + ")" * 300 + "\n@sealed\n",
            "@print 10 ** 5000\n@sealed\n",
            "", "\n", "@sealed", "\x00", "\ufeff@sealed\n", "uint8 a\r\nuint8 b\r@sealed\n",
        ]]
        for text in BASES:
            out.append(one(text, "valid"))
        out.append({"kind": "names", "files": [["ns/A.1.0.dsdl", "uint8 a\n@sealed\n"], ["ns/7000.A.1.0.dsdl", "@sealed\n"]], "names": ["A.1.0.dsdl", "7000.A.1.0.dsdl"]})
        out.append({"kind": "names", "files": [["ns/A.1.0.dsdl", "@sealed\n"], ["ns/A.1.0.uavcan", "@sealed\n"]], "names": ["A.1.0.dsdl", "A.1.0.uavcan"]})
        _ = r
        return out

    def run_impl(self, case):
        try:
            out = run_files(case["files"], case.get("how", "ns"), case.get("target"))
            dep = dependency_path_probe(case["files"])
            if dep is not None:
                out["dep_path_ok"] = dep[0]
                out["soft_dep"] = dep[1]
            return out
        except Exception as ex:  # harness-side problem
            return {"cls": "harness:" + type(ex).__name__, "soft_msg": traceback.format_exc()[-400:]}

    def model_case(self, case):
        m = {"id": case["id"], "names": case.get("names", [])}
        if "tree" in case:
            m.update({"tree": case["tree"], "ctx": case["ctx"], "env": case.get("env", [])})
        return m

    def compare(self, case, impl, model, prop):
        if case.get("kind") == "unreadable":
            return None  # judged by the oracle only: the model predicts outcomes of texts and names
        pred = model.get("pred")
        if pred is None:
            return "model error: %s" % model.get("err")
        cls = impl.get("cls")
        if pred == "unmodelled" or cls == "unwritable":
            return None
        if pred == "internal":
            # a modelled hazard: the library either lets it through (the defect) or translates it into a rejection (the fix)
            return None if cls in ("internal", "invalid") else "hazard %s predicted, implementation: %s" % (model.get("soft_hazard"), cls)
        if pred == cls:
            return None
        return "model predicts %s, implementation: %s (%s)" % (pred, cls, impl.get("soft_origin") or impl.get("soft_exc"))

    def oracle(self, case, impl, prop):
        cls = impl.get("cls", "")
        if impl.get("dep_path_ok") is False:
            return "InvalidDefinitionError of a definition first reached as a dependency does not name that file (%s)" % impl.get("soft_dep")
        if cls in ("ok", "unwritable"):
            return None
        if cls == "invalid":
            if not impl.get("path_ok"):
                return "InvalidDefinitionError (%s) without the path of a file of the namespace" % impl.get("soft_exc")
            return None
        if cls == "internal":
            return "InternalError reached the caller [%s]: %s" % (origin_name(case, impl), impl.get("soft_msg", "")[-160:])
        return "%s reached the caller [%s]: %s" % (cls, origin_name(case, impl), impl.get("soft_msg", "")[:160])

    def signature(self, case, desc, prop):
        m = re.search(r"\[([^\]]*)\]", desc)
        origin = m.group(1) if m else ""
        if desc.startswith("InternalError"):
            return "%s/internal/%s" % (prop, origin)
        if desc.startswith("foreign:"):
            return "%s/foreign/%s" % (prop, origin or desc.split(" ")[0][8:])
        if desc.startswith("InvalidDefinitionError of a definition first reached"):
            return "%s/dependency-error-wrong-path" % prop
        if desc.startswith("InvalidDefinitionError"):
            return "%s/invalid-without-path" % prop
        if desc.startswith("hazard") or desc.startswith("model"):
            return "%s/model-disagreement" % prop
        return "%s/%s" % (prop, desc.split(" ")[0][:40])

    def shrink(self, case):
        if "tree" in case:
            for t in X.shrink_tree(case["tree"]):
                c = dict(case)
                c["tree"] = t
                c["text"] = X.render(t)
                c["files"] = HELPERS + [["ns/A.1.0.dsdl", X.dsdl_text(c)]]
                yield c
            return
        files = case["files"]
        if case.get("kind") == "unreadable":
            for i in range(len(files)):
                if not isinstance(files[i][1], dict) and len(files) > 1:
                    c = dict(case)
                    c["files"] = files[:i] + files[i + 1:]
                    yield c
            return
        if case.get("how", "ns") != "ns":
            c = dict(case)
            c["how"] = "ns"
            c.pop("target", None)
            yield c
        # drop files
        if len(files) > 1:
            for i in range(len(files)):
                c = dict(case)
                c["files"] = files[:i] + files[i + 1:]
                if "names" in case:
                    c["names"] = [f[0].rsplit("/", 1)[-1] for f in c["files"]]
                yield c
        # shrink the text of the last file: lines, then tokens, then halves of long tokens
        rel, text = files[-1]
        lines = text.split("\n")
        if len(lines) > 1:
            for i in range(len(lines)):
                c = dict(case)
                c["files"] = files[:-1] + [[rel, "\n".join(lines[:i] + lines[i + 1:])]]
                yield c
        toks = tokenize(text)
        if 1 < len(toks) <= 400:
            for i in range(len(toks)):
                c = dict(case)
                c["files"] = files[:-1] + [[rel, "".join(toks[:i] + toks[i + 1:])]]
                yield c
        for i, tk in enumerate(toks[:400]):
            if len(tk) > 8:
                c = dict(case)
                c["files"] = files[:-1] + [[rel, "".join(toks[:i] + [tk[: len(tk) // 2]] + toks[i + 1:])]]
                yield c

    def features(self, case, impl):
        yield "stream:" + case["kind"]
        yield "outcome:" + str(impl.get("cls"))
        if impl.get("soft_exc"):
            yield "rejected-as:" + impl["soft_exc"]
        if impl.get("soft_origin"):
            yield "origin:" + origin_name(case, impl)
        if case["kind"] == "constellation":
            yield "entry:" + case.get("how", "ns")
            for t in constellation_traits(case["files"]):
                yield "constellation:" + t
        text = case["files"][-1][1]
        if isinstance(text, dict):
            yield "unreadable:" + ("directory" if text.get("dir") else "bytes")
            return
        if any(ord(c) < 32 and c not in "\n\t" for c in text):
            yield "has-control-characters"
        if any(ord(c) > 127 for c in text):
            yield "has-non-ascii"

    def nontrivial(self, case, impl):
        return len(case["files"][-1][1]) > 0


SUITE = GarbageSuite()
