"""
Suite `cost` (C16): the same type shape at two capacity scales — moderate (capacities / extents a few hundred)
and huge (2**40 .. 2**63) — built through the public constructors and queried the way the property lists:
min / max / extent / fixed_length, byte alignment of the type and of every field offset, == and hash.

Measured on the real library (by wrapping module attributes from the harness, no source hooks):
  * integers that pass through itertools.product / combinations_with_replacement inside _symbolic.py,
  * sizes of the value sets handed to NullaryOperator (an enumerated set shows up here),
  * calls of any Operator.expand (numerical expansion must never happen for these queries),
  * wall time (generous threshold, sanity only).

Model side: Op.cost of the same query script (uncached, so an upper bound for the memoised library).
Oracle (independent of the model): the work at the huge scale does not exceed the work at the moderate scale
(repetition counts are congruent modulo 32 and saturated, so the library's `equivalent k` is the same), expansion is never called, and
the absolute work stays below a fixed budget.
"""
from __future__ import annotations

import random
import time
import typing

import common
from suites import bls as B
from suites import layout as L

WORK_BUDGET = 40_000_000
TIME_BUDGET_S = 20.0


class Meter:
    """Counts enumeration work inside pydsdl._bit_length_set._symbolic while active."""

    def __init__(self, pydsdl):
        import importlib

        self.sym = importlib.import_module("pydsdl._bit_length_set._symbolic")
        self.items = 0
        self.leaf = 0
        self.expands = 0
        self._saved: list = []

    def __enter__(self):
        """Installs the counters.  Every hook is optional: when an internal name it needs does not exist (the module was
        restructured), the hook is skipped and recorded in `degraded`; the implementation-independent measure `calls`
        (number of Python-level and builtin calls made while the script runs) is always available."""
        import itertools as real
        import sys

        meter = self
        self.degraded: list = []
        self.calls = 0

        class Proxy:
            def __getattr__(self, name):
                return getattr(real, name)

            @staticmethod
            def product(*a, **k):
                for t in real.product(*a, **k):
                    meter.items += len(t)
                    yield t

            @staticmethod
            def combinations_with_replacement(it, r):
                for t in real.combinations_with_replacement(it, r):
                    meter.items += len(t)
                    yield t

        if getattr(self.sym, "itertools", None) is real:
            self._saved.append((self.sym, "itertools", self.sym.itertools))
            self.sym.itertools = Proxy()
        else:
            self.degraded.append("itertools")
        nul = getattr(self.sym, "NullaryOperator", None)
        if nul is not None:
            orig_init = nul.__init__

            def init(s, values):
                orig_init(s, values)
                try:
                    meter.leaf += len(s._value)
                except Exception:  # noqa: BLE001
                    pass

            self._saved.append((nul, "__init__", orig_init))
            nul.__init__ = init
        else:
            self.degraded.append("NullaryOperator")
        # NullaryOperator.expand merely copies an explicit value set (e.g. the residues returned by `%`): not counted
        for name in ("PaddingOperator", "ConcatenationOperator", "RepetitionOperator",
                     "RangeRepetitionOperator", "UnionOperator", "MemoizationOperator"):
            cls = getattr(self.sym, name, None)
            orig = getattr(cls, "expand", None) if cls is not None else None
            if orig is None:
                self.degraded.append(name + ".expand")
                continue

            def make(orig):
                def expand(s):
                    meter.expands += 1
                    return orig(s)
                return expand

            self._saved.append((cls, "expand", orig))
            cls.expand = make(orig)

        def prof(frame, event, arg):
            if event == "call" or event == "c_call":
                meter.calls += 1

        self._prof_prev = sys.getprofile()
        sys.setprofile(prof)
        return self

    def __exit__(self, *a):
        import sys

        sys.setprofile(self._prof_prev)
        for obj, name, val in reversed(self._saved):
            setattr(obj, name, val)
        self._saved = []

    def snapshot(self):
        return (self.items, self.leaf, self.expands, self.calls)


def script(pydsdl, t) -> dict:
    """Build the type twice (independently) and run the property's queries; returns the measured work."""
    with Meter(pydsdl) as m:
        t0 = time.time()
        ty = L.build_impl(pydsdl, t, L._Names())
        ty2 = L.build_impl(pydsdl, t, L._Names())
        build = m.snapshot()
        b = ty.bit_length_set
        out = [b.min, b.max, ty.extent if isinstance(ty, pydsdl.CompositeType) else b.max, bool(b.fixed_length), bool(b.is_aligned_at_byte())]
        if isinstance(ty, pydsdl.CompositeType):
            for _f, o in ty.iterate_fields_with_offsets():
                out.append(bool(o.is_aligned_at_byte()))
        out.append(bool(ty == ty2))
        out.append(hash(ty) == hash(ty2))
        total = m.snapshot()
        wall = time.time() - t0
        degraded = list(m.degraded)
    return {"build_items": build[0], "build_leaf": build[1], "items": total[0] - build[0], "leaf": total[1] - build[1],
            "expands": total[2], "wall": wall, "answers": out, "calls": total[3], "soft_degraded": degraded}


def scale(t, level: int, rng):
    """Same shape at one of three capacity scales: 0 = a few hundred, 1 = just above 2**32, 2 = 2**42 .. 2**63.
    Capacities are multiples of 256 and extents multiples of 2048 at every scale, so every repetition count is
    >= 2*32 and congruent modulo 32 (the library's `equivalent k` coincides); scales 1 and 2 also need the same
    (64-bit) length prefixes, so their layouts differ in nothing but the counts."""
    k = t[0]
    if k in ("prim", "void"):
        return t
    if k in ("farr", "varr"):
        m = [rng.choice([1, 2, 3, 5]), 2**24 + rng.choice([1, 2, 3, 5]), rng.choice([2**34, 2**44, 2**53, 2**55])][level]
        return [k, scale(t[1], level, rng), 256 * m]
    if k in ("struct", "union"):
        return [k, [scale(f, level, rng) for f in t[1]]]
    inner = scale(t[1], level, rng)
    nodes: list = []
    mx = B.o_max(nodes, L.s_nodes(L.strip(inner), nodes))
    ext = -(-mx // 2048) * 2048 + 2048 * [1, 2**22, 2**45][level]
    return ["delim", inner, ext]


def instantiate(shape, sseed: int) -> dict:
    out = {"shape": shape, "sseed": sseed}
    for key, level in (("ty", 0), ("ty2", 2), ("ty3", 1)):
        out[key] = scale(shape, level, random.Random(sseed))
    return out


def gen_shape(rng, depth, top=False):
    if depth <= 0 or (not top and rng.random() < 0.3):
        return rng.choice([["prim", 1, "bool"], ["prim", 3, "uintsat"], ["prim", 8, "uintsat"], ["prim", 12, "uintsat"],
                           ["prim", 16, "floatsat"], ["prim", 32, "uintsat"], ["prim", 64, "uintsat"], ["prim", 7, "intsat"]])
    kind = rng.choice(["farr", "varr", "varr", "struct", "struct", "union", "delim"]) if not top else rng.choice(["struct", "struct", "delim", "union", "varr"])
    if kind in ("farr", "varr"):
        return [kind, gen_shape(rng, depth - 1), 1]
    if kind == "struct":
        return ["struct", [gen_shape(rng, depth - 1) for _ in range(rng.randint(1, 4))]]
    if kind == "union":
        return ["union", [gen_shape(rng, depth - 1) for _ in range(rng.randint(2, 3))]]
    return ["delim", ["struct", [gen_shape(rng, depth - 1) for _ in range(rng.randint(0, 3))]], 0]


def predicted_cost(t) -> int:
    """Cost of the query script per the oracle's own reading of the layout rules (generator guard only)."""
    st = L.strip(t)
    nodes: list = []
    root = L.s_nodes(st, nodes)
    total = B._cost(nodes, root, 8, {}) + 2 * B._cost(nodes, root, 32, {})
    if st[0] in ("struct", "union", "delim"):
        on: list = []
        for o in L.s_field_offsets(st, [0], on):
            total += B._cost(on, o, 8, {})
    return total


def gen_case(rng, prop):
    for _ in range(200):
        shape = gen_shape(rng, rng.choice([1, 2, 2, 3, 3, 4]), top=True)
        try:
            c = instantiate(shape, rng.randrange(10**6))
            if not all(L.s_valid(L.strip(c[k])) for k in ("ty", "ty2", "ty3")):
                continue
            if max(predicted_cost(c[k]) for k in ("ty", "ty2", "ty3")) > 60_000:
                continue
        except Exception:
            continue
        return c
    raise RuntimeError("generator failed")


class CostSuite(common.Suite):
    name = "cost"

    def generate(self, rng, n, prop, tier):
        return [gen_case(rng, prop) for _ in range(n)]

    def corpus(self, prop):
        u8 = ["prim", 8, "uintsat"]
        b1 = ["prim", 1, "bool"]
        shapes = [
            ["struct", [["farr", b1, 1], u8]],
            ["struct", [["farr", ["prim", 3, "uintsat"], 1], ["varr", u8, 1]]],
            ["struct", [["farr", ["prim", 16, "floatsat"], 1], u8]],
            ["struct", [["varr", ["delim", ["struct", [u8]], 0], 1]]],
            ["delim", ["struct", [["varr", ["struct", [["varr", u8, 1], b1]], 1]]], 0],
        ]
        return [instantiate(sh, i) for i, sh in enumerate(shapes)]

    def run_impl(self, case):
        pydsdl = common.import_pydsdl()
        try:
            a = script(pydsdl, case["ty"])
            b = script(pydsdl, case["ty2"])
            m = script(pydsdl, case["ty3"])
        except pydsdl.InvalidDefinitionError as ex:
            return {"res": "rejected", "soft": str(ex)[:200]}
        except Exception as ex:
            return {"res": "exc:" + type(ex).__name__, "soft": str(ex)[:200]}
        return {"res": "ok", "a": a, "b": b, "m": m}

    def model_case(self, case):
        return {"id": case["id"], "ty": L.strip(case["ty"]), "ty2": L.strip(case["ty2"])}

    def compare(self, case, impl, model, prop):
        if impl.get("res") != model.get("res"):
            return "impl res=%s model res=%s" % (impl.get("res"), model.get("res"))
        if impl["res"] != "ok":
            return None
        # the model counts uncached enumeration; the library memoises, so it may only do less
        if impl["a"]["items"] > model["cost"]:
            return "moderate scale: library enumerated %d items, model cost %d" % (impl["a"]["items"], model["cost"])
        if impl["b"]["items"] > model["cost2"]:
            return "huge scale: library enumerated %d items, model cost %d" % (impl["b"]["items"], model["cost2"])
        return None

    def oracle(self, case, impl, prop):
        if impl.get("res") != "ok":
            return "valid type not analysed: %s %s" % (impl.get("res"), impl.get("soft"))
        a, b, m = impl["a"], impl["b"], impl["m"]
        if a["expands"] or b["expands"] or m["expands"]:
            return "numerical expansion was triggered %d/%d/%d times by layout queries" % (a["expands"], m["expands"], b["expands"])
        for key in ("items", "leaf", "build_items", "build_leaf"):
            # capacities just above 2**32 and up to 2**63 give identical layouts up to the counts: no growth at all
            if b[key] > m[key]:
                return "work grows with capacity: %s is %d for capacities just above 2**32 and %d for capacities up to 2**63" % (key, m[key], b[key])
            # (capacities of a few hundred get narrower length prefixes, hence other residues: their work is compared
            #  with the model's cost only, see compare())
        # implementation-independent measure: the number of Python-level + builtin calls made by the whole script; the two
        # scales differ in nothing but the repetition counts, so symbolic analysis makes (up to noise) the same calls
        if b.get("calls", 0) > 1.05 * m.get("calls", 0) + 200:
            return "work grows with capacity: the query script makes %d calls for capacities just above 2**32 and %d for capacities up to 2**63" % (m.get("calls", 0), b.get("calls", 0))
        if b["items"] + b["leaf"] + b["build_items"] + b["build_leaf"] > WORK_BUDGET:
            return "analysis enumerated %d items (budget %d)" % (b["items"] + b["leaf"] + b["build_items"] + b["build_leaf"], WORK_BUDGET)
        if max(a["wall"], b["wall"], m["wall"]) > TIME_BUDGET_S:
            return "analysis took %.1f s" % max(a["wall"], b["wall"], m["wall"])
        if m["answers"][3:] != b["answers"][3:]:
            return "alignment answers differ between capacity scales: %s vs %s" % (m["answers"][3:], b["answers"][3:])
        return None

    def signature(self, case, desc, prop):
        import re
        return "cost/" + re.sub(r"[0-9]+", "N", desc.split(":")[0])[:60]

    def shrink(self, case):
        if "shape" not in case:
            return
        for sh in L.shrink_ty(case["shape"]):
            if sh[0] not in ("struct", "union", "delim", "farr", "varr"):
                continue
            try:
                c = instantiate(sh, case.get("sseed", 0))
                if all(L.s_valid(L.strip(c[k])) for k in ("ty", "ty2", "ty3")):
                    yield c
            except Exception:
                continue

    def features(self, case, impl):
        for k in set(L.kinds(case["ty2"])):
            yield "has:" + k
        yield "depth:%d" % L.tdepth(case["ty"])
        if impl.get("res") == "ok":
            for dname in impl["b"].get("soft_degraded", []):
                yield "counter-unavailable:" + dname
            w = impl["b"]["items"]
            yield "work:" + ("0" if w == 0 else "<100" if w < 100 else "<10k" if w < 10000 else ">=10k")

    def nontrivial(self, case, impl):
        return impl.get("res") == "ok" and L.tdepth(case["ty"]) >= 1


SUITE = CostSuite()
