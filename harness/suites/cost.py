"""
Suite `cost` (C16): the same type shape at two capacity scales — moderate (capacities / extents a few hundred)
and huge (2**40 .. 2**63) — built through the public constructors and queried the way the property lists:
min / max / extent / fixed_length, byte alignment of the type and of every field offset, == and hash.

Measured on the real library (by wrapping module attributes from the harness, no source hooks):
  * integers that pass through itertools.product / combinations_with_replacement inside _symbolic.py,
  * sizes of the value sets handed to NullaryOperator (an enumerated set shows up here),
  * calls of any Operator.expand (numerical expansion must never happen for these queries),
  * wall time (generous threshold, sanity only).

Namespace cases (`kind: ns`): the property starts with "Reading definitions": the same shape is also rendered as a
NAMESPACE of DSDL files - one file per composite, several minor versions of a type under one major version (fields
renamed, a void turned into a field of the same width and back, a constant added, for delimited types a field added /
dropped under the same extent), other major versions and v0.x versions with other layouts, a service (two minor
versions) whose sections refer to the types, `@assert` / `@print` directives that do not mention `_offset_` /
`_bit_length_` - and read with read_namespace (twice: the second reading gives independently built types for == and
hash) under the same counters, at FOUR capacity scales: a few hundred / tens of thousands (same 16-bit length prefixes)
and just above 2**32 / up to 2**63 (same 64-bit prefixes).  Within each pair the layouts differ in nothing but the
counts, so the counters and the implementation-independent number of calls must coincide (up to noise); the small pair
is measured first, so that a reader whose cost grows with the capacities is caught before it is given 2**32 elements.

Wide cases (`kind: wide`, and `kind: ns` with `wide`): cost must be independent of the capacities also when MANY
capacity-carrying members sit side by side.  10-40 members - variable-length arrays of 1-bit / 8-bit / odd-width /
multi-byte primitives, some fixed arrays, scalars and voids - form a structure, a union, a delimited type, a member or an
array element of an outer structure (one level down), runs cut by composite-typed members, or a union of two wide
structures.  The four capacity scales of the namespace cases are used; the script is the one above plus !=, dict / set
lookup, `% 8`, == / hash of members and of their types, min / max / == / hash / % of the offset of the first, a middle and
the LAST member, the inner type of a delimited type, composites one level down.  The namespace rendering adds a service
whose sections consist of the members themselves and a definition that nests the type in arrays.
Oracle for these: besides the comparisons across scales, the work at EVERY scale has to stay within a budget derived from
the shape alone (SpecCost: the uncached work of a pairwise symbolic analysis of the Specification's expression at the
smallest scale, times WIDE_SLACK) - an analysis whose work is a product over the members rather than a sum exceeds it by
orders of magnitude.  The counters raise Blowup when the budget is exhausted (and a bound on the number of calls, should the
enumeration bypass the counters), so that an analysis that would take hours is reported within a second, with the type and
the query that caused it.

Model side: Op.cost of the same query script (uncached, so an upper bound for the memoised library).
Oracle (independent of the model): the work at the huge scale does not exceed the work at the moderate scale
(repetition counts are congruent modulo 32 and saturated, so the library's `equivalent k` is the same), expansion is never called, and
the absolute work stays below a fixed budget.
"""
from __future__ import annotations

import random
import time
import typing

import common
from suites import bls as B
from suites import layout as L

WORK_BUDGET = 40_000_000
TIME_BUDGET_S = 20.0


class Blowup(BaseException):
    """Raised from the counters when the work of a script exceeds the limit it was given (BaseException: no handler of the
    library may swallow it).  The run is abandoned and reported as an outcome of its own."""


class Meter:
    """Counts enumeration work inside pydsdl._bit_length_set._symbolic while active.
    `limit`: bound on items + leaf, `calls_limit`: bound on the number of calls; beyond either, Blowup is raised from
    the counter (so that an analysis that would take hours is cut short and reported with the type that caused it)."""

    def __init__(self, pydsdl, limit: typing.Optional[int] = None, calls_limit: typing.Optional[int] = None):
        import importlib

        self.sym = importlib.import_module("pydsdl._bit_length_set._symbolic")
        self.items = 0
        self.leaf = 0
        self.expands = 0
        self.limit = limit
        self.calls_limit = calls_limit
        self.blown: typing.Optional[str] = None
        self.where = ""            # set by the script: what it is doing (for the Blowup message)
        self._saved: list = []

    def _over(self, what: str):
        self.blown = what
        msg = "%s beyond the limit (%s)%s" % (what, self.limit if what == "items" else self.calls_limit, " during " + self.where if self.where else "")
        self.limit = self.calls_limit = None       # raise once
        raise Blowup(msg)

    def __enter__(self):
        """Installs the counters.  Every hook is optional: when an internal name it needs does not exist (the module was
        restructured), the hook is skipped and recorded in `degraded`; the implementation-independent measure `calls`
        (number of Python-level and builtin calls made while the script runs) is always available."""
        import itertools as real
        import sys

        meter = self
        self.degraded: list = []
        self.calls = 0

        class Proxy:
            def __getattr__(self, name):
                return getattr(real, name)

            @staticmethod
            def product(*a, **k):
                for t in real.product(*a, **k):
                    meter.items += len(t)
                    if meter.limit is not None and meter.items + meter.leaf > meter.limit:
                        meter._over("items")
                    yield t

            @staticmethod
            def combinations_with_replacement(it, r):
                for t in real.combinations_with_replacement(it, r):
                    meter.items += len(t)
                    if meter.limit is not None and meter.items + meter.leaf > meter.limit:
                        meter._over("items")
                    yield t

        # whatever name the module uses for itertools or for the two functions (import itertools as x / from itertools import ...)
        hooked = 0
        proxy = Proxy()
        for name, val in list(vars(self.sym).items()):
            repl = proxy if val is real else Proxy.product if val is real.product else \
                Proxy.combinations_with_replacement if val is real.combinations_with_replacement else None
            if repl is not None:
                self._saved.append((self.sym, name, val))
                setattr(self.sym, name, repl)
                hooked += 1
        if not hooked:
            self.degraded.append("itertools")
        nul = getattr(self.sym, "NullaryOperator", None)
        if nul is not None:
            orig_init = nul.__init__

            def init(s, values):
                orig_init(s, values)
                try:
                    meter.leaf += len(s._value)
                except Exception:  # noqa: BLE001
                    pass

            self._saved.append((nul, "__init__", orig_init))
            nul.__init__ = init
        else:
            self.degraded.append("NullaryOperator")
        # NullaryOperator.expand merely copies an explicit value set (e.g. the residues returned by `%`): not counted
        for name in ("PaddingOperator", "ConcatenationOperator", "RepetitionOperator",
                     "RangeRepetitionOperator", "UnionOperator", "MemoizationOperator"):
            cls = getattr(self.sym, name, None)
            orig = getattr(cls, "expand", None) if cls is not None else None
            if orig is None:
                self.degraded.append(name + ".expand")
                continue

            def make(orig):
                def expand(s):
                    meter.expands += 1
                    return orig(s)
                return expand

            self._saved.append((cls, "expand", orig))
            cls.expand = make(orig)

        def prof(frame, event, arg):
            if event == "call" or event == "c_call":
                meter.calls += 1
                if meter.calls_limit is not None and meter.calls > meter.calls_limit:
                    meter._over("calls")

        self._prof_prev = sys.getprofile()
        sys.setprofile(prof)
        return self

    def __exit__(self, *a):
        import sys

        sys.setprofile(self._prof_prev)
        for obj, name, val in reversed(self._saved):
            setattr(obj, name, val)
        self._saved = []

    def snapshot(self):
        return (self.items, self.leaf, self.expands, self.calls)


def script(pydsdl, t) -> dict:
    """Build the type twice (independently) and run the property's queries; returns the measured work."""
    with Meter(pydsdl) as m:
        t0 = time.time()
        ty = L.build_impl(pydsdl, t, L._Names())
        ty2 = L.build_impl(pydsdl, t, L._Names())
        build = m.snapshot()
        b = ty.bit_length_set
        out = [b.min, b.max, ty.extent if isinstance(ty, pydsdl.CompositeType) else b.max, bool(b.fixed_length), bool(b.is_aligned_at_byte())]
        if isinstance(ty, pydsdl.CompositeType):
            for _f, o in ty.iterate_fields_with_offsets():
                out.append(bool(o.is_aligned_at_byte()))
        out.append(bool(ty == ty2))
        out.append(hash(ty) == hash(ty2))
        total = m.snapshot()
        wall = time.time() - t0
        degraded = list(m.degraded)
    return {"build_items": build[0], "build_leaf": build[1], "items": total[0] - build[0], "leaf": total[1] - build[1],
            "expands": total[2], "wall": wall, "answers": out, "calls": total[3], "soft_degraded": degraded}


def scale(t, level: int, rng):
    """Same shape at one of three capacity scales: 0 = a few hundred, 1 = just above 2**32, 2 = 2**42 .. 2**63.
    Capacities are multiples of 256 and extents multiples of 2048 at every scale, so every repetition count is
    >= 2*32 and congruent modulo 32 (the library's `equivalent k` coincides); scales 1 and 2 also need the same
    (64-bit) length prefixes, so their layouts differ in nothing but the counts."""
    k = t[0]
    if k in ("prim", "void"):
        return t
    if k in ("farr", "varr"):
        # (level 3 = level 0 + 192: still below 2**16, hence the same length prefixes as level 0; same rng consumption)
        m = [rng.choice([1, 2, 3, 5]), 2**24 + rng.choice([1, 2, 3, 5]), rng.choice([2**34, 2**44, 2**53, 2**55]),
             192 + rng.choice([1, 2, 3, 5])][level]
        return [k, scale(t[1], level, rng), 256 * m]
    if k in ("struct", "union"):
        return [k, [scale(f, level, rng) for f in t[1]]]
    inner = scale(t[1], level, rng)
    nodes: list = []
    mx = B.o_max(nodes, L.s_nodes(L.strip(inner), nodes))
    ext = -(-mx // 2048) * 2048 + 2048 * EXT_MULT[level]
    return ["delim", inner, ext]


EXT_MULT = [1, 2**22, 2**45, 16]


def instantiate(shape, sseed: int) -> dict:
    out = {"shape": shape, "sseed": sseed}
    for key, level in (("ty", 0), ("ty2", 2), ("ty3", 1)):
        out[key] = scale(shape, level, random.Random(sseed))
    return out


def gen_shape(rng, depth, top=False):
    if depth <= 0 or (not top and rng.random() < 0.3):
        return rng.choice([["prim", 1, "bool"], ["prim", 3, "uintsat"], ["prim", 8, "uintsat"], ["prim", 12, "uintsat"],
                           ["prim", 16, "floatsat"], ["prim", 32, "uintsat"], ["prim", 64, "uintsat"], ["prim", 7, "intsat"]])
    kind = rng.choice(["farr", "varr", "varr", "struct", "struct", "union", "delim"]) if not top else rng.choice(["struct", "struct", "delim", "union", "varr"])
    if kind in ("farr", "varr"):
        return [kind, gen_shape(rng, depth - 1), 1]
    if kind == "struct":
        return ["struct", [gen_shape(rng, depth - 1) for _ in range(rng.randint(1, 4))]]
    if kind == "union":
        return ["union", [gen_shape(rng, depth - 1) for _ in range(rng.randint(2, 3))]]
    return ["delim", ["struct", [gen_shape(rng, depth - 1) for _ in range(rng.randint(0, 3))]], 0]


def predicted_cost(t) -> int:
    """Cost of the query script per the oracle's own reading of the layout rules (generator guard only)."""
    st = L.strip(t)
    nodes: list = []
    root = L.s_nodes(st, nodes)
    total = B._cost(nodes, root, 8, {}) + 2 * B._cost(nodes, root, 32, {})
    if st[0] in ("struct", "union", "delim"):
        on: list = []
        for o in L.s_field_offsets(st, [0], on):
            total += B._cost(on, o, 8, {})
    return total


# ------------------------------------------------------------------------------- wide shapes: the oracle's budget

class SpecCost:
    """The oracle's own reading of the work of a symbolic analysis: the Specification's expression of a type (fields added
    one by one, L.s_nodes) is evaluated modulo d with residue sets that never exceed d; counted is the number of integers
    that pass through the pairwise products / multicombinations, WITHOUT any caching.  It depends on the shape, the
    element widths and (through saturated, congruent repetition counts) not on the capacities."""

    def __init__(self):
        self.tab: list = []        # interned nodes: (kind, children, parameter); structurally equal nodes share one entry
        self.ids: dict = {}
        self.rmemo: dict = {}
        self.cmemo: dict = {}

    def intern(self, nodes: list, wanted: typing.List[int]) -> typing.List[int]:
        """Entries of the nodes of a B-style node list (children precede parents); returns those of `wanted`."""
        uid: typing.List[int] = []
        for n in nodes:
            k = n[0]
            if k == "leaf":
                key = (k, (), tuple(n[1]))
            elif k in ("cat", "uni"):
                key = (k, tuple(uid[j] for j in n[1]), None)
            else:
                key = (k, (uid[n[1]],), n[2])
            if key not in self.ids:
                self.ids[key] = len(self.tab)
                self.tab.append(key)
            uid.append(self.ids[key])
        return [uid[i] for i in wanted]

    def tree(self, st) -> int:
        nodes: list = []
        root = L.s_nodes(st, nodes)
        return self.intern(nodes, [root])[0]

    def offsets(self, st) -> typing.List[int]:
        nodes: list = []
        offs = L.s_field_offsets(st, [0], nodes)
        return self.intern(nodes, offs)

    def res(self, i, d):
        key = (i, d)
        if key in self.rmemo:
            return self.rmemo[key]
        import math

        k, ch, par = self.tab[i]
        if k == "leaf":
            r = frozenset(v % d for v in par)
        elif k == "pad":
            l = par * d // math.gcd(par, d)
            r = frozenset((-(-x // par) * par) % d for x in self.res(ch[0], l))
        elif k == "cat":
            r = frozenset([0])
            for j in ch:
                r = B._sumset(r, self.res(j, d), d)
        elif k == "rep":
            r = B._nsmul(self.res(ch[0], d), par, d)
        elif k == "rrep":
            r = B._nsmul(self.res(ch[0], d) | {0}, par, d)
        elif k == "uni":
            r = frozenset().union(*[self.res(j, d) for j in ch])
        else:
            raise ValueError(k)
        self.rmemo[key] = r
        return r

    def cost(self, i, d) -> int:
        key = (i, d)
        if key in self.cmemo:
            return self.cmemo[key]
        import math

        k, ch, par = self.tab[i]
        try:
            if k == "leaf":
                c = len(par)
            elif k == "pad":
                l = par * d // math.gcd(par, d)
                c = self.cost(ch[0], l) + len(self.res(ch[0], l))
            elif k == "cat":
                c = sum(self.cost(j, d) for j in ch)
                p = 1
                for j in ch:
                    p *= len(self.res(j, d))
                c += p * len(ch)
            elif k in ("rep", "rrep"):
                ek = min(par, d + par % d)
                r = len(self.res(ch[0], d))
                c = self.cost(ch[0], d)
                if k == "rep":
                    c += B.cwr_count(r, ek) * ek
                else:
                    c += sum(B.cwr_count(r, j) * j for j in range(ek + 1))
            elif k == "uni":
                c = sum(self.cost(j, d) for j in ch) + sum(len(self.res(j, d)) for j in ch)
            else:
                raise ValueError(k)
        except (B.TooBig, OverflowError, MemoryError):
            c = 10**15
        self.cmemo[key] = c
        return c


def picks(n: int) -> typing.List[int]:
    """Members looked at one by one by the extended script: the first, one in the middle, the last (a LATER field's offset
    is what depends on everything in front of it)."""
    return sorted({0, n // 2, n - 1}) if n else []


def subtrees(t):
    """Every array / composite node of a type tree."""
    k = t[0]
    if k in ("prim", "void"):
        return
    yield t
    if k in ("farr", "varr", "delim"):
        yield from subtrees(t[1])
    else:
        for f in t[1]:
            yield from subtrees(f)


def spec_work(t, extended: bool = True) -> int:
    """Uncached work (SpecCost) of building `t` twice and running the query script on it (`extended`: the wide script)."""
    st = L.strip(t)
    sc = SpecCost()
    root = sc.tree(st)
    total = sc.cost(root, 8) + 2 * sc.cost(root, 32)
    comp = st[0] in ("struct", "union", "delim")
    offs = sc.offsets(st) if comp else []
    total += sum(sc.cost(o, 8) for o in offs)
    for x in subtrees(st):          # constructors may assert the alignment of whatever they are given
        total += 2 * sc.cost(sc.tree(x), 8)
    if not extended:
        return total
    total += 4 * sc.cost(root, 32) + 2 * sc.cost(root, 8)
    if comp:
        body = st[1] if st[0] == "delim" else st
        if st[0] == "delim":
            i = sc.tree(body)
            total += 2 * sc.cost(i, 32) + 2 * sc.cost(i, 8)
        for i in picks(len(body[1])):
            f = sc.tree(body[1][i])
            total += 4 * sc.cost(f, 32) + 2 * (sc.cost(offs[i], 32) + sc.cost(offs[i], 8))
        for f in body[1]:
            x = f[1] if f[0] in ("farr", "varr") else f
            if x[0] in ("struct", "union", "delim"):
                i = sc.tree(x)
                total += 2 * sc.cost(i, 32) + 2 * sc.cost(i, 8)
    return total


WIDE_SLACK = 4            # the library may do this many times the uncached pairwise work ...
WIDE_FLOOR = 20_000       # ... plus this much, before the oracle calls it a blow-up
WIDE_GUARD = 1_200_000    # generator guard on spec_work
WIDE_GUARD_S = 10


def wide_budget(trees, extended: bool = True) -> int:
    return WIDE_SLACK * sum(spec_work(x, extended) for x in trees) + WIDE_FLOOR


# ------------------------------------------------------------------------------- wide shapes: generator and script

_U8 = ["prim", 8, "uintsat"]
WIDE_ELEMS = {
    "bits": [["prim", 1, "bool"], ["prim", 1, "bool"], ["prim", 1, "uintsat"], ["prim", 2, "uintsat"], ["prim", 4, "uintsat"]],
    "bytes": [_U8, _U8, ["prim", 8, "byte"], ["prim", 8, "utf8"], ["prim", 8, "intsat"], ["prim", 16, "uintsat"],
              ["prim", 16, "floatsat"], ["prim", 32, "uintsat"], ["prim", 64, "floatsat"], ["prim", 24, "uintsat"]],
    "words": [["prim", 16, "uintsat"], ["prim", 16, "floatsat"], ["prim", 32, "uintsat"], ["prim", 32, "floatsat"], ["prim", 64, "intsat"], _U8],
    "odd": [["prim", 3, "uintsat"], ["prim", 5, "uintsat"], ["prim", 7, "intsat"], ["prim", 12, "uintsat"], ["prim", 13, "intsat"],
            ["prim", 9, "uinttrunc"], ["prim", 17, "uintsat"], ["prim", 33, "intsat"], ["prim", 63, "uintsat"]],
}
WIDE_FORMS = ["struct", "struct", "struct", "union", "delim-struct", "delim-union", "nested", "nested-array", "cut", "union-of-wide"]


def gen_wide_members(rng, n: int, union: bool = False, theme: typing.Optional[str] = None) -> list:
    """`n` members side by side, most of them variable-length arrays of primitives (capacity 1 here; scale() sets them)."""
    theme = theme or rng.choice(["bytes", "bits", "odd", "mixed", "mixed"])
    p_var = rng.choice([1.0, 1.0, 0.85, 0.6])
    out = []
    for _ in range(n):
        el = rng.choice(WIDE_ELEMS[theme if theme != "mixed" else rng.choice(["bytes", "bits", "odd"])])
        r = rng.random()
        if r < p_var:
            out.append(["varr", el, 1])
            continue
        if el[2] == "utf8":
            el = _U8
        r = rng.random()
        if r < 0.4:
            out.append(["farr", el, 1])
        elif r < 0.8 or union:
            out.append(_U8 if el[2] == "byte" else el)      # (byte and utf8 are element types only)
        else:
            out.append(["void", rng.choice([1, 3, 8, 16])])
    return out


def gen_wide_shape(rng, form: str) -> typing.Tuple[list, str]:
    n = rng.choice([rng.randint(10, 16), rng.randint(10, 16), rng.randint(17, 28), rng.randint(29, 40)])
    if form == "struct":
        return ["struct", gen_wide_members(rng, n)], form
    if form == "union":
        return ["union", gen_wide_members(rng, n, True)], form
    if form == "delim-struct":
        return ["delim", ["struct", gen_wide_members(rng, n)], 0], form
    if form == "delim-union":
        return ["delim", ["union", gen_wide_members(rng, n, True)], 0], form
    small = rng.choice([["struct", [_U8]], ["struct", [["varr", _U8, 1]]], ["union", [_U8, ["prim", 16, "uintsat"]]],
                        ["delim", ["struct", [["varr", ["prim", 1, "bool"], 1]]], 0]])
    if form == "nested":          # the wide structure is a member (one level down), other members around it
        w = ["struct", gen_wide_members(rng, n)]
        if rng.random() < 0.3:
            w = ["delim", w, 0]
        fs = [w]
        for _ in range(rng.randint(0, 2)):
            fs.insert(rng.randrange(len(fs) + 1), rng.choice([_U8, ["prim", 1, "bool"], ["varr", _U8, 1], small]))
        return [rng.choice(["struct", "struct", "union"]) if len(fs) >= 2 else "struct", fs], form
    if form == "nested-array":    # an array of the wide structure: the array constructor looks at the element's alignment
        # (an array of elements with many residues is costly for any solver: elements of whole words keep them few)
        w = ["struct", gen_wide_members(rng, n, theme=rng.choice(["words", "words", "bytes", None]))]
        fs = [[rng.choice(["varr", "farr"]), w, 1]]
        if rng.random() < 0.6:
            fs.insert(rng.randrange(2), rng.choice([_U8, ["prim", 3, "uintsat"], ["varr", ["prim", 1, "bool"], 1]]))
        return ["struct", fs], form
    if form == "cut":             # composite-typed members (byte aligned: padding in front) split the members into runs
        fs = gen_wide_members(rng, n)
        for _ in range(rng.randint(1, 3)):
            fs.insert(rng.randrange(len(fs) + 1), small)
        return ["struct", fs], form
    ws = [["struct", gen_wide_members(rng, max(5, n // 2))] for _ in range(2)]
    return ["union", ws], form


def gen_wide_case(rng, prop, ns: bool):
    form = rng.choice(WIDE_FORMS)
    for attempt in range(300):
        if attempt % 25 == 24:
            form = rng.choice(WIDE_FORMS)      # this form keeps exceeding the guard: another one
        shape, form = gen_wide_shape(rng, form)
        try:
            sseed = rng.randrange(10**6)
            c = {"kind": "ns" if ns else "wide", "wide": form, "shape": shape, "sseed": sseed}
            if ns:
                c["nseed"] = rng.randrange(10**6)
            for key, level in NS_LEVELS:
                c[key] = scale(shape, level, random.Random(sseed))
            if not all(L.s_valid(L.strip(c[k])) for k, _ in NS_LEVELS):
                continue
            if ns:
                if L.nested_arrays(shape) or max(sum(spec_work(x, False) for x in render_wide_ns(c[k], c["nseed"], lv)[1])
                                                  for k, lv in NS_LEVELS) > WIDE_GUARD:
                    continue
            elif max(spec_work(c[k]) for k, _ in NS_LEVELS) > WIDE_GUARD:
                continue
        except Exception:
            continue
        return c
    raise RuntimeError("generator failed")


def type_text(t) -> str:
    """A type tree as text, for violation messages."""
    k = t[0]
    if k == "prim":
        return t[2] if t[2] in ("bool", "byte", "utf8") else ("float" if t[2].startswith("float") else "int" if t[2].startswith("int") else "uint") + str(t[1])
    if k == "void":
        return "void%d" % t[1]
    if k == "farr":
        return "%s[%d]" % (type_text(t[1]), t[2])
    if k == "varr":
        return "%s[<=%d]" % (type_text(t[1]), t[2])
    if k == "delim":
        return "delimited(%d) %s" % (t[2], type_text(t[1]))
    return "%s{%s}" % (k, "; ".join(type_text(f) for f in t[1]))


def wide_queries(pydsdl, ty, ty2, out: list, m: Meter) -> None:
    """The property's queries beyond script(): !=, dict / set lookup, explicit %, members' types and a LATER field's
    offset (min / max / == / hash / %), the inner type of a delimited type, composites one level down."""
    m.where = "!= / dict lookup / set membership of the type"
    out += [bool(ty != ty2), {ty: 1}.get(ty2) == 1, ty2 in {ty}]
    b = ty.bit_length_set
    m.where = "bit_length_set % 8 / is_aligned_at(8) of the type"
    out += [sorted(b % 8), bool(b.is_aligned_at(8))]
    if not isinstance(ty, pydsdl.CompositeType):
        return
    if isinstance(ty, pydsdl.DelimitedType):
        m.where = "== / hash / byte alignment of the inner type of the delimited type"
        out += [bool(ty.inner_type == ty2.inner_type), hash(ty.inner_type) == hash(ty2.inner_type),
                bool(ty.inner_type.bit_length_set.is_aligned_at_byte())]
    fs, fs2 = ty.fields, ty2.fields
    m.where = "field offsets"
    offs = [o for _f, o in ty.iterate_fields_with_offsets()]
    offs2 = [o for _f, o in ty2.iterate_fields_with_offsets()]
    for i in picks(len(fs)):
        m.where = "== / hash of member %d (%s) and of its type" % (i, fs[i])
        out += [bool(fs[i].data_type == fs2[i].data_type), hash(fs[i].data_type) == hash(fs2[i].data_type),
                bool(fs[i] == fs2[i]), hash(fs[i]) == hash(fs2[i])]
        m.where = "min / max / == / hash / %% 8 of the offset of member %d (%s)" % (i, fs[i])
        o, o2 = offs[i], offs2[i]
        out += [o.min == o2.min, o.max == o2.max, bool(o == o2), hash(o) == hash(o2), sorted(o % 8)]
    for i, (f, f2) in enumerate(zip(fs, fs2)):
        x, x2 = f.data_type, f2.data_type
        if isinstance(x, pydsdl.ArrayType):
            x, x2 = x.element_type, x2.element_type
        if isinstance(x, pydsdl.CompositeType):
            m.where = "== / hash / byte alignment of the composite type of member %d (%s)" % (i, f)
            out += [bool(x == x2), hash(x) == hash(x2), bool(x.bit_length_set.is_aligned_at_byte())]


def wide_script(pydsdl, t, budget: int) -> dict:
    """script() plus wide_queries() under a Meter that gives up beyond `budget`; the work of the part that the model's
    cost covers (`items`) and of the rest (`x_items`) are reported separately."""
    with Meter(pydsdl, limit=budget, calls_limit=4 * budget + 200_000) as m:
        t0 = time.time()
        m.where = "construction"
        try:
            ty = L.build_impl(pydsdl, t, L._Names())
            ty2 = L.build_impl(pydsdl, t, L._Names())
            build = m.snapshot()
            b = ty.bit_length_set
            m.where = "min / max / extent / fixed_length / byte alignment of the type"
            out = [b.min, b.max, ty.extent if isinstance(ty, pydsdl.CompositeType) else b.max, bool(b.fixed_length), bool(b.is_aligned_at_byte())]
            if isinstance(ty, pydsdl.CompositeType):
                for f, o in ty.iterate_fields_with_offsets():
                    m.where = "byte alignment of the offset of member %s" % f
                    out.append(bool(o.is_aligned_at_byte()))
            m.where = "== of two instances of the type"
            out.append(bool(ty == ty2))
            m.where = "hash of the type"
            out.append(hash(ty) == hash(ty2))
            main = m.snapshot()
            wide_queries(pydsdl, ty, ty2, out, m)
            total = m.snapshot()
        except Blowup as ex:
            return {"blowup": str(ex), "items": m.items, "leaf": m.leaf, "calls": m.calls, "expands": m.expands,
                    "wall": time.time() - t0, "soft_degraded": list(m.degraded)}
        wall = time.time() - t0
        degraded = list(m.degraded)
    return {"build_items": build[0], "build_leaf": build[1], "items": main[0] - build[0], "leaf": main[1] - build[1],
            "x_items": total[0] - main[0], "x_leaf": total[1] - main[1],
            "expands": total[2], "wall": wall, "answers": out, "calls": total[3], "soft_degraded": degraded}


def wide_impl(pydsdl, case) -> dict:
    import signal

    # the budget is that of the SMALLEST scale: every scale has to live within it
    budget = wide_budget([case["ty"]])
    recs: dict = {}
    for key, _level in NS_LEVELS:
        if signal.getsignal(signal.SIGALRM) not in (signal.SIG_DFL, signal.SIG_IGN, None):
            signal.alarm(WIDE_GUARD_S)      # the harness' own guard (its handler), tightened
        r = wide_script(pydsdl, case[key], budget)
        if "blowup" in r:
            return {"res": "blowup", "level": key, "budget": budget, "soft": r}
        recs[key] = r
    return {"res": "ok", "a": recs["ty"], "a2": recs["ty0b"], "m": recs["ty3"], "b": recs["ty2"], "levels": len(recs), "budget": budget}


# ------------------------------------------------------------------------------- namespaces

NS_LEVELS = (("ty", 0), ("ty0b", 3), ("ty3", 1), ("ty2", 2))       # measured in this order
SCALE_CAP = [256 * 3, 256 * (2**24 + 3), 256 * 2**44, 256 * (192 + 3)]
NS_COST_GUARD = 60_000
NS_GUARD_S = 10


def composites(t):
    """Composite nodes of a type tree (a delimited type and its inner type are one definition)."""
    k = t[0]
    if k in ("struct", "union", "delim"):
        yield t
        body = t[1] if k == "delim" else t
        for f in body[1]:
            yield from composites(f)
    elif k in ("farr", "varr"):
        yield from composites(t[1])


def add_voids(rng, t):
    """Padding fields in structures (a minor revision typically gives a name to a reserved field)."""
    k = t[0]
    if k in ("farr", "varr"):
        return [k, add_voids(rng, t[1]), t[2]]
    if k == "delim":
        return [k, add_voids(rng, t[1]), t[2]]
    if k == "union":
        return [k, [add_voids(rng, f) for f in t[1]]]
    if k == "struct":
        fs = [add_voids(rng, f) for f in t[1]]
        if rng.random() < 0.5:
            fs.insert(rng.randrange(len(fs) + 1), ["void", rng.choice([1, 4, 8, 8, 16, 32])])
        return [k, fs]
    return t


DIRECTIVES = ["@assert 2 + 2 == 4", "@print 1 + 1", "@assert true", '@print "note"', "@assert 8 % 3 == 2", "# a comment",
              "@assert {1, 2} != {3}", "@print {1, 2, 3} * 2", ""]


def render_ns(t, nseed: int, level: int):
    """(files of the namespace `ns`, type trees of the definitions that are not part of `t`, features).  Every decoration is drawn from
    Random(nseed) and depends on the STRUCTURE of `t` only, so all capacity scales of a shape get the same namespace up to
    the numbers."""
    rng = random.Random(nseed)
    files: dict = {}
    feats: set = set()
    names = L._Names()
    defined: list = []     # (name, tree, minor versions) in definition order
    extra: list = []       # type trees of the further definitions (other major versions, service sections)

    def prim_text(x):
        return L.dsdl_type_text(x, {}, names)

    def type_text(x):
        k = x[0]
        if k in ("prim", "void"):
            return prim_text(x)
        if k == "farr":
            return "%s[%d]" % (type_text(x[1]), x[2])
        if k == "varr":
            return "%s[<=%d]" % (type_text(x[1]), x[2])
        name, minors = define(x)
        return "ns.%s.1.%d" % (name, rng.choice(minors))

    def define(x):
        name = names.fresh()
        ext = x[2] if x[0] == "delim" else None
        body = x[1] if x[0] == "delim" else x
        union = body[0] == "union"
        fields = body[1]
        ftexts = [type_text(f) for f in fields]
        others = [d[0] for d in defined]

        def text(variant):
            lines = ["@union"] if union else []
            pick = None
            if variant == "void2field":
                pick = rng.choice([i for i, f in enumerate(fields) if f[0] == "void"])
            if variant == "field2void":
                pick = rng.choice([i for i, f in enumerate(fields) if f[0] == "prim"])
            n = len(fields) - 1 if variant == "dropfield" else len(fields)
            for i in range(n):
                if rng.random() < 0.25:
                    d = rng.choice(DIRECTIVES)
                    if others and rng.random() < 0.3:
                        d = "@assert ns.%s.1.0._extent_ >= 0" % rng.choice(others)
                        feats.add("directive:_extent_")
                    lines.append(d)
                    feats.add("directive")
                f, ft = fields[i], ftexts[i]
                if f[0] == "void":
                    lines.append("saturated uint%d v%d" % (f[1], i) if i == pick else ft)
                elif i == pick:
                    lines.append("void%d" % f[1])
                else:
                    lines.append("%s %s%d" % (ft, "g" if variant == "rename" else "f", i))
            if variant == "addfield":
                lines.append("saturated uint8 extra")
            if variant == "const":
                lines.append("uint8 K = 1")
            lines.append("@sealed" if ext is None else "@extent %d" % ext)
            return "\n".join(lines) + "\n"

        files["%s.1.0.dsdl" % name] = text("base")
        minors = [0]
        options = ["rename", "rename", "const", "same"]
        if not union and any(f[0] == "void" for f in fields):
            options += ["void2field"] * 3
        if not union and any(f[0] == "prim" for f in fields):
            options += ["field2void"]
        if ext is not None and not union:
            options += ["addfield"] + (["dropfield"] if fields else [])
        for minor in range(1, rng.choice([0, 0, 1, 1, 1, 2]) + 1):
            v = rng.choice(options)
            files["%s.1.%d.dsdl" % (name, minor)] = text(v)
            minors.append(minor)
            feats.add("minor:" + v)
            feats.add("minor:%s/%s" % ("sealed" if ext is None else "delimited", "union" if union else "struct"))
        cap = SCALE_CAP[level]
        if rng.random() < 0.2:       # v0.x: exempt from every compatibility requirement
            files["%s.0.1.dsdl" % name] = "uint8[<=%d] a\n@sealed\n" % cap
            files["%s.0.2.dsdl" % name] = "uint16[<=%d] a\nuint8 b\n@extent %d\n" % (cap, 16 * cap + 2048)
            extra.append(["struct", [["varr", ["prim", 8, "uintsat"], cap]]])
            extra.append(["delim", ["struct", [["varr", ["prim", 16, "uintsat"], cap], ["prim", 8, "uintsat"]]], 16 * cap + 2048])
            feats.add("major0")
        if rng.random() < 0.2:       # another major version: another layout
            files["%s.2.0.dsdl" % name] = "ns.%s.1.0 older\nuint8[<=%d] more\n@sealed\n" % (name, cap)
            extra.append(["struct", [x, ["varr", ["prim", 8, "uintsat"], cap]]])
            feats.add("major2")
        defined.append((name, x, minors))
        return name, minors

    define(t)
    # a service whose sections refer to the definitions (and the definitions' arrays)
    if rng.random() < 0.7:
        texts = []
        for _sec in range(2):
            trees, lines = [], []
            for i in range(rng.choice([1, 2, 2, 3])):
                name, tree, minors = rng.choice(defined)
                ref = "ns.%s.1.%d" % (name, rng.choice(minors))
                c = rng.random()
                if c < 0.4:
                    trees.append(tree)
                    lines.append([ref, i])
                elif c < 0.55:
                    trees.append(["varr", tree, SCALE_CAP[level]])
                    lines.append(["%s[<=%d]" % (ref, SCALE_CAP[level]), i])
                elif c < 0.7:
                    trees.append(["farr", tree, 3])
                    lines.append(["%s[3]" % ref, i])
                else:
                    trees.append(["prim", 8, "uintsat"])
                    lines.append(["saturated uint8", i])
            sec = ["struct", trees]
            tail = "@sealed"
            if rng.random() < 0.4:
                nodes: list = []
                mx = B.o_max(nodes, L.s_nodes(L.strip(sec), nodes))
                sec = ["delim", sec, -(-mx // 2048) * 2048 + 2048 * EXT_MULT[level]]
                tail = "@extent %d" % sec[2]
            extra.append(sec)
            texts.append((lines, tail))
        for minor in range(rng.choice([1, 1, 2])):
            files["Svc.1.%d.dsdl" % minor] = "\n---\n".join(
                "\n".join(["%s %s%d" % (ft, "q" if minor else "p", i) for ft, i in lines] + [tail]) for lines, tail in texts) + "\n"
        feats.add("service")
        if minor:
            feats.add("minor:service")
    feats.add("files:%s" % ("<=4" if len(files) <= 4 else "<=10" if len(files) <= 10 else ">10"))
    return files, extra, sorted(feats)


def render_wide_ns(t, nseed: int, level: int):
    """Namespace for a wide shape: (files, type trees of EVERY data type defined - service sections count as types -, features).
    One file per composite of `t` (ns.T1 is `t` itself), now and then a second minor version with the members renamed; a
    service whose request section consists of the members of the widest composite themselves and whose response holds them
    in reverse order or as the variants of a union; a definition that nests ns.T1 in arrays.  Drawn from Random(nseed), and
    dependent on the STRUCTURE of `t` only, so every capacity scale gets the same namespace up to the numbers."""
    rng = random.Random(nseed)
    files: dict = {}
    feats: set = set()
    trees: list = []
    names = L._Names()
    cap = SCALE_CAP[level]

    def text_of(x):
        k = x[0]
        if k in ("prim", "void"):
            return L.dsdl_type_text(x, {}, names)
        if k == "farr":
            return "%s[%d]" % (text_of(x[1]), x[2])
        if k == "varr":
            return "%s[<=%d]" % (text_of(x[1]), x[2])
        return "ns.%s.1.0" % define(x)

    def body(fields, ftexts, union, tail, letter):
        lines = ["@union"] if union else []
        for i, (f, ft) in enumerate(zip(fields, ftexts)):
            if rng.random() < 0.1:
                lines.append(rng.choice(DIRECTIVES))
                feats.add("directive")
            lines.append(ft if f[0] == "void" else "%s %s%d" % (ft, letter, i))
        lines.append(tail)
        return "\n".join(lines) + "\n"

    def ext_of(x):
        nodes: list = []
        mx = B.o_max(nodes, L.s_nodes(L.strip(x), nodes))
        return -(-mx // 2048) * 2048 + 2048 * EXT_MULT[level]

    def define(x):
        name = names.fresh()
        inner = x[1] if x[0] == "delim" else x
        ftexts = [text_of(f) for f in inner[1]]
        tail = "@sealed" if x[0] != "delim" else "@extent %d" % x[2]
        files["%s.1.0.dsdl" % name] = body(inner[1], ftexts, inner[0] == "union", tail, "f")
        trees.append(x)
        if rng.random() < 0.3:
            files["%s.1.1.dsdl" % name] = body(inner[1], ftexts, inner[0] == "union", tail, "g")
            trees.append(x)
            feats.add("minor:rename")
        return name

    define(t)
    widest = max((x[1] if x[0] == "delim" else x for x in composites(t)), key=lambda x: len(x[1]))
    members = [f for f in widest[1] if f[0] in ("prim", "void", "farr", "varr") and (f[0] not in ("farr", "varr") or f[1][0] == "prim")]
    if members and rng.random() < 0.75:
        req = ["struct", members]
        back = [f for f in reversed(members) if f[0] != "void"]
        resp = ["union", back] if len(back) >= 2 and rng.random() < 0.5 else ["struct", back]
        secs = []
        for sec, letter in ((req, "q"), (resp, "r")):
            tail = "@sealed"
            if rng.random() < 0.4:
                sec = ["delim", sec, ext_of(sec)]
                tail = "@extent %d" % sec[2]
            trees.append(sec)
            inner = sec[1] if sec[0] == "delim" else sec
            secs.append(body(inner[1], [text_of(f) for f in inner[1]], inner[0] == "union", tail, letter))
        files["Svc.1.0.dsdl"] = "---\n".join(secs)
        feats.add("service:wide-sections")
        feats.add("service:response-" + resp[0])
    how = rng.choice(["varr", "farr", "plain", "both", None])
    if how:
        fs = {"varr": [["varr", t, cap]], "farr": [["farr", t, 3]], "plain": [t], "both": [["farr", t, 2], t]}[how]
        fs.insert(rng.randrange(len(fs) + 1), _U8)
        holder = ["struct", fs]
        files["Holder.1.0.dsdl"] = "".join(
            "%s h%d\n" % ({"varr": "ns.T1.1.0[<=%d]" % (f[2] if f[0] == "varr" else 0), "farr": "ns.T1.1.0[%d]" % (f[2] if f[0] == "farr" else 0),
                           "prim": "saturated uint8"}.get(f[0], "ns.T1.1.0"), i) for i, f in enumerate(fs)) + "@sealed\n"
        trees.append(holder)
        feats.add("holder:" + how)
    feats.add("files:%s" % ("<=4" if len(files) <= 4 else "<=10" if len(files) <= 10 else ">10"))
    return files, trees, sorted(feats)


_WARM = [False]


def _warm(pydsdl) -> None:
    """One unmeasured reading per process (grammar compilation, imports), so that the first measured one is not inflated."""
    import tempfile
    from pathlib import Path

    if _WARM[0]:
        return
    with tempfile.TemporaryDirectory() as d:
        root = Path(d) / "ns"
        root.mkdir()
        (root / "A.1.0.dsdl").write_text("uint8[<=4] a\nvoid3\n@assert 1 + 1 == 2\n@sealed\n")
        (root / "A.1.1.dsdl").write_text("uint8[<=4] a\nuint3 b\n@sealed\n")
        (root / "B.1.0.dsdl").write_text("@union\nA.1.0 a\nbool b\n@print {1} * 2\n@extent 800\n")
        (root / "S.1.0.dsdl").write_text("B.1.0[<=2] b\n@sealed\n---\nfloat16[2] x\n@extent 64\n")
        pydsdl.read_namespace(root, print_output_handler=lambda *a: None)
    _WARM[0] = True


def query(pydsdl, ty, ty2, out: list) -> None:
    b = ty.bit_length_set
    b.min, b.max, ty.extent
    out += [bool(b.fixed_length), bool(b.is_aligned_at_byte())]
    for _f, o in ty.iterate_fields_with_offsets():
        out.append(bool(o.is_aligned_at_byte()))
    out.append(bool(ty == ty2))
    out.append(hash(ty) == hash(ty2))


def ns_script(pydsdl, t, nseed: int, level: int, wide: bool = False, budget: typing.Optional[int] = None) -> dict:
    """Write the namespace, read it twice and run the property's queries on every type; returns the measured work.
    `budget` (wide shapes): the counters give up beyond it (Blowup)."""
    import tempfile
    from pathlib import Path

    files, _sections, _feats = (render_wide_ns if wide else render_ns)(t, nseed, level)
    with tempfile.TemporaryDirectory() as d:
        root = Path(d) / "ns"
        root.mkdir()
        for fn, text in files.items():
            (root / fn).write_text(text)
        with Meter(pydsdl, limit=budget, calls_limit=None if budget is None else 4 * budget + 1_000_000) as m:
            t0 = time.time()
            m.where = "reading the namespace"
            types = pydsdl.read_namespace(root, print_output_handler=lambda *a: None)
            types2 = pydsdl.read_namespace(root, print_output_handler=lambda *a: None)
            build = m.snapshot()
            out: list = [None, None, None, len(types)]
            # the definition of `t` itself first: its share of the work is what the model's cost bounds
            pairs = sorted(zip(types, types2), key=lambda p: str(p[0]) != "ns.T1.1.0")
            main_items = None
            for ty, ty2 in pairs:
                if main_items is None and len(out) > 4:
                    main_items = m.snapshot()[0] - build[0]
                m.where = "the layout queries on %s" % ty
                if isinstance(ty, pydsdl.ServiceType):
                    query(pydsdl, ty.request_type, ty2.request_type, out)
                    query(pydsdl, ty.response_type, ty2.response_type, out)
                    out += [bool(ty == ty2), hash(ty) == hash(ty2)]
                else:
                    query(pydsdl, ty, ty2, out)
            if wide:      # lookups of every type of the second reading among those of the first
                m.where = "dict lookup of the types"
                table = {ty: i for i, (ty, _ty2) in enumerate(pairs) if not isinstance(ty, pydsdl.ServiceType)}
                out += [table.get(ty2) == i for i, (_ty, ty2) in enumerate(pairs) if not isinstance(ty2, pydsdl.ServiceType)]
            total = m.snapshot()
            wall = time.time() - t0
            degraded = list(m.degraded)
    if main_items is None:
        main_items = total[0] - build[0]
    return {"build_items": build[0], "build_leaf": build[1], "items": total[0] - build[0], "leaf": total[1] - build[1],
            "expands": total[2], "wall": wall, "answers": out, "calls": total[3], "soft_degraded": degraded,
            "main_items": main_items, "main_found": str(pairs[0][0]) == "ns.T1.1.0", "soft_read_calls": build[3], "soft_files": len(files)}


def grows(small: dict, large: dict) -> typing.Optional[str]:
    """The two scales differ in nothing but the repetition counts: same enumeration work, same calls (up to noise)."""
    for key in ("items", "leaf", "build_items", "build_leaf", "x_items", "x_leaf"):
        if large.get(key, 0) > small.get(key, 0):
            return "%s is %d at the smaller and %d at the larger capacities" % (key, small[key], large[key])
    if large.get("calls", 0) > 1.05 * small.get("calls", 0) + 200:
        return "%d calls at the smaller and %d at the larger capacities" % (small.get("calls", 0), large.get("calls", 0))
    return None


def ns_impl(pydsdl, case) -> dict:
    import signal

    _warm(pydsdl)
    out: dict = {"res": "ok"}
    recs = {}
    wide = bool(case.get("wide"))
    budget = None
    if wide:      # the budget of the SMALLEST scale (every definition is built in both readings): every scale has to live within it
        budget = out["budget"] = 2 * wide_budget(render_wide_ns(case["ty"], case["nseed"], 0)[1], False)
    for key, level in NS_LEVELS:
        if signal.getsignal(signal.SIGALRM) not in (signal.SIG_DFL, signal.SIG_IGN, None):
            signal.alarm(NS_GUARD_S)      # the harness' own guard (its handler), tightened: a reading is a matter of milliseconds
        try:
            recs[key] = ns_script(pydsdl, case[key], case["nseed"], level, wide, budget)
        except Blowup as ex:
            return {"res": "blowup", "level": key, "budget": budget, "soft": {"blowup": str(ex)}}
        if key == "ty" and recs[key]["expands"]:
            break      # an expanding reader is not given larger capacities
        if key == "ty0b" and grows(recs["ty"], recs["ty0b"]):
            break      # nor one whose cost has just grown with the capacity
    out["a"] = recs["ty"]
    out["a2"] = recs.get("ty0b", recs["ty"])
    out["m"] = recs.get("ty3", out["a2"])
    out["b"] = recs.get("ty2", out["m"])
    out["levels"] = len(recs)
    return out


def ns_predicted(c, level_key: str, level: int) -> int:
    t = c[level_key]
    _files, extra, _ = render_ns(t, c["nseed"], level)
    return sum(predicted_cost(x) for x in composites(t)) + sum(predicted_cost(x) for x in extra)


def gen_ns_case(rng, prop):
    for _ in range(300):
        shape = gen_shape(rng, rng.choice([1, 2, 2, 3]), top=True)
        if shape[0] not in ("struct", "union", "delim"):
            shape = ["struct", [shape, ["prim", 8, "uintsat"]]]
        shape = add_voids(rng, shape)
        if sum(1 for _x in composites(shape)) > 8 or L.nested_arrays(shape):      # (DSDL has no arrays of arrays)
            continue
        try:
            sseed = rng.randrange(10**6)
            c = {"kind": "ns", "shape": shape, "sseed": sseed, "nseed": rng.randrange(10**6)}
            for key, level in NS_LEVELS:
                c[key] = scale(shape, level, random.Random(sseed))
            if not all(L.s_valid(L.strip(c[k])) for k, _ in NS_LEVELS):
                continue
            if max(ns_predicted(c, k, lv) for k, lv in NS_LEVELS) > NS_COST_GUARD:
                continue
        except Exception:
            continue
        return c
    raise RuntimeError("generator failed")


def gen_case(rng, prop):
    r = rng.random()
    if r < 0.2:
        return gen_ns_case(rng, prop)
    if r < 0.32:
        return gen_wide_case(rng, prop, ns=False)
    if r < 0.38:
        return gen_wide_case(rng, prop, ns=True)
    for _ in range(200):
        shape = gen_shape(rng, rng.choice([1, 2, 2, 3, 3, 4]), top=True)
        try:
            c = instantiate(shape, rng.randrange(10**6))
            if not all(L.s_valid(L.strip(c[k])) for k in ("ty", "ty2", "ty3")):
                continue
            if max(predicted_cost(c[k]) for k in ("ty", "ty2", "ty3")) > 60_000:
                continue
        except Exception:
            continue
        return c
    raise RuntimeError("generator failed")


class CostSuite(common.Suite):
    name = "cost"

    def generate(self, rng, n, prop, tier):
        return [gen_case(rng, prop) for _ in range(n)]

    def corpus(self, prop):
        u8 = ["prim", 8, "uintsat"]
        b1 = ["prim", 1, "bool"]
        shapes = [
            ["struct", [["farr", b1, 1], u8]],
            ["struct", [["farr", ["prim", 3, "uintsat"], 1], ["varr", u8, 1]]],
            ["struct", [["farr", ["prim", 16, "floatsat"], 1], u8]],
            ["struct", [["varr", ["delim", ["struct", [u8]], 0], 1]]],
            ["delim", ["struct", [["varr", ["struct", [["varr", u8, 1], b1]], 1]]], 0],
        ]
        out = [instantiate(sh, i) for i, sh in enumerate(shapes)]
        # namespaces: two minor versions of a sealed variable-length type (a reserved void gets a name), a service; nested
        for sh, nseed in ((["struct", [["prim", 16, "uintsat"], ["void", 8], ["varr", u8, 1]]], 14),
                          (["struct", [["varr", ["struct", [["void", 8], ["varr", u8, 1]]], 1], u8]], 6)):
            c = {"kind": "ns", "shape": sh, "sseed": 0, "nseed": nseed}
            for key, level in NS_LEVELS:
                c[key] = scale(sh, level, random.Random(0))
            out.append(c)
        # wide shapes: many capacity-carrying members side by side (constructors and namespaces)
        u3 = ["prim", 3, "uintsat"]
        wides = [("struct", ["struct", [["varr", u8, 1] for _ in range(14)]]),
                 ("struct", ["struct", [["varr", [b1, u3, u8][i % 3], 1] for i in range(12)]]),
                 ("union", ["union", [["varr", [b1, u8][i % 2], 1] for i in range(20)]]),
                 ("delim-struct", ["delim", ["struct", [["varr", b1, 1] for _ in range(10)] + [u8]], 0]),
                 ("nested-array", ["struct", [["farr", ["struct", [["varr", u8, 1] for _ in range(12)]], 1], u8]])]
        for i, (form, sh) in enumerate(wides):
            for ns in (False, True):
                c = {"kind": "ns" if ns else "wide", "wide": form, "shape": sh, "sseed": i}
                if ns:
                    c["nseed"] = i
                for key, level in NS_LEVELS:
                    c[key] = scale(sh, level, random.Random(i))
                out.append(c)
        return out

    def run_impl(self, case):
        pydsdl = common.import_pydsdl()
        if case.get("kind") == "ns":
            try:
                return ns_impl(pydsdl, case)
            except (common._Timeout, MemoryError):
                raise      # the harness turns these into outcomes of their own
            except Exception as ex:
                return {"res": "exc:" + type(ex).__name__, "soft": str(ex)[:300]}
        if case.get("kind") == "wide":
            try:
                return wide_impl(pydsdl, case)
            except (common._Timeout, MemoryError):
                raise
            except Exception as ex:
                return {"res": "exc:" + type(ex).__name__, "soft": str(ex)[:300]}
        try:
            a = script(pydsdl, case["ty"])
            b = script(pydsdl, case["ty2"])
            m = script(pydsdl, case["ty3"])
        except pydsdl.InvalidDefinitionError as ex:
            return {"res": "rejected", "soft": str(ex)[:200]}
        except Exception as ex:
            return {"res": "exc:" + type(ex).__name__, "soft": str(ex)[:200]}
        return {"res": "ok", "a": a, "b": b, "m": m}

    def model_case(self, case):
        return {"id": case["id"], "ty": L.strip(case["ty"]), "ty2": L.strip(case["ty2"])}

    def compare(self, case, impl, model, prop):
        if impl.get("res") != model.get("res"):
            return "impl res=%s model res=%s" % (impl.get("res"), model.get("res"))
        if impl["res"] != "ok":
            return None
        # the model counts uncached enumeration; the library memoises, so it may only do less
        # (namespace cases: the model's type is the definition ns.T1.1.0, queried first)
        key = "main_items" if case.get("kind") == "ns" else "items"
        if impl["a"][key] > model["cost"]:
            return "moderate scale: library enumerated %d items, model cost %d" % (impl["a"][key], model["cost"])
        if impl["b"][key] > model["cost2"]:
            return "huge scale: library enumerated %d items, model cost %d" % (impl["b"][key], model["cost2"])
        if case.get("kind") == "ns" and not (impl["a"]["main_found"] and impl["b"]["main_found"]):
            return "the namespace that was read does not contain ns.T1.1.0"
        return None

    def oracle(self, case, impl, prop):
        if impl.get("timeout") or impl.get("memory_error"):
            return "%s did not finish: %s" % ("reading the namespace and the layout queries" if case.get("kind") == "ns" else "the layout queries",
                                              "time guard exceeded" if impl.get("timeout") else "more than 2 GiB of memory requested")
        if impl.get("res") == "blowup":
            # the budget is the oracle's own (SpecCost of the smallest scale, times WIDE_SLACK): recomputed here, not taken from the outcome
            budget = self.budget(case)
            lv = impl.get("level")
            return ("work explodes on a wide definition: %s; the budget for this shape at ANY capacity is %d integers (%d times the uncached "
                    "pairwise symbolic work); capacity scale %s; type %s" % (
                        (impl.get("soft") or {}).get("blowup"), budget, WIDE_SLACK, lv, type_text(case[lv])[:400] if lv in case else "?"))
        if impl.get("res") != "ok":
            return "valid type not analysed: %s %s" % (impl.get("res"), impl.get("soft"))
        a, b, m = impl["a"], impl["b"], impl["m"]
        if a["expands"] or b["expands"] or m["expands"]:
            return "numerical expansion was triggered %d/%d/%d times by %s" % (
                a["expands"], m["expands"], b["expands"], "reading the namespace and layout queries" if case.get("kind") == "ns" else "layout queries")
        if "a2" in impl:
            # capacities of a few hundred and of tens of thousands: same (16-bit) prefixes, congruent counts
            g = grows(a, impl["a2"])
            if g:
                return "work grows with capacity (%s, a few hundred vs tens of thousands of elements): %s" % (
                    "reading a namespace" if case.get("kind") == "ns" else "layout queries", g)
        for key in ("items", "leaf", "build_items", "build_leaf", "x_items", "x_leaf"):
            # capacities just above 2**32 and up to 2**63 give identical layouts up to the counts: no growth at all
            if b.get(key, 0) > m.get(key, 0):
                return "work grows with capacity: %s is %d for capacities just above 2**32 and %d for capacities up to 2**63" % (key, m[key], b[key])
            # (capacities of a few hundred get narrower length prefixes, hence other residues: their work is compared
            #  with the model's cost only, see compare())
        # implementation-independent measure: the number of Python-level + builtin calls made by the whole script; the two
        # scales differ in nothing but the repetition counts, so symbolic analysis makes (up to noise) the same calls
        if b.get("calls", 0) > 1.05 * m.get("calls", 0) + 200:
            return "work grows with capacity: the query script makes %d calls for capacities just above 2**32 and %d for capacities up to 2**63" % (m.get("calls", 0), b.get("calls", 0))
        if b["items"] + b["leaf"] + b["build_items"] + b["build_leaf"] > WORK_BUDGET:
            return "analysis enumerated %d items (budget %d)" % (b["items"] + b["leaf"] + b["build_items"] + b["build_leaf"], WORK_BUDGET)
        if case.get("wide"):
            budget = self.budget(case)
            for name, rec in (("a few hundred", a), ("tens of thousands", impl["a2"]), ("just above 2**32", m), ("up to 2**63", b)):
                w = sum(rec.get(k, 0) for k in ("items", "leaf", "build_items", "build_leaf", "x_items", "x_leaf"))
                if w > budget:
                    return "work explodes on a wide definition: %d integers enumerated at capacities %s; the budget for this shape at ANY capacity is %d" % (w, name, budget)
            if impl["a2"]["answers"][3:] != a["answers"][3:]:
                return "alignment answers differ between capacity scales: %s vs %s" % (a["answers"][3:], impl["a2"]["answers"][3:])
        if "a2" in impl and impl.get("levels") != len(NS_LEVELS):
            return "the namespace was not read at every capacity scale (%s of %d)" % (impl.get("levels"), len(NS_LEVELS))
        if max(a["wall"], b["wall"], m["wall"]) > TIME_BUDGET_S:
            return "analysis took %.1f s" % max(a["wall"], b["wall"], m["wall"])
        if m["answers"][3:] != b["answers"][3:]:
            return "alignment answers differ between capacity scales: %s vs %s" % (m["answers"][3:], b["answers"][3:])
        return None

    @staticmethod
    def budget(case) -> int:
        if case.get("kind") == "ns":
            return 2 * wide_budget(render_wide_ns(case["ty"], case["nseed"], 0)[1], False)
        return wide_budget([case["ty"]])

    def signature(self, case, desc, prop):
        import re
        return "cost/" + re.sub(r"[0-9]+", "N", desc.split(":")[0])[:60]

    def shrink(self, case):
        if "shape" not in case:
            return
        if case.get("kind") in ("ns", "wide"):
            for sh in L.shrink_ty(case["shape"]):
                if sh[0] not in ("struct", "union", "delim"):
                    continue
                try:
                    c = {k: case[k] for k in ("kind", "wide", "sseed", "nseed") if k in case}
                    c["shape"] = sh
                    for key, level in NS_LEVELS:
                        c[key] = scale(sh, level, random.Random(case["sseed"]))
                    if all(L.s_valid(L.strip(c[k])) for k, _ in NS_LEVELS):
                        yield c
                except Exception:
                    continue
            for ns2 in range(8):
                if "nseed" in case and ns2 != case["nseed"]:
                    yield dict(case, nseed=ns2)
            return
        for sh in L.shrink_ty(case["shape"]):
            if sh[0] not in ("struct", "union", "delim", "farr", "varr"):
                continue
            try:
                c = instantiate(sh, case.get("sseed", 0))
                if all(L.s_valid(L.strip(c[k])) for k in ("ty", "ty2", "ty3")):
                    yield c
            except Exception:
                continue

    def features(self, case, impl):
        yield "kind:" + case.get("kind", "constructors") + ("+wide" if case.get("kind") == "ns" and case.get("wide") else "")
        if case.get("wide"):
            yield "wide:" + str(case["wide"])
            n = max((len((x[1] if x[0] == "delim" else x)[1]) for x in composites(case["shape"])), default=0)
            yield "wide:members:" + ("<=16" if n <= 16 else "<=28" if n <= 28 else "<=40" if n <= 40 else ">40")
            ws = {f[1][1] for x in composites(case["shape"]) for f in (x[1] if x[0] == "delim" else x)[1] if f[0] == "varr" and f[1][0] == "prim"}
            for name, hit in (("1-bit", 1 in ws), ("8-bit", 8 in ws), ("odd", any(w % 8 and w != 1 for w in ws)), ("multi-byte", any(w % 8 == 0 and w > 8 for w in ws))):
                if hit:
                    yield "wide:elements:" + name
            if impl.get("res") == "blowup":
                yield "wide:blowup"
        if case.get("kind") == "ns":
            try:
                for f in (render_wide_ns if case.get("wide") else render_ns)(case["ty"], case["nseed"], 0)[2]:
                    yield "ns:" + f
            except Exception:
                yield "ns:unrenderable"
        for k in set(L.kinds(case["ty2"])):
            yield "has:" + k
        yield "depth:%d" % L.tdepth(case["ty"])
        if impl.get("res") == "ok":
            for dname in impl["b"].get("soft_degraded", []):
                yield "counter-unavailable:" + dname
            w = impl["b"]["items"]
            yield "work:" + ("0" if w == 0 else "<100" if w < 100 else "<10k" if w < 10000 else ">=10k")

    def nontrivial(self, case, impl):
        return impl.get("res") == "ok" and L.tdepth(case["ty"]) >= 1


SUITE = CostSuite()
