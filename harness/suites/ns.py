"""
Suite `ns` (C09, C10, C11, C15, C19): namespace trees on a real temporary file system.

Case:
  {"files":   [{"dir": [..], "sub": [..], "fname": str, "text": TEXT}, ...],   every file of every directory
   "call":    {"fn": "ns", "root": DIR, "lookups": [DIR..], "allow_collision": bool, "allow_unreg": bool}
            | {"fn": "files", "targets": [file index..], "roots": [DIR..], "lookups": [DIR..], "allow_unreg": bool},
   "variants": [spelling name | MIX, ...] equivalent ways of passing the same arguments (must give the same outcome)
   "enum_seed": int                      seed of the shuffle applied to every directory enumeration
   "hashseeds": [int..]                  (subset of cases) subprocess runs under these PYTHONHASHSEED values; each result must equal the
                                         result of this process and is judged by the oracle on its own ("hashseeds_essential": 1 = shrinking
                                         keeps at least one of them: the case is about ties of a sort key, see gen_rollover)
   "perturb": {"idx": i, "file": FILE}   (C19) replace file i, read again -> "out2"
   "history": [{"call": CALL, "variant": spelling}, ...]   calls made BEFORE `call`, in this order, in the same process on the
                                         same tree (other roots - a directory inside a root or the directory above it -, other
                                         lookups, targets, flags, spellings).  `files` is written from the point of view of `call`;
                                         for a history call every file belongs to the outermost directory of that call that
                                         contains it (`reattribute`).  Every call of the sequence is judged by the oracle as if it
                                         were the only one: no call may depend on what was read before.
  }
  DIR  = canonical path of a directory as a list of components below the case's temp dir, e.g. ["w0", "alpha"]
  MIX  = {"mix": 1, "cwd": DIR, "root": [HOW, TYP] (ns), "targets": ARG (files), "roots": ARG (files), "lookups": ARG}
         every path-like argument of the call in one admissible FORM, every element of it in a SPELLING of its own:
         ARG = {"form": "list" | "tuple" | "set" | "frozenset" | "keys" (dict view) | "gen" (generator expression) | "iter" | "map" (map(Path, ..))
                        | "chain" (itertools.chain) | "single" (the one element itself, not in a container) | "none" (None for an empty argument),
                "items": [[DIR or file index, HOW, TYP], ...]}    in this order; may repeat an element in several spellings; the lookups may
                                                                  also name the root(s), which belong to the lookup set anyway
         HOW = "abs" | "slash" | "dotdot" | "link" | "rel" (relative to the MIX's working directory, may start with ..) | "rellink"
               | "name" (roots only: the bare name, next to a path of the same root) | "relroot" (targets only: <root name>/<sub>/<file>)
         TYP = "str" | "path"
  TEXT = {"g": bool (text does not parse), "gk": int, "secs": [{"stmts": [STMT..], "mode": MODE}] (two = service),
          "u": 1 | 2 | 3 (optional, with "g": true: the file cannot even be loaded - bytes that are not UTF-8, a truncated multi-byte
               sequence, a DIRECTORY named like a definition file)}
  STMT = ["ref", name, major, minor] | ["prim", bits] | ["print", n] | ["bad", k] | ["mention", HOW, name, major, minor]
         MODE = ["sealed"] | ["extent", bits] | ["none"]
         a "mention" writes the versioned name of a definition WITHOUT referring to it: HOW = "line" (a comment line of its own), "doc" (a
         comment line in front of the next attribute), "trail" (a comment after the statement of the previous line), "str" / "strcmp" (inside
         string literals of an @assert that holds).  It means nothing: the Lean model never sees it (`model_case` drops it).

Outcome: {"out": OUT, "out2": OUT?, "hist": [{"out": OUT, "nest": [..]}, ...] (one per history call), "inv": [descriptions of spellings / enumeration orders / hash seeds that changed the outcome],
          "nest": [nested types that differ from the stand-alone type]}
  OUT = {"res": "ok", "direct": [TY..], "transitive": [TY..] | null, "prints": [n..]}
      | {"res": "invalid" | "internal" | "foreign:<cls>", "prints": [...], "soft_cls": ..., "soft_path": ...}

Oracles are plain Python over the abstract graph (`spec_eval`), they need neither the Lean model nor the library.

Generators: gen_graph (dependency graphs; a fifth with version numbers of 1-3 digits, a third of the multi-root trees with nested
namespaces called like another root), gen_twins (names differing by letter case only among names that sort between the spellings),
gen_versions (version families; 40% with numbers of 1-3 digits and a port-ID that appears / disappears along the minor versions),
gen_names (file-name shapes), gen_dirs / gen_dirs_universe (directory-argument sets, incl. namesakes nested inside a directory),
gen_two_trees (several trees of one root namespace name holding the same relative paths, targets relative to working directories
in and around them), gen_history (call sequences), gen_perturb (C19), gen_samedir_twins (two files of one directory tree with one
name and version, and references to them: C09), gen_rollover (versions at the ends of the range in pairs that lossy sort keys cannot tell
apart - x.255 / (x+1).0 -, under several hash seeds: C10), ext_combo_name (file names with doubled / mixed / foreign extensions: C15),
gen_mentions (definitions that merely MENTION others in comments and string literals: C19, C10), gen_outofrange (version numbers beyond
255 in references and in the names of unreferenced files, equal to legal versions under lossy encodings of the pair: C09, C19), SIZE as a state
of badness of an unreferenced file ("big": bytes, C19), MIX spellings "name" (a root by its bare name next to its path) and "relroot" (a target
relative to the directory above its root, from any working directory): `decorate_mix`, `names_and_relroots_apply` (C10, C15, C09).
"""
from __future__ import annotations

import json
import os
import random
import re
import shutil
import subprocess
import sys
import tempfile
import typing
from pathlib import Path

import common

# ------------------------------------------------------------------------------------------------ text rendering

BAD_LINES = ["@assert false", "@bogus_directive", "@assert undefined_identifier == 1", "@assert 2 + 2 == 5"]
GARBAGE = ["%%% this is not dsdl $$$\n", "uint8 a b c\n@sealed\n", "@sealed\n(((\n", "uint8 x\n@sealed\n---\n---\n---\n"]


def render_text(text: dict) -> str:
    if text.get("g"):
        return GARBAGE[text.get("gk", 0) % len(GARBAGE)]
    lines = ["# generated"]
    for si, sec in enumerate(text["secs"]):
        if si >= 1:
            lines.append("---")
        fi = 0
        for st in sec["stmts"]:
            k = st[0]
            if k == "ref":
                lines.append("%s.%d.%d f%d" % (st[1], st[2], st[3], fi))
                fi += 1
            elif k == "prim":
                lines.append("uint%d f%d" % (st[1], fi))
                fi += 1
            elif k == "print":
                lines.append("@print %d" % st[1])
            elif k == "bad":
                lines.append(BAD_LINES[(st[1] if len(st) > 1 else 0) % len(BAD_LINES)])
            elif k == "mention":
                vn = "%s.%d.%d" % (st[2], st[3], st[4])
                how = st[1]
                if how == "trail" and (lines[-1].startswith("#") or lines[-1] == "---"):
                    how = "assert-trail"
                if how == "line":
                    lines.append("# supersedes %s (see there)" % vn)
                elif how == "doc":
                    lines.append("#   same encoding as %s" % vn)
                elif how == "trail":
                    lines[-1] += "  # like %s" % vn
                elif how == "assert-trail":
                    lines.append("@assert true # %s" % vn)
                elif how == "str":
                    lines.append('@assert "%s" != ""' % vn)
                elif how == "strcmp":
                    lines.append("@assert '%s' == \"%s\"  # cf. %s" % (vn, vn, vn))
                else:
                    raise ValueError(how)
            else:
                raise ValueError(k)
        m = sec["mode"]
        if m[0] == "sealed":
            lines.append("@sealed")
        elif m[0] == "extent":
            lines.append("@extent %d" % m[1])
    return "\n".join(lines) + "\n"


def without_mentions(f: dict) -> dict:
    """The file as the model sees it: a name that is merely written in a comment or in a string literal is no statement at all."""
    t = f["text"]
    if not any(st[0] == "mention" for sec in t.get("secs", []) for st in sec["stmts"]):
        return f
    t2 = dict(t)
    t2["secs"] = [{"stmts": [st for st in sec["stmts"] if st[0] != "mention"], "mode": sec["mode"]} for sec in t["secs"]]
    f2 = dict(f)
    f2["text"] = t2
    return f2


def is_def_file(fname: str) -> bool:
    return fname.endswith(".dsdl") or fname.endswith(".uavcan")


def file_rel(f: dict) -> str:
    return "/".join(list(f["dir"]) + list(f["sub"]) + [f["fname"]])


# ------------------------------------------------------------------------------------------------ implementation side

_pydsdl = None


def _lib():
    global _pydsdl
    if _pydsdl is None:
        _pydsdl = common.import_pydsdl()
        import logging

        logging.getLogger("pydsdl").setLevel(logging.CRITICAL)
    return _pydsdl


class _Shuffled:
    """Every directory enumeration of the library goes through a seeded shuffle (all orders are reachable)."""

    def __init__(self, seed):
        self.rng = random.Random(seed)

    def __enter__(self):
        self.orig_rglob = Path.rglob
        self.orig_glob = Path.glob
        rng = self.rng
        orig_rglob, orig_glob = self.orig_rglob, self.orig_glob

        def rglob(p, pattern, **kw):
            l = list(orig_rglob(p, pattern, **kw))
            rng.shuffle(l)
            return iter(l)

        def glob(p, pattern, **kw):
            l = list(orig_glob(p, pattern, **kw))
            rng.shuffle(l)
            return iter(l)

        Path.rglob = rglob  # type: ignore
        Path.glob = glob  # type: ignore
        return self

    def __exit__(self, *a):
        Path.rglob = self.orig_rglob  # type: ignore
        Path.glob = self.orig_glob  # type: ignore


def build_tree(tmp: Path, case: dict) -> None:
    dirs = all_dirs(case)
    for d in dirs:
        (tmp / "/".join(d)).mkdir(parents=True, exist_ok=True)
    for f in case["files"]:
        write_file(tmp, f)
    (tmp / "links").mkdir(exist_ok=True)
    (tmp / "elsewhere").mkdir(exist_ok=True)
    for i, d in enumerate(dirs):
        os.symlink(str(tmp / "/".join(d)), str(tmp / "links" / ("L%d" % i)), target_is_directory=True)


# what cannot be loaded as text at all: bytes that are not UTF-8, a truncated multi-byte sequence, a directory named like a definition
UNLOADABLE = {1: b"\xff\xfe\x00uint8 a\n@sealed\n", 2: b"# caf\xc3", 3: None}


# SIZE as a state of badness ("big": number of bytes, with "g": true): nothing at all, one byte, and contents around and beyond every
# size anybody might think no definition ever has (2**20 and its neighbours, several MiB); what the bytes are does not matter
SIZE_UNIT = b"\xff\xfe\x00 ]]] not DSDL {{{ @@@ \n"
SIZES = [0, 1, 2, 4096, 2**16, 2**20 - 1, 2**20, 2**20 + 1, 2**20 + 4096, 2 * 2**20 + 1, 3 * 2**20, 5 * 2**20 + 17]


def sized_garbage(size: int) -> bytes:
    return (SIZE_UNIT * (size // len(SIZE_UNIT) + 1))[:size]


def size_class(n: int) -> str:
    return "0" if n == 0 else "1-2" if n <= 2 else "small" if n < 2**20 - 1 else {2**20 - 1: "2^20-1", 2**20: "2^20", 2**20 + 1: "2^20+1"}.get(n, "over-2^20" if n < 2 * 2**20 else "several-MiB")


def write_file(tmp: Path, f: dict) -> None:
    p = tmp / file_rel(f)
    p.parent.mkdir(parents=True, exist_ok=True)
    u = f["text"].get("u")
    if f["text"].get("big") is not None:
        p.write_bytes(sized_garbage(int(f["text"]["big"])))
        return
    if u:
        if UNLOADABLE[u] is None:
            p.mkdir()
        else:
            p.write_bytes(UNLOADABLE[u])
        return
    p.write_text(render_text(f["text"]))


def remove_file(tmp: Path, f: dict) -> None:
    p = tmp / file_rel(f)
    if p.is_dir():
        p.rmdir()
    else:
        p.unlink()


def call_dirs(call: dict) -> typing.List[list]:
    out = [list(x) for x in call.get("lookups", [])] + [list(x) for x in call.get("roots", [])]
    if call["fn"] == "ns":
        out.append(list(call["root"]))
    return out


def all_dirs(case: dict) -> typing.List[list]:
    """Every directory that is mentioned: argument directories and the directories of the files (stable order)."""
    if case.get("alldirs") is not None:
        return [list(d) for d in case["alldirs"]]
    out: typing.List[list] = []
    call = case["call"]
    cand = [f["dir"] for f in case["files"]] + call_dirs(call)
    if case.get("perturb"):
        cand.append(case["perturb"]["file"]["dir"])
    for h in case.get("history", []):
        cand += call_dirs(h["call"])
    for d in cand:
        if list(d) not in out:
            out.append(list(d))
    return out


def reattribute(files: typing.List[dict], call: dict) -> typing.List[dict]:
    """The files from the point of view of `call`: each belongs to the outermost directory of the call that contains it
    (same indices; a file under none of the directories is left alone - the call cannot see it)."""
    dirs = call_dirs(call)
    out = []
    for f in files:
        comps = list(f["dir"]) + list(f["sub"])
        owners = [d for d in dirs if comps[: len(d)] == d]
        if owners:
            o = min(owners, key=len)
            f = dict(f)
            f["dir"], f["sub"] = list(o), comps[len(o):]
        out.append(f)
    return out


def step_case(case: dict, k: int) -> dict:
    """History call k as a case of its own (same tree, same symbolic links)."""
    h = case["history"][k]
    return {"files": reattribute(case["files"], h["call"]), "call": h["call"], "alldirs": all_dirs(case),
            "enum_seed": "%s/h%d" % (case.get("enum_seed", 0), k), "variants": []}


def ty_json(t, tmp: Path) -> dict:
    lib = _lib()
    is_srv = isinstance(t, lib.ServiceType)
    secs = [t.request_type, t.response_type] if is_srv else [t]
    refs = []
    for s in secs:
        for f in s.fields_except_padding:
            if isinstance(f.data_type, lib.CompositeType):
                refs.append(str(f.data_type))
    return {
        "n": t.full_name,
        "v": [int(t.version.major), int(t.version.minor)],
        "k": "srv" if is_srv else "msg",
        "pid": t.fixed_port_id,
        "sealed": [not isinstance(s, lib.DelimitedType) for s in secs],
        "extent": [int(s.extent) for s in secs],
        "refs": refs,
        "path": rel(t.source_file_path, tmp),
        "root": rel(t.source_file_path_to_root, tmp),
    }


def rel(p, tmp: Path) -> str:
    try:
        return str(Path(p).resolve().relative_to(tmp))
    except Exception:
        return "OUTSIDE:" + str(p)


def nest_problems(types, tmp: Path) -> typing.List[str]:
    """Every nested composite must be equal to the stand-alone type with the same name and version."""
    lib = _lib()
    by_key = {}
    for t in types:
        by_key.setdefault(str(t), t)
    out = []
    for t in types:
        secs = [t.request_type, t.response_type] if isinstance(t, lib.ServiceType) else [t]
        for s in secs:
            for f in s.fields_except_padding:
                n = f.data_type
                if isinstance(n, lib.CompositeType):
                    sa = by_key.get(str(n))
                    if sa is None:
                        continue
                    if not (n == sa) or ty_json(n, tmp) != ty_json(sa, tmp):
                        out.append("%s in %s" % (n, t))
    return sorted(set(out))


def spell_dir(tmp: Path, case: dict, d: list, how: str):
    """One spelling of a directory argument; `how` in abs|rel|slash|link|dotdot|pathobj (rel needs cwd == tmp)."""
    ab = str(tmp / "/".join(d))
    if how == "abs":
        return ab
    if how == "rel":
        return "/".join(d)
    if how == "slash":
        return ab + "/"
    if how == "link":
        return str(tmp / "links" / ("L%d" % all_dirs(case).index(list(d))))
    if how == "dotdot":
        return str(tmp / d[0] / ".." / "/".join(d)) if len(d) > 1 else ab + "/."
    if how == "pathobj":
        return Path(ab)
    raise ValueError(how)


DIR_HOWS = ["abs", "slash", "dotdot", "link", "rel", "rellink"]
FILE_HOWS = ["abs", "dotdot", "link", "rel", "rellink"]
FORMS = ["list", "tuple", "set", "frozenset", "keys", "gen", "iter", "map", "chain"]
ONE_SHOT_FORMS = ("gen", "iter", "map", "chain")


def spell_path(tmp: Path, case: dict, cwd: str, d: list, how: str, typ: str, tail: typing.Optional[str] = None):
    """One spelling of directory `d` (or of the file `tail` below it): HOW x TYP of the module docstring."""
    ab = str(tmp / "/".join(d))
    if how in ("name", "relroot"):
        # the bare NAME of the root namespace (a root argument) / the target as a path below the directory that holds its root
        # namespace directory, wherever the working directory is: "alpha", "alpha/x/A.1.0.dsdl"
        assert (tail is None) == (how == "name")
        s = d[-1] if tail is None else d[-1] + "/" + tail
        return Path(s) if typ == "path" else s
    if how in ("abs", "slash"):
        s = ab
    elif how == "dotdot":
        s = str(tmp / d[0] / ".." / "/".join(d)) if len(d) > 1 else ab + "/."
    elif how in ("link", "rellink"):
        s = str(tmp / "links" / ("L%d" % all_dirs(case).index(list(d))))
    elif how == "rel":
        s = ab
    else:
        raise ValueError(how)
    if how in ("rel", "rellink"):
        s = os.path.relpath(s, cwd)
    if tail is not None:
        s = s.rstrip("/") + "/" + tail
    elif how == "slash":
        s += "/"
    return Path(s) if typ == "path" else s


def make_form(items: list, form: str):
    """The argument object handed to the library; the one-shot forms can be iterated exactly once."""
    import itertools

    if form == "list":
        return list(items)
    if form == "tuple":
        return tuple(items)
    if form == "set":
        return set(items)
    if form == "frozenset":
        return frozenset(items)
    if form == "keys":
        return dict.fromkeys(items).keys()
    if form == "gen":
        return (x for x in items)
    if form == "iter":
        return iter(list(items))
    if form == "map":
        return map(Path, list(items))
    if form == "chain":
        k = len(items) // 2
        return itertools.chain(items[:k], items[k:])
    if form == "single":
        assert len(items) == 1
        return items[0]
    if form == "none":
        assert not items
        return None
    raise ValueError(form)


def _uniq(xs):
    out = []
    for x in xs:
        if x not in out:
            out.append(x)
    return out


def mix_applies(call: dict, mix: dict) -> bool:
    """The MIX passes the same sets as the call: every argument names exactly the call's elements (in any order, any number of
    times, any spelling); the lookups may additionally name root directories, which are part of the lookup set anyway."""
    def form_ok(arg):
        n = len(arg["items"])
        return (arg["form"] != "single" or n == 1) and (arg["form"] != "none" or n == 0)

    lk = mix.get("lookups")
    if lk is None or not form_ok(lk):
        return False
    named = _uniq([list(x[0]) for x in lk["items"]])
    want = _uniq([list(x) for x in call["lookups"]])
    if call["fn"] == "ns":
        own = [list(call["root"])]
        if "root" not in mix:
            return False
    else:
        ts, rs = mix.get("targets"), mix.get("roots")
        if ts is None or rs is None or not form_ok(ts) or not form_ok(rs):
            return False
        if sorted(set(x[0] for x in ts["items"])) != sorted(set(call["targets"])) or not ts["items"]:
            return False
        own = _uniq([list(x) for x in call["roots"]])
        if sorted(_uniq([list(x[0]) for x in rs["items"]])) != sorted(own):
            return False
    return sorted(d for d in named if d not in own) == sorted(d for d in want if d not in own)


PLAIN_DIR_HOWS = ("abs", "slash", "dotdot")


def names_and_relroots_apply(tmp: Path, case: dict, mix: dict, cwd: str) -> bool:
    """When do the spellings "name" (a root given by its bare NAME, next to a path of the same root) and "relroot" (a target given
    as a path below the directory that holds its root, which need not be the working directory) designate what the call means?
      name:    the same root is also named by a path in the same argument (the name is a second, redundant designation), and the
               name is not at the same time a relative path to something else (nothing of that name in the working directory,
               unless the working directory is the one that holds the root);
      relroot: the target's root is named by a path whose last component is the root's name (not only through a symbolic link
               with another name or as "."), no other designated root of that name holds the same relative path, no directory
               above a root carries the name, and the path does not exist relative to the working directory (unless the
               working directory is the one that holds the root, where it is the file itself)."""
    call, files = case["call"], case["files"]
    ritems = mix["roots"]["items"]
    roots = _uniq([list(x) for x in call["roots"]])
    for ref, how, _typ in ritems:
        if how != "name":
            continue
        d = list(ref)
        if not any(list(r2) == d and h2 != "name" for r2, h2, _ in ritems):
            return False
        if os.path.lexists(os.path.join(cwd, d[-1])) and Path(cwd) != tmp / "/".join(d[:-1]):
            return False
    have = {file_rel(f) for f in files}
    for ref, how, _typ in mix["targets"]["items"]:
        if how != "relroot":
            continue
        f = files[ref]
        d, tail = list(f["dir"]), list(f["sub"]) + [f["fname"]]
        if not any(list(r2) == d and h2 in PLAIN_DIR_HOWS for r2, h2, _ in ritems):
            return False
        for x in roots:
            if x != d and x[-1] == d[-1] and "/".join(x + tail) in have:
                return False
            if any(x[:k][-1] == d[-1] and x[:k] != d for k in range(1, len(x))):
                return False
        if d[-1] in tmp.parts:
            return False
        if Path(cwd) != tmp / "/".join(d[:-1]) and os.path.lexists(os.path.join(cwd, d[-1])):
            return False
    return True


def decorate_mix(mix: dict, call: dict, files: typing.List[dict]) -> None:
    """One root namespace designated twice in different forms - by its bare NAME next to its path(s), at any position of the
    argument, any number of times - and targets spelled relative to the directory above their root from working directories where
    no such path exists (read_files only).  Random choices from a generator derived from the MIX itself, so that the MIX drawn by
    `gen_mix` for a given call is the same with and without this step."""
    if call["fn"] != "files":
        return
    r = random.Random("names/" + json.dumps(mix, sort_keys=True))
    x = r.random()
    if x >= 0.4:
        return
    rs, ts = mix["roots"], mix["targets"]
    if rs["form"] not in ("single", "none"):
        named = _uniq([list(it[0]) for it in rs["items"]])
        for _ in range(r.choice([1, 1, 2])):
            d = r.choice(named)
            rs["items"].insert(r.randint(0, len(rs["items"])), [d, "name", r.choice(["str", "str", "path"])])
        if r.random() < 0.5:   # make sure that a path of the kind the name can be welded onto is there as well
            d = r.choice(named)
            rs["items"].insert(r.randint(0, len(rs["items"])), [d, r.choice(PLAIN_DIR_HOWS), r.choice(["str", "path"])])
    if x < 0.3:
        for it in ts["items"]:
            if r.random() < 0.8:
                it[1] = "relroot"
        if r.random() < 0.7:
            mix["cwd"] = r.choice([["elsewhere"], ["elsewhere"], [], ["links"]])


def spell_mix(tmp: Path, case: dict, mix: dict) -> typing.Optional[typing.Tuple[str, tuple, dict, str]]:
    call = case["call"]
    if not mix_applies(call, mix):
        return None
    kw = {"allow_unregulated_fixed_port_id": bool(call["allow_unreg"])}
    cwd = str(tmp / "/".join(mix.get("cwd") or [])) if mix.get("cwd") else str(tmp)
    if not os.path.isdir(cwd):
        return None
    known = all_dirs(case)

    def arg(a, files=None):
        items = []
        for ref, how, typ in a["items"]:
            if files is None:
                if list(ref) not in known:
                    return KeyError
                items.append(spell_path(tmp, case, cwd, list(ref), how, typ))
            else:
                f = files[ref]
                if list(f["dir"]) not in known:
                    return KeyError
                items.append(spell_path(tmp, case, cwd, list(f["dir"]), how, typ, "/".join(list(f["sub"]) + [f["fname"]])))
        return make_form(items, a["form"])

    if call["fn"] == "files" and not names_and_relroots_apply(tmp, case, mix, cwd):
        return None
    ls = arg(mix["lookups"])
    if ls is KeyError:
        return None
    if call["fn"] == "ns":
        kw["allow_root_namespace_name_collision"] = bool(call["allow_collision"])
        r = spell_path(tmp, case, cwd, list(call["root"]), mix["root"][0], mix["root"][1])
        return "read_namespace", (r, ls), kw, cwd
    ts, rs = arg(mix["targets"], case["files"]), arg(mix["roots"])
    if ts is KeyError or rs is KeyError:
        return None
    return "read_files", (ts, rs, ls), kw, cwd


def gen_mix(rng: random.Random, call: dict, files: typing.List[dict], cwd: typing.Optional[list] = None, target_hows: typing.Optional[list] = None) -> dict:
    """Every path-like argument in a FORM of its own, every element in a SPELLING of its own, elements repeated in other spellings.
    `cwd` / `target_hows` narrow the choice of the working directory / of the spellings of the targets."""
    def sp(hows):
        return [rng.choice(hows), rng.choice(["str", "str", "path"])]

    def pick_form():
        return rng.choice(FORMS + ["single", "single", "single", "none"])

    def build(base: list, alias_pool: list, hows, none_ok: bool):
        """base = the elements that must be named; alias_pool = elements that may be named (again) without changing the set."""
        form = pick_form()
        if form == "single":
            if len(base) == 1:
                return {"form": form, "items": [[base[0]] + sp(hows)]}
            if not base and alias_pool:
                return {"form": form, "items": [[rng.choice(alias_pool)] + sp(hows)]}
            form = rng.choice(FORMS)
        if form == "none":
            if not base and none_ok:
                return {"form": form, "items": []}
            form = rng.choice(FORMS)
        items = [[b] + sp(hows) for b in base]
        for _ in range(rng.choice([0, 0, 1, 1, 2])):
            if alias_pool:
                items.append([rng.choice(alias_pool)] + sp(hows))
        rng.shuffle(items)
        return {"form": form, "items": items}

    dirs = call_dirs(call)
    if call["fn"] == "files":
        dirs = dirs + [list(files[i]["dir"]) for i in call["targets"]]
    cwds: typing.List[list] = [[], [], ["elsewhere"]] + [list(d[:-1]) for d in dirs] + [list(rng.choice(dirs))]
    # (a root of read_files spelled "." - the working directory IS the root - used to be excluded here: every relative target
    #  was lexically "relative to" Path("."), a bare ValueError escaped; repaired in /repo by 1e7d19c, recorded in known_findings.json)
    mix: dict = {"mix": 1, "cwd": rng.choice(cwds)}
    if cwd is not None:
        mix["cwd"] = list(cwd)
    lks = _uniq([list(x) for x in call["lookups"]])
    if call["fn"] == "ns":
        root = list(call["root"])
        mix["root"] = sp(DIR_HOWS)
        mix["lookups"] = build(lks, _uniq(lks + [root]), DIR_HOWS, True)
        return mix
    tix = _uniq(list(call["targets"]))
    roots = _uniq([list(x) for x in call["roots"]])
    mix["targets"] = build(tix, tix, target_hows or FILE_HOWS, False)
    mix["roots"] = build(roots, roots, DIR_HOWS, False)
    mix["lookups"] = build(lks, _uniq(lks + roots), DIR_HOWS, True)
    if cwd is None and target_hows is None:
        decorate_mix(mix, call, files)
    return mix


def shrink_mix(v: dict) -> typing.Iterable[dict]:
    """Simpler MIXes: working directory <tmp>, plain list form, plain spelling, no repeated element - one step at a time."""
    if v.get("cwd"):
        m = json.loads(json.dumps(v))
        m["cwd"] = []
        yield m
    if "root" in v and v["root"] != ["abs", "str"]:
        m = json.loads(json.dumps(v))
        m["root"] = ["abs", "str"]
        yield m
    for a in ("targets", "roots", "lookups"):
        if a not in v:
            continue
        if v[a]["form"] != "list":
            m = json.loads(json.dumps(v))
            m[a]["form"] = "list"
            yield m
        for j, it in enumerate(v[a]["items"]):
            if v[a]["form"] not in ("single", "none"):
                m = json.loads(json.dumps(v))
                m[a]["items"].pop(j)
                yield m  # (does not apply - and is skipped - if the element was the only mention of a required one)
            if it[1:] != ["abs", "str"]:
                m = json.loads(json.dumps(v))
                m[a]["items"][j][1:] = ["abs", "str"]
                yield m


def mix_features(call: dict, v: dict) -> typing.Iterable[str]:
    if not mix_applies(call, v):
        yield "mix:not-applicable"
        return
    cwd = v.get("cwd") or []
    own = [list(call["root"])] if call["fn"] == "ns" else [list(x) for x in call.get("roots", [])]
    yield "mix-cwd:" + ("tmp" if not cwd else "elsewhere" if cwd == ["elsewhere"] else "an-argument-directory" if cwd in call_dirs(call)
                        else "above-an-argument-directory" if any(d[: len(cwd)] == cwd for d in call_dirs(call)) else "other")
    if "root" in v:
        yield "mix-root:%s/%s" % tuple(v["root"])
    for a in ("targets", "roots", "lookups"):
        if a not in v:
            continue
        x = v[a]
        yield "mix-form:%s:%s" % (a, x["form"])
        if x["form"] in ONE_SHOT_FORMS:
            yield "mix-form:one-shot-iterable"
        for it in x["items"]:
            yield "mix-spelling:%s:%s/%s" % (a, it[1], it[2])
        refs = [json.dumps(it[0]) for it in x["items"]]
        if len(set(refs)) < len(refs):
            yield "mix:%s:element-repeated-in-other-spelling" % a
        if a == "roots" and any(it[1] == "name" for it in x["items"]):
            k = next(j for j, it in enumerate(x["items"]) if it[1] == "name")
            paths = [j for j, it in enumerate(x["items"]) if it[1] != "name" and list(it[0]) == list(x["items"][k][0])]
            yield "mix:root-by-bare-name-and-by-path:name-" + ("first" if paths and k < min(paths) else "last" if paths and k > max(paths) else "between")
            if any(it[1] == "relroot" for it in v["targets"]["items"]):
                yield "mix:root-by-bare-name-and-by-path+target-relative-to-the-directory-above-its-root:cwd-" + (
                    "is-that-directory" if any(list(r[:-1]) == list(cwd) for r in own) else "elsewhere")
        if a == "lookups":
            al = [it for it in x["items"] if list(it[0]) in own]
            if al:
                yield "mix:lookups-name-a-root"
                if x["form"] == "single":
                    yield "mix:lookups-single-value-naming-a-root:" + ("canonical" if al[0][1] in ("abs", "slash") else "alias")
            if x["form"] == "single" and not al:
                yield "mix:lookups-single-value:" + ("canonical" if x["items"][0][1] in ("abs", "slash") else "alias")


def mix_universe(call: dict, files: typing.List[dict]) -> typing.Dict[str, typing.List[dict]]:
    """Small-scope enumeration for the corpus: one argument at a time in every FORM x every SPELLING (the other arguments as plain
    lists of absolute strings), the lookups also with another spelling of a root added / as the only element.  Keyed by form."""
    out: typing.Dict[str, typing.List[dict]] = {}
    lks = _uniq([list(x) for x in call["lookups"]])
    if call["fn"] == "ns":
        own, args = [list(call["root"])], {"lookups": lks}
    else:
        own = _uniq([list(x) for x in call["roots"]])
        args = {"targets": _uniq(list(call["targets"])), "roots": own, "lookups": lks}

    def plain():
        m: dict = {"mix": 1, "cwd": []}
        if call["fn"] == "ns":
            m["root"] = ["abs", "str"]
        for a, els in args.items():
            m[a] = {"form": "list", "items": [[e, "abs", "str"] for e in els]}
        return m

    for a, els in args.items():
        hows = FILE_HOWS if a == "targets" else DIR_HOWS
        for form in FORMS + ["single", "none"]:
            for hi, how in enumerate(hows):
                for extra in ([None] if a != "lookups" else [None] + own[:1]):
                    items = [[e, how, ("str", "path")[(hi + j) % 2]] for j, e in enumerate(els)]
                    if extra is not None:
                        items.append([extra, how, ("path", "str")[hi % 2]])
                    if (form == "single" and len(items) != 1) or (form == "none" and (items or a != "lookups")):
                        continue
                    m = plain()
                    m[a] = {"form": form, "items": items}
                    out.setdefault(form, []).append(m)
    if call["fn"] == "ns":
        for how in DIR_HOWS:
            for typ in ("str", "path"):
                m = plain()
                m["root"] = [how, typ]
                out.setdefault("list", []).append(m)
    else:
        # every root designated twice - by its bare name and by a path - in every order, also three times; the targets in every
        # spelling, also relative to the directory above their root from working directories where no such path exists
        for thow in FILE_HOWS + ["relroot"]:
            for cwd in ([[], ["elsewhere"], own[0][:-1]] if thow in ("relroot", "rel") else [["elsewhere"]]):
                for k, order in enumerate(("name-first", "name-last", "name-path-name", "path-name-path")):
                    m = plain()
                    m["cwd"] = list(cwd)
                    m["targets"]["items"] = [[e, thow, ("str", "path")[(k + j) % 2]] for j, e in enumerate(args["targets"])]
                    items: typing.List[list] = []
                    for j, e in enumerate(own):
                        nm, pa = [e, "name", ("str", "path")[(k + j) % 2]], [e, PLAIN_DIR_HOWS[(k + j) % 3], ("path", "str")[j % 2]]
                        items += {"name-first": [nm, pa], "name-last": [pa, nm], "name-path-name": [nm, pa, nm], "path-name-path": [pa, nm, [e, "abs", "str"]]}[order]
                    m["roots"] = {"form": ("list", "tuple", "gen", "list")[k], "items": items}
                    out.setdefault("names+paths", []).append(m)
    return out


def describe_variant(v) -> str:
    if not isinstance(v, dict):
        return str(v)

    def a(x):
        return "%s[%s]" % (x["form"], ", ".join("%s:%s/%s" % ("/".join(i[0]) if isinstance(i[0], list) else "#%s" % i[0], i[1], i[2]) for i in x["items"]))

    parts = ["cwd=<tmp>/%s" % "/".join(v.get("cwd") or [])]
    if "root" in v:
        parts.append("root=%s/%s" % tuple(v["root"]))
    for k in ("targets", "roots", "lookups"):
        if k in v:
            parts.append("%s=%s" % (k, a(v[k])))
    return "mix(" + "; ".join(parts) + ")"


NS_VARIANTS = ["rel", "slash", "link", "dotdot", "pathobj", "dup", "reorder", "rootlink", "single"]
FILES_VARIANTS = ["names", "relcwd", "relnoroots", "relelsewhere", "linkroots", "linkfiles", "dup", "single", "slash", "pathobj"]


def spell_call(tmp: Path, case: dict, variant) -> typing.Optional[typing.Tuple[str, tuple, dict, str]]:
    """(function name, positional args, kwargs, cwd) for one spelling; None if the spelling does not apply."""
    if isinstance(variant, dict):
        return spell_mix(tmp, case, variant)
    call = case["call"]
    kw = {"allow_unregulated_fixed_port_id": bool(call["allow_unreg"])}
    cwd = str(tmp / "elsewhere")
    if call["fn"] == "ns":
        kw["allow_root_namespace_name_collision"] = bool(call["allow_collision"])
        root, lks = call["root"], [list(x) for x in call["lookups"]]
        how = "abs"
        if variant in ("rel", "slash", "link", "dotdot", "pathobj"):
            how = variant
        if how == "rel":
            cwd = str(tmp)
        r = spell_dir(tmp, case, root, "link" if variant == "rootlink" else how)
        ls: typing.Any = [spell_dir(tmp, case, x, how) for x in lks]
        if variant == "dup":
            ls = ls + ls[::-1] + [spell_dir(tmp, case, root, "abs")]
        elif variant == "reorder":
            ls = ls[::-1] + [spell_dir(tmp, case, root, "slash")]
        elif variant == "single":
            if len(ls) == 1:
                ls = ls[0]
            elif len(ls) == 0:
                ls = None
            else:
                return None
        return "read_namespace", (r, ls), kw, cwd
    files = case["files"]
    tix = list(call["targets"])
    roots = [list(x) for x in call["roots"]]
    lks = [list(x) for x in call["lookups"]]
    t_abs = [str(tmp / file_rel(files[i])) for i in tix]
    r_abs = [spell_dir(tmp, case, x, "abs") for x in roots]
    l_abs = [spell_dir(tmp, case, x, "abs") for x in lks]
    all_l = l_abs + [x for x in r_abs if x not in l_abs]
    t_roots = [files[i]["dir"] for i in tix]
    if variant == "base":
        return "read_files", (t_abs, r_abs, l_abs), kw, cwd
    if variant == "names":
        # bare root namespace names (inference 4); the directories themselves go to the lookup list
        names = []
        for x in roots:
            if x[-1] not in names:
                names.append(x[-1])
        # every target must lie in a directory of that name and no path component above it may carry a root name
        for i in tix:
            comps = list(tmp.parts) + files[i]["dir"][:-1]
            if any(c in names for c in comps):
                return None
        return "read_files", (t_abs, names, all_l), kw, cwd
    if variant in ("relcwd", "relnoroots"):
        ws = {tuple(x[:-1]) for x in t_roots + roots}
        if len(ws) != 1:
            return None
        w = list(ws.pop())
        cwd = str(tmp / "/".join(w)) if w else str(tmp)
        t_rel = ["/".join([files[i]["dir"][-1]] + files[i]["sub"] + [files[i]["fname"]]) for i in tix]
        if variant == "relcwd":
            return "read_files", (t_rel, [x[-1] for x in roots], l_abs), kw, cwd
        return "read_files", (t_rel, [], all_l), kw, cwd
    if variant == "relelsewhere":
        # relative target welded onto an absolute root (inference 3): unambiguous only if no other root of the
        # same name holds the same relative file
        have = {file_rel(f) for f in files}
        t_rel = []
        for i in tix:
            f = files[i]
            tail = f["sub"] + [f["fname"]]
            for x in roots:
                if x != f["dir"] and x[-1] == f["dir"][-1] and "/".join(x + tail) in have:
                    return None
            # a parent of some root with the right last component would also weld: exclude such layouts
            for x in roots:
                for k in range(1, len(x)):
                    if x[:k][-1] == f["dir"][-1] and x[:k] != f["dir"]:
                        return None
            t_rel.append("/".join([f["dir"][-1]] + tail))
        if any(c == files[i]["dir"][-1] for i in tix for c in tmp.parts):
            return None
        return "read_files", (t_rel, r_abs, l_abs), kw, cwd
    if variant == "linkroots":
        return "read_files", (t_abs, [spell_dir(tmp, case, x, "link") for x in roots], l_abs), kw, cwd
    if variant == "linkfiles":
        t_l = [str(Path(spell_dir(tmp, case, files[i]["dir"], "link")) / "/".join(files[i]["sub"] + [files[i]["fname"]])) for i in tix]
        return "read_files", (t_l, r_abs, l_abs), kw, cwd
    if variant == "dup":
        return "read_files", (t_abs[::-1] + t_abs, r_abs[::-1] + r_abs, l_abs + l_abs[::-1]), kw, cwd
    if variant == "single":
        if len(t_abs) != 1 or len(r_abs) != 1:
            return None
        return "read_files", (t_abs[0], r_abs[0], l_abs if l_abs else None), kw, cwd
    if variant == "slash":
        return "read_files", (t_abs, [x + "/" for x in r_abs], [x + "/" for x in l_abs]), kw, cwd
    if variant == "pathobj":
        return "read_files", ([Path(x) for x in t_abs], [Path(x) for x in r_abs], [Path(x) for x in l_abs]), kw, cwd
    raise ValueError(variant)


def one_call(tmp: Path, case: dict, variant: str, enum_seed) -> typing.Optional[dict]:
    """Run one spelling of the call on the tree at `tmp`; canonical outcome."""
    lib = _lib()
    sp = spell_call(tmp, case, "abs" if (variant == "base" and case["call"]["fn"] == "ns") else variant)
    if sp is None:
        return None
    fn, args, kw, cwd = sp
    prints: typing.List[int] = []

    def handler(path, line, text):
        try:
            prints.append(int(text))
        except ValueError:
            prints.append(-1)

    kw["print_output_handler"] = handler
    old = os.getcwd()
    os.chdir(cwd)
    try:
        with _Shuffled(enum_seed):
            try:
                r = getattr(lib, fn)(*args, **kw)
            except lib.InvalidDefinitionError as ex:
                return {"res": "invalid", "prints": prints, "soft_cls": type(ex).__name__,
                        "soft_path": rel(ex.path, tmp) if ex.path is not None else None}
            except lib.InternalError as ex:
                return {"res": "internal", "prints": prints, "soft_cls": "InternalError", "soft_msg": str(ex)[:200]}
            except RecursionError:
                return {"res": "foreign:RecursionError", "prints": prints}
            except Exception as ex:  # noqa
                return {"res": "foreign:" + type(ex).__name__, "prints": prints, "soft_msg": str(ex)[:200]}
        if fn == "read_namespace":
            direct, transitive = list(r), None
        else:
            direct, transitive = list(r[0]), list(r[1])
        out = {"res": "ok", "direct": [ty_json(t, tmp) for t in direct],
               "transitive": None if transitive is None else [ty_json(t, tmp) for t in transitive], "prints": prints}
        out["_nest"] = nest_problems(direct + (transitive or []), tmp)
        return out
    finally:
        os.chdir(old)


def hard(o: dict) -> dict:
    return {k: v for k, v in o.items() if not k.startswith("soft") and not k.startswith("_")}


def run_on_tree(tmp: Path, case: dict) -> dict:
    seed = case.get("enum_seed", 0)
    hist: typing.List[dict] = []
    for k, h in enumerate(case.get("history", [])):
        sc = step_case(case, k)
        o = one_call(tmp, sc, h["variant"], sc["enum_seed"]) if h.get("variant", "base") != "base" else None
        if o is None:
            o = one_call(tmp, sc, "base", sc["enum_seed"])
        assert o is not None
        hist.append({"out": hard(o), "nest": o.get("_nest", []), "soft_cls": o.get("soft_cls"), "soft_path": o.get("soft_path"),
                     "soft_msg": o.get("soft_msg")})
    base = one_call(tmp, case, "base", seed)
    assert base is not None
    inv: typing.List[str] = []
    for k, v in enumerate(case.get("variants", [])):
        o = one_call(tmp, case, v, "%s/%d" % (seed, k))
        if o is not None and hard(o) != hard(base):
            inv.append("spelling %s: %s" % (describe_variant(v), json.dumps(hard(o), sort_keys=True)[:300]))
    under_seed: typing.List[list] = []
    for hs in case.get("hashseeds", []):
        o = subprocess_call(tmp, case, hs)
        if hard(o) != hard(base):
            inv.append("PYTHONHASHSEED=%s: %s" % (hs, json.dumps(hard(o), sort_keys=True)[:300]))
        if o.get("res") == "ok":
            under_seed.append([hs, hard(o)])
    res = {"out": hard(base), "inv": inv, "nest": base.get("_nest", []),
           "soft_cls": base.get("soft_cls"), "soft_path": base.get("soft_path"), "soft_msg": base.get("soft_msg")}
    if under_seed:
        res["soft_under_seed"] = under_seed   # (soft: the model has no hash seeds; the oracle judges each of these results on its own)
    if case.get("history"):
        res["hist"] = hist
    if case.get("perturb"):
        p = case["perturb"]
        old = case["files"][p["idx"]]
        remove_file(tmp, old)
        write_file(tmp, p["file"])
        case2 = dict(case)
        case2["files"] = list(case["files"])
        case2["files"][p["idx"]] = p["file"]
        o2 = one_call(tmp, case2, "base", "%s/p" % seed)
        assert o2 is not None
        res["out2"] = hard(o2)
        res["soft_cls2"] = o2.get("soft_cls")
        res["soft_path2"] = o2.get("soft_path")
    return res


def subprocess_call(tmp: Path, case: dict, hashseed: int) -> dict:
    env = dict(os.environ)
    env["PYTHONHASHSEED"] = str(hashseed)
    env["VERIF_REPO"] = str(common.REPO)
    code = ("import sys, json; sys.path.insert(0, %r); from suites import ns; "
            "ns.child_main()" % str(Path(__file__).resolve().parent.parent))
    c = {k: v for k, v in case.items() if k not in ("variants", "hashseeds", "perturb")}
    try:
        r = subprocess.run([sys.executable, "-c", code, str(tmp)], input=json.dumps(c), stdout=subprocess.PIPE,
                           stderr=subprocess.PIPE, text=True, timeout=120, env=env)
        return json.loads(r.stdout.strip().splitlines()[-1])
    except Exception as ex:  # noqa
        return {"res": "child-failed:" + type(ex).__name__}


def child_main() -> None:
    tmp = Path(sys.argv[1])
    case = json.loads(sys.stdin.read())
    o = one_call(tmp, case, "base", case.get("enum_seed", 0))
    print(json.dumps(hard(o)))


# ------------------------------------------------------------------------------------------------ independent oracle

FN_RE = re.compile(r"^(?:(0|[1-9][0-9]*)\.)?([A-Za-z_][A-Za-z0-9_]*)\.(0|[1-9][0-9]*)\.(0|[1-9][0-9]*)\.(dsdl|uavcan)\Z")
COMP_RE = re.compile(r"^[A-Za-z_][A-Za-z0-9_]*\Z")


def parse_strict(fname: str):
    """`[<port-id>.]<ShortName>.<major>.<minor>.dsdl|.uavcan` with plain decimal numerals; None = not of this shape."""
    m = FN_RE.match(fname)
    if not m:
        return None
    return (None if m.group(1) is None else int(m.group(1)), m.group(2), int(m.group(3)), int(m.group(4)))


def python_int_accepts(s: str) -> bool:
    try:
        int(s)
        return True
    except ValueError:
        return False


def lenient_only(fname: str) -> bool:
    """A name that is not of the required shape but that `int()` based parsing would take (finding F10)."""
    if parse_strict(fname) is not None or not is_def_file(fname):
        return False
    parts = fname.split(".")[:-1]
    if len(parts) == 4:
        nums, short = [parts[0], parts[2], parts[3]], parts[1]
    elif len(parts) == 3:
        nums, short = [parts[1], parts[2]], parts[0]
    else:
        return False
    if not COMP_RE.match(short) or not all(python_int_accepts(x) for x in nums):
        return False
    return not all(re.fullmatch(r"[0-9]+", x) for x in nums)  # leading zeros are left unjudged ("$" would also match before a final line feed)


class Invalid(Exception):
    def __init__(self, reason):
        super().__init__(reason)
        self.reason = reason


class Unspecified(Exception):
    pass


class SDef:
    def __init__(self, idx, f):
        self.idx = idx
        self.f = f
        self.dir = list(f["dir"])
        self.path = file_rel(f)
        self.root = "/".join(f["dir"])
        self.parsed = parse_strict(f["fname"])
        comps_ok = all(COMP_RE.match(c) for c in [self.dir[-1]] + list(f["sub"]))
        self.wellformed = self.parsed is not None and comps_ok
        self.leading_zero = False
        if self.parsed is None and is_def_file(f["fname"]):
            parts = f["fname"].split(".")[:-1]
            self.leading_zero = len(parts) in (3, 4) and all(re.fullmatch(r"[0-9]+", x) for x in (parts[-2:] + (parts[:1] if len(parts) == 4 else [])))
        if self.wellformed:
            self.pid, short, self.major, self.minor = self.parsed
            self.ns = ".".join([self.dir[-1]] + list(f["sub"]))
            self.name = self.ns + "." + short
            self.key = (self.name, self.major, self.minor)
        self.text = f["text"]


def sort_key(t):
    return (t["n"], -t["v"][0], -t["v"][1])


def dirs_rule(dirs: typing.List[list], allow_collisions: bool) -> bool:
    """True = the set of directories must be rejected."""
    ds = []
    for d in dirs:
        if list(d) not in ds:
            ds.append(list(d))
    for a in ds:
        for b in ds:
            if a == b:
                continue
            if len(a) > len(b) and a[: len(b)] == b:
                return True
            if not allow_collisions and a[-1].lower() == b[-1].lower():
                return True
    return False


def c11_rule(direct: typing.List[dict], everything: typing.List[dict]) -> typing.Optional[str]:
    """The declarative consistency rule of C11; None = consistent."""
    for i, a in enumerate(direct):
        for j, b in enumerate(direct):
            if i == j or a["k"] != b["k"] or a["pid"] is None or a["pid"] != b["pid"]:
                continue
            same_name = a["n"] == b["n"]
            ok = same_name and (a["v"][0] == b["v"][0] or a["v"][0] == 0 or b["v"][0] == 0)
            if not ok:
                return "port-ID %s shared by %s.%s and %s.%s" % (a["pid"], a["n"], a["v"], b["n"], b["v"])
    for i, a in enumerate(everything):
        for j, b in enumerate(everything):
            if i == j or a["n"] != b["n"] or a["v"][0] != b["v"][0]:
                continue
            if a["k"] != b["k"]:
                return "kinds differ under one major: %s %s %s" % (a["n"], a["v"], b["v"])
            if a["v"][1] < b["v"][1]:  # a older than b
                if a["pid"] is not None and b["pid"] != a["pid"]:
                    return "port-ID changed or removed in a newer minor: %s %s %s" % (a["n"], a["v"], b["v"])
            if a["v"][0] >= 1 and (a["extent"] != b["extent"] or a["sealed"] != b["sealed"]):
                return "extent or sealing differ under one major >= 1: %s %s %s" % (a["n"], a["v"], b["v"])
    return None


def regulated(is_srv: bool, root_name: str, pid: int) -> bool:
    std = root_name in ("uavcan", "cyphal")
    if is_srv:
        lo, hi = (384, 511) if std else (256, 383)
    else:
        lo, hi = (7168, 8191) if std else (6144, 7167)
    return lo <= pid <= hi


def spec_eval(files: typing.List[dict], call: dict) -> dict:
    """What the property statements demand for this call, from the abstract description only."""
    defs = [SDef(i, f) for i, f in enumerate(files)]
    res: dict = {"res": "ok", "reason": None, "closure": set(), "near": set(), "lookup_malformed": False, "direct": [], "transitive": [], "targets": []}
    if call["fn"] == "ns":
        dirs = [list(x) for x in call["lookups"]] + [list(call["root"])]
        allow = bool(call["allow_collision"])
        targets = [d for d in defs if d.dir == list(call["root"]) and is_def_file(d.f["fname"])]
    else:
        targets = []
        for i in call["targets"]:
            if defs[i] not in targets:
                targets.append(defs[i])
        dirs = [list(x) for x in call["lookups"]] + [d.dir for d in targets] + [list(x) for x in call["roots"]]
        allow = True
    res["targets"] = [d.idx for d in targets]
    if call["fn"] == "files" and any(d.dir not in [list(x) for x in call["roots"]] for d in targets):
        res["res"] = "unspecified"  # the generators always name the root of every target
        return res
    udirs = []
    for d in dirs:
        if d not in udirs:
            udirs.append(d)

    def fail(reason):
        res["res"], res["reason"] = "invalid", reason
        return res

    if call["fn"] == "ns" and dirs_rule(udirs, allow):
        return fail("dirs")
    if any(d.leading_zero for d in targets):
        res["res"] = "unspecified"
        return res
    if any(not d.wellformed for d in targets):
        return fail("filename")
    if not targets:
        return res
    if call["fn"] == "files" and dirs_rule(udirs, allow):
        return fail("dirs")
    lookup = [d for d in defs if d.dir in udirs and is_def_file(d.f["fname"])]
    if any(not d.wellformed for d in lookup):
        res["lookup_malformed"] = True
    lookup = [d for d in lookup if d.wellformed]
    keys = [d.key for d in targets]
    # declarative closure: everything reachable through references (names are case-sensitive: full name + version).  A lookup
    # definition whose name differs from a written reference by letter case only is NOT referenced: its file name makes the
    # reference an error, its text is nobody's business (`near`).
    clo = set(d.idx for d in targets)
    near = set()
    work = list(targets)
    while work:
        d = work.pop()
        if d.text.get("g"):
            continue
        for sec in d.text["secs"]:
            for st in sec["stmts"]:
                if st[0] == "ref":
                    full = st[1] if "." in st[1] else d.ns + "." + st[1]
                    for x in lookup:
                        if x.name.lower() == full.lower() and (x.major, x.minor) == (st[2], st[3]):
                            if x.name != full:
                                near.add(x.idx)
                            elif x.idx not in clo:
                                clo.add(x.idx)
                                work.append(x)
    res["closure"] = clo
    res["near"] = near - clo
    dupkey = len(set(keys)) != len(keys)
    memo: dict = {}
    allow_unreg = bool(call["allow_unreg"])

    def ev(d: SDef, stack: tuple) -> dict:
        if d.idx in memo:
            return memo[d.idx]
        if d.text.get("g"):
            raise Invalid("local")
        sealed, extent, refs = [], [], []
        for sec in d.text["secs"]:
            content = 0
            for st in sec["stmts"]:
                if st[0] == "prim":
                    content += st[1]
                elif st[0] == "bad":
                    raise Invalid("local")
                elif st[0] == "ref":
                    full = st[1] if "." in st[1] else d.ns + "." + st[1]
                    cands = [x for x in lookup if x.name.lower() == full.lower() and (x.major, x.minor) == (st[2], st[3])]
                    if any(c.key == d.key or c.key in stack for c in cands):
                        raise Invalid("refs")  # self-referential or cyclic
                    if len(cands) != 1 or cands[0].name != full:
                        raise Invalid("refs")  # missing, duplicated, or differing by letter case only
                    t = ev(cands[0], stack + (d.key,))
                    if t["k"] == "srv":
                        raise Unspecified()
                    refs.append("%s.%d.%d" % (full, st[2], st[3]))
                    content += t["extent"][0] if t["sealed"][0] else 32 + t["extent"][0]
            m = sec["mode"]
            if m[0] == "none":
                raise Invalid("local")
            if m[0] == "sealed":
                sealed.append(True)
                extent.append(content)
            else:
                if m[1] % 8 != 0 or m[1] < content:
                    raise Invalid("local")
                sealed.append(False)
                extent.append(m[1])
        is_srv = len(d.text["secs"]) == 2
        if not (d.major <= 255 and d.minor <= 255 and d.major + d.minor > 0):
            raise Invalid("local")
        if d.pid is not None:
            if d.pid > (511 if is_srv else 8191):
                raise Invalid("local")
            if not allow_unreg and not regulated(is_srv, d.dir[-1], d.pid):
                raise Invalid("local")
        t = {"n": d.name, "v": [d.major, d.minor], "k": "srv" if is_srv else "msg", "pid": d.pid, "sealed": sealed,
             "extent": extent, "refs": refs, "path": d.path, "root": d.root, "_idx": d.idx}
        memo[d.idx] = t
        return t

    if dupkey:
        # two TARGET files with one name and version (finding F9: what becomes of the pair itself is left to C10).  What C09 says about
        # REFERENCES does not depend on that: if reading some OTHER target runs into a reference that is missing, cyclic, differs by
        # letter case or has two candidates (e.g. the pair itself), that target cannot be read and the call must be rejected.
        verdicts = []
        for d in targets:
            if keys.count(d.key) > 1:
                continue   # (of the files of such a pair read_files keeps one, which one is not specified: only the other targets are sure to be read)
            try:
                ev(d, ())
                verdicts.append("ok")
            except Invalid as ex:
                verdicts.append(ex.reason)
            except Unspecified:
                verdicts.append("unspecified")
        res["dup_bad_ref"] = "refs" in verdicts and "unspecified" not in verdicts
        return fail("dupkey")
    try:
        direct = [ev(d, ()) for d in sorted(targets, key=lambda d: (d.name, -d.major, -d.minor))]
    except Invalid as ex:
        return fail(ex.reason)
    except Unspecified:
        res["res"] = "unspecified"
        return res
    tkeys = set(keys)
    transitive = [t for i, t in memo.items() if (t["n"], t["v"][0], t["v"][1]) not in tkeys]
    direct.sort(key=sort_key)
    transitive.sort(key=sort_key)
    why = c11_rule(direct, transitive + direct)
    if why is not None:
        res["why"] = why
        return fail("c11")
    strip = lambda t: {k: v for k, v in t.items() if not k.startswith("_")}  # noqa: E731
    res["direct"] = [strip(t) for t in direct]
    res["transitive"] = [strip(t) for t in transitive]
    return res


def identity_problem(files: typing.List[dict], call: dict, out: dict) -> typing.Optional[str]:
    """C15 stated directly on every returned type, recomputed from nothing but its own path: source_file_path names a file of
    the tree, source_file_path_to_root is the designated directory that holds it, and name / version / port-ID are those
    spelled by the path below that directory - whatever else the call was expected to do."""
    have = {file_rel(f) for f in files}
    dirs = call_dirs(call)
    for role in ("direct", "transitive"):
        for t in out.get(role) or []:
            what = "%s.%s.%s" % (t["n"], t["v"][0], t["v"][1])
            path, root = str(t["path"]), str(t["root"])
            if path not in have:
                return "C15/identity-wrong: source_file_path of %s is %r: no such file was given" % (what, path)
            pc, rc = path.split("/"), root.split("/")
            owners = [d for d in dirs if pc[: len(d)] == d and len(pc) > len(d)]
            if call["fn"] == "ns" and role == "direct":
                owners = [d for d in owners if d == list(call["root"])]
            if rc not in owners:
                return "C15/identity-wrong: source_file_path_to_root of %s (%s) is %r, the designated root director%s %s" % (
                    what, path, root, "y is" if len(owners) == 1 else "ies are", ["/".join(d) for d in owners])
            p = parse_strict(pc[-1])
            if p is None:
                continue  # int() leniency (finding F10) and leading zeros are judged (or left alone) by the expectation below
            name = ".".join([rc[-1]] + pc[len(rc):-1] + [p[1]])
            for a, g, w in (("n", t["n"], name), ("v", list(t["v"]), [p[2], p[3]]), ("pid", t["pid"], p[0])):
                if g != w:
                    return "C15/identity-wrong: %s of the type read from %s under root %s is %r, the path says %r" % (a, path, root, g, w)
    return None


# ------------------------------------------------------------------------------------------------ generators

ROOT_LAYOUTS = [
    [["w0", "alpha"]],
    [["w0", "alpha"], ["w0", "beta"]],
    [["w0", "alpha"], ["w1", "beta"]],
    [["w0", "alpha"], ["w0", "beta"], ["w1", "gamma"]],
    [["w0", "alpha"], ["w1", "alpha"]],
    [["w0", "uavcan"], ["w0", "beta"]],
    [["w0", "alpha"], ["w0", "beta"], ["w1", "alpha"]],
    # a sibling whose name begins with the name of another root (reg next to reg_ext): as strings one path is a prefix of the other
    [["w0", "alpha"], ["w0", "alpha_ext"]],
    [["w0", "alpha"], ["w0", "alpha2"], ["w1", "beta"]],
]
# namespace components that sort between type names and type names that sort after namespace components are included:
# the result order is by FULL name, which differs from (namespace, short name) order exactly in such trees
SUBS = [[], [], ["x"], ["y"], ["x", "z"], ["x", "y", "deep"], ["Bz"], ["Cx", "y"]]
SHORTS = ["A", "B", "C", "D", "E", "F", "Msg", "Thing", "zed", "m_t"]
VERSIONS = [(1, 0), (1, 0), (1, 1), (0, 1), (2, 0), (1, 2), (0, 3), (2, 5)]
# one to three digits: numeric order ("newest first") is not the order of the decimal spellings
VERSIONS_WIDE = [(1, 0), (1, 9), (1, 10), (0, 9), (0, 10), (0, 100), (9, 0), (10, 0), (100, 0), (2, 10), (2, 9), (10, 2), (9, 10)]


def mk_text(stmts, mode, resp=None, g=False, gk=0):
    secs = [{"stmts": stmts, "mode": mode}]
    if resp is not None:
        secs.append(resp)
    return {"g": g, "gk": gk, "secs": secs}


def fname_of(short, major, minor, pid=None, ext="dsdl"):
    return "%s%s.%d.%d.%s" % ("" if pid is None else "%d." % pid, short, major, minor, ext)


def swap_case(s: str) -> str:
    return s.swapcase() if s.swapcase() != s else s + "X"


def fix_extents(files: typing.List[dict], rng: random.Random, spoil: float = 0.0) -> None:
    """Give every delimited section an extent that fits its content (computed on the intended graph)."""
    defs = [SDef(i, f) for i, f in enumerate(files)]
    good = [d for d in defs if d.wellformed]
    memo: dict = {}

    def size(d, depth):
        # returns list of (sealed, extent) per section
        if d.idx in memo:
            return memo[d.idx]
        out = []
        for sec in d.text["secs"]:
            c = 0
            for st in sec["stmts"]:
                if st[0] == "prim":
                    c += st[1]
                elif st[0] == "ref" and depth < 12:
                    full = st[1] if "." in st[1] else d.ns + "." + st[1]
                    cands = [x for x in good if x.name == full and (x.major, x.minor) == (st[2], st[3]) and x.idx != d.idx]
                    if cands:
                        s0 = size(cands[0], depth + 1)[0]
                        c += s0[1] if s0[0] else 32 + s0[1]
            m = sec["mode"]
            if m[0] == "extent":
                if m[1] < 0:  # placeholder: -k = k bytes of slack
                    m[1] = c + 8 * (-m[1] - 1)
                    if rng.random() < spoil:
                        m[1] = max(0, c - 8) if rng.random() < 0.5 else m[1] + 3
                out.append((False, m[1]))
            else:
                out.append((True, c))
        memo[d.idx] = out
        return out

    for d in good:
        size(d, 0)


def gen_mode(rng: random.Random) -> list:
    x = rng.random()
    if x < 0.55:
        return ["sealed"]
    if x < 0.98:
        return ["extent", -rng.choice([1, 1, 2, 5])]
    return ["none"]


def gen_graph(rng: random.Random, prop: str) -> dict:
    layout = [list(x) for x in rng.choice(ROOT_LAYOUTS)]
    files: typing.List[dict] = []
    meta: typing.List[dict] = []
    used = set()
    clean = rng.random() < 0.6  # no deliberately broken references / texts
    n = rng.randint(2, 9)
    pool_names = rng.sample(SHORTS, rng.randint(2, 5))
    versions = VERSIONS_WIDE if rng.random() < 0.2 else VERSIONS
    namesake_subs = len(layout) >= 2 and rng.random() < 0.3
    while len(files) < n:
        d = rng.choice(layout)
        sub = list(rng.choice(SUBS))
        if namesake_subs and rng.random() < 0.4:
            # a nested namespace called like ANOTHER root namespace of the call (acme/sensors next to the root sensors), or like its own root
            sub = rng.choice([[], [], ["x"]]) + [rng.choice([e[-1] for e in layout if e[-1] != d[-1]] or [d[-1]]) if rng.random() < 0.8 else d[-1]] + rng.choice([[], [], ["y"]])
        short = rng.choice(pool_names)
        ma, mi = rng.choice(versions)
        is_srv = rng.random() < 0.15
        pid = None
        if rng.random() < 0.25:
            std = d[-1] in ("uavcan", "cyphal")
            if is_srv:
                pid = rng.choice([390, 391] if std else [300, 301])
            else:
                pid = rng.choice([7200, 7201] if std else [6200, 6201, 6202])
            if rng.random() < 0.08 and not clean:
                pid = rng.choice([100, 5, 9000, 600, 0, 0, 511, 512, 8191, 8192, 1])
        key = (tuple(d), tuple(sub), short, ma, mi)
        if key in used:
            continue
        used.add(key)
        ext = "uavcan" if rng.random() < 0.1 else "dsdl"
        files.append({"dir": d, "sub": sub, "fname": fname_of(short, ma, mi, pid, ext), "text": None})
        meta.append({"srv": is_srv, "short": short, "v": (ma, mi), "ns": ".".join([d[-1]] + sub), "refd": False})
    # references
    for i, f in enumerate(files):
        stmts: typing.List[list] = []
        for _ in range(rng.choice([0, 0, 1, 1, 2, 3])):
            x = rng.random() * (0.8 if clean else 1.0)
            cands = [j for j in range(len(files)) if j != i and not meta[j]["srv"]]
            if not cands:
                x = 0.99
            if x < 0.80 and cands:
                later = [j for j in cands if j > i]
                if clean and not later:
                    stmts.append(["prim", 8])
                    continue
                j = rng.choice(later) if later and (clean or rng.random() < 0.9) else rng.choice(cands)
                name = meta[j]["ns"] + "." + meta[j]["short"]
                if meta[j]["ns"] == meta[i]["ns"] and rng.random() < 0.5:
                    name = meta[j]["short"]
                stmts.append(["ref", name, meta[j]["v"][0], meta[j]["v"][1]])
                meta[j]["refd"] = True
            elif x < 0.84:
                stmts.append(["ref", rng.choice([meta[i]["short"], meta[i]["ns"] + "." + meta[i]["short"]]), meta[i]["v"][0], meta[i]["v"][1]])
            elif x < 0.88 and cands:
                j = rng.choice(cands)
                stmts.append(["ref", meta[j]["ns"] + "." + meta[j]["short"], meta[j]["v"][0], meta[j]["v"][1] + 7])
            elif x < 0.91:
                stmts.append(["ref", meta[i]["ns"] + ".Nowhere", 1, 0])
            elif x < 0.95 and cands:
                j = rng.choice(cands)
                if rng.random() < 0.5:
                    name = meta[j]["ns"] + "." + swap_case(meta[j]["short"])
                else:
                    name = swap_case(meta[j]["ns"].split(".")[0]) + meta[j]["ns"][len(meta[j]["ns"].split(".")[0]):] + "." + meta[j]["short"]
                stmts.append(["ref", name, meta[j]["v"][0], meta[j]["v"][1]])
            else:
                stmts.append(["prim", rng.choice([8, 16, 32, 64])])
        for _ in range(rng.choice([0, 1, 1, 2])):
            stmts.insert(rng.randint(0, len(stmts)), ["prim", rng.choice([8, 16, 32, 64])])
        for k in range(rng.choice([0, 0, 1, 2])):
            stmts.insert(rng.randint(0, len(stmts)), ["print", i * 10 + k])
        if rng.random() < 0.04 and not clean:
            stmts.insert(rng.randint(0, len(stmts)), ["bad", rng.randrange(4)])
        resp = None
        if meta[i]["srv"]:
            rs: typing.List[list] = [["prim", rng.choice([8, 16])] for _ in range(rng.randint(0, 2))]
            if rng.random() < 0.3:
                rs.append(["print", i * 10 + 5])
            resp = {"stmts": rs, "mode": gen_mode(rng)}
        f["text"] = mk_text(stmts, gen_mode(rng), resp, g=(not clean) and rng.random() < 0.03, gk=rng.randrange(4))
        if clean:
            for sec in f["text"]["secs"]:
                if sec["mode"][0] == "none":
                    sec["mode"] = ["sealed"]
    # special files
    x = rng.random() if not clean else 0.5 + rng.random() / 2
    if x < 0.06:  # a name differing by letter case only (a leaf)
        j = rng.randrange(len(files))
        f = files[j]
        p = parse_strict(f["fname"])
        tw = swap_case(p[1])
        # EXCLUDED INPUT CLASS (reported as an observation on the unchanged pydsdl, see the C09 entry of reg/ns.py): a reference
        # that spells the twin exactly, written in a definition the original depends on.  While the original is being read it
        # is taken off the lookup list, so the reference finds only the twin and resolves, although read from anywhere else the
        # same reference is a DataTypeNameCollisionError (two names differing by case only).  Such a reference only arises
        # when a case-swapped reference to the original meets its twin; the twin is then not added.
        spelled = any(st[0] == "ref" and st[1] in (tw, ".".join([f["dir"][-1]] + f["sub"] + [tw]))
                      for g in files for sec in g["text"]["secs"] for st in sec["stmts"])
        if not spelled:
            files.append({"dir": f["dir"], "sub": f["sub"], "fname": fname_of(tw, p[2], p[3]), "text": mk_text([["prim", 8]], ["sealed"])})
    elif x < (0.25 if prop == "C09" else 0.12):  # the same name and version in a second directory of the same root namespace name
        same = [(a, b) for a in layout for b in layout if a != b and a[-1] == b[-1]]
        if same:
            a, b = rng.choice(same)
            mine = [f for f in files if f["dir"] == a]
            if mine:
                f = rng.choice(mine)
                p = parse_strict(f["fname"])
                if rng.random() < 0.4 and f["text"] is not None and not f["text"].get("g"):
                    # ... of a definition that refers to itself: the twin must not make the self-reference resolvable
                    f["text"]["secs"][0]["stmts"].append(["ref", rng.choice([p[1], ".".join([f["dir"][-1]] + f["sub"] + [p[1]])]), p[2], p[3]])
                if not any(g["dir"] == b and g["sub"] == f["sub"] and parse_strict(g["fname"])[1:] == p[1:] for g in files):
                    files.append({"dir": b, "sub": f["sub"], "fname": fname_of(p[1], p[2], p[3]), "text": mk_text([["prim", 16], ["print", 990]], ["sealed"])})
    elif x < 0.135 and prop in ("C10",):  # finding F9: two files of one directory with the same name and version
        f = rng.choice(files)
        p = parse_strict(f["fname"])
        tw = fname_of(p[1], p[2], p[3], None if p[0] is not None else 6210, "dsdl") if rng.random() < 0.5 else fname_of(p[1], p[2], p[3], p[0], "uavcan" if f["fname"].endswith(".dsdl") else "dsdl")
        if not any(g["dir"] == f["dir"] and g["sub"] == f["sub"] and g["fname"] == tw for g in files):
            files.append({"dir": f["dir"], "sub": f["sub"], "fname": tw, "text": rng.choice([f["text"], mk_text([["prim", 24 + 8]], ["sealed"])])})
    if rng.random() < 0.3:  # files that are not definitions
        f = rng.choice(files)
        files.append({"dir": f["dir"], "sub": f["sub"], "fname": rng.choice(["README.txt", "A.1.0.dsdl.bak", "B.1.0.DSDL", "notes.uavcan.old"]), "text": mk_text([], ["sealed"], g=True)})
    fix_extents(files, rng, spoil=0.0 if clean else 0.03)
    case = {"files": files, "call": gen_call(rng, files, layout, clean=clean), "enum_seed": rng.randrange(10**6)}
    return case


def gen_call(rng: random.Random, files, layout, fn=None, clean=False) -> dict:
    have = [d for d in layout if any(f["dir"] == d and is_def_file(f["fname"]) for f in files)]
    fn = fn or rng.choice(["ns", "ns", "files"])
    pids_unreg = rng.random() < 0.3
    if fn == "ns":
        root = rng.choice(have if have and rng.random() < 0.97 else layout)
        others = [d for d in layout if d != root]
        lks = others if (clean or rng.random() < 0.7) else rng.sample(others, rng.randint(0, len(others)))
        lks = [list(x) for x in lks]
        if rng.random() < 0.2:
            lks.insert(rng.randint(0, len(lks)), list(root))
        rng.shuffle(lks)
        return {"fn": "ns", "root": list(root), "lookups": lks, "allow_collision": clean or rng.random() < 0.8, "allow_unreg": pids_unreg}
    cand = [i for i, f in enumerate(files) if is_def_file(f["fname"])]
    tix = rng.sample(cand, rng.randint(1, min(4, len(cand))))
    roots = []
    for i in tix:
        if files[i]["dir"] not in roots:
            roots.append(list(files[i]["dir"]))
    rest = [d for d in layout if d not in roots]
    rng.shuffle(rest)
    k = rng.randint(0, len(rest))
    if clean or rng.random() < 0.6:
        k = len(rest)
    extra, rest = rest[:k], rest[k:]
    cut = rng.randint(0, len(extra))
    roots += [list(x) for x in extra[:cut]]
    lks = [list(x) for x in extra[cut:]]
    rng.shuffle(roots)
    return {"fn": "files", "targets": tix, "roots": roots, "lookups": lks, "allow_unreg": pids_unreg}


def add_variants(rng: random.Random, case: dict, k: int, mixes: int = 1) -> None:
    names = NS_VARIANTS if case["call"]["fn"] == "ns" else FILES_VARIANTS
    case["variants"] = rng.sample(names, min(k, len(names)))
    if rng.random() < 0.05:
        case["hashseeds"] = rng.sample([0, 1, 2, 3, 7, 42, 1234, 99999], 2)
    # argument forms x spellings (MIX): drawn from a generator derived from the case's own seed (which came from `rng`), so that
    # the stream of trees and calls is the same with and without them
    mrng = random.Random("mix/%s/%d" % (case.get("enum_seed", 0), len(case["files"])))
    call = case["call"]
    if call["fn"] == "files" and "names" not in case["variants"] and mrng.random() < 0.7:
        # a root namespace name that is also the name of a namespace nested in a target's root: the roots given by bare NAME
        # (in the order of the call) must still designate the outermost directory of that name on the target's path
        rn = {r[-1] for r in call["roots"]}
        if any(c in rn for i in call["targets"] for c in case["files"][i]["sub"]):
            case["variants"].append("names")
    for _ in range(mixes):
        case["variants"].append(gen_mix(mrng, case["call"], case["files"]))
    for k2, h in enumerate(case.get("history", [])):
        if mrng.random() < 0.3:
            h["variant"] = gen_mix(mrng, h["call"], reattribute(case["files"], h["call"]))


def gen_versions(rng: random.Random, prop: str) -> dict:
    """Families of versions of a few names with port-ID / kind / sealing / extent patterns (C11)."""
    layout = [list(x) for x in rng.choice([[["w0", "alpha"]], [["w0", "alpha"]], [["w0", "alpha"], ["w0", "beta"]], [["w0", "uavcan"]]])]
    fam_dir = layout[-1]
    std = fam_dir[-1] == "uavcan"
    files: typing.List[dict] = []
    msg_pids = [7200, 7201, 7300] if std else [6200, 6201, 6300]
    srv_pids = [400, 401] if std else [300, 301]
    # unregulated mode: small port-IDs, with subject-IDs that equal a service-ID or differ from one by a power of two
    # (any encoding of "(kind, port-ID)" into one number must keep the two kinds apart for every such pair)
    unreg = rng.random() < 0.25
    if unreg:
        srv_pids = rng.sample([0, 1, 5, 100, 255, 256, 288, 300, 383, 511], 2)
        msg_pids = rng.sample(sorted({s + off for s in srv_pids for off in (0, 256, 512, 1024, 4096)} | {8191}), 3)
    allv = [(0, 1), (0, 2), (1, 0), (1, 1), (1, 2), (2, 0), (2, 1), (3, 0)]
    # version numbers of one to three digits: the order of the numbers is not the order of their decimal spellings (9 < 10 < 100,
    # "10" < "100" < "9"), and every rule that says "older" / "newer" / "same major" is about the numbers
    wide = rng.random() < 0.4
    if wide:
        majors = rng.sample([0, 1, 1, 2, 9, 10, 99, 100, 255], rng.choice([1, 1, 2]))
        minors = [0, 1, 2, 3, 9, 10, 11, 19, 20, 25, 99, 100, 101, 200, 255]
        allv = sorted({(ma, mi) for ma in majors for mi in rng.sample(minors, rng.randint(2, 4)) if ma + mi > 0})
        if not unreg and rng.random() < 0.4:
            unreg = True
            srv_pids = rng.sample([2, 9, 10, 11, 99, 100, 101, 300], 2)
            msg_pids = rng.sample([2, 9, 10, 11, 99, 100, 101, 1000, 6200], 3)
    for short in rng.sample(SHORTS, rng.randint(1, 3)):
        sub = list(rng.choice([[], [], ["x"]]))
        base_srv = rng.random() < 0.3
        base = {}
        chosen = sorted(rng.sample(allv, min(len(allv), rng.randint(1, 4))))
        for ma, mi in chosen:
            cfg = base.get(ma)
            if cfg is not None and cfg.get("history"):
                # the port-ID appears (allowed) or disappears (not allowed) at one point of the sequence of minor versions
                cfg["seen"] += 1
                cfg["pid"] = cfg["history"][1] if (cfg["history"][0] == "added") == (cfg["seen"] >= cfg["history"][2]) else None
            if cfg is None:
                cfg = {"srv": base_srv if rng.random() < 0.9 else not base_srv,
                       "pid": rng.choice([None, None, "p"]), "modes": [gen_mode_c11(rng), gen_mode_c11(rng)],
                       "prims": [[rng.choice([8, 16, 32]) for _ in range(rng.randint(0, 2))], [rng.choice([8, 16]) for _ in range(rng.randint(0, 2))]]}
                if cfg["pid"] == "p":
                    cfg["pid"] = rng.choice(srv_pids if cfg["srv"] else msg_pids)
                mine = [v for v in chosen if v[0] == ma]
                if wide and len(mine) >= 2 and rng.random() < 0.6:
                    cfg["history"] = [rng.choice(["added", "added", "removed"]), rng.choice(srv_pids if cfg["srv"] else msg_pids), rng.randint(1, len(mine) - 1)]
                    cfg["seen"] = 0
                    cfg["pid"] = cfg["history"][1] if cfg["history"][0] == "removed" else None
                base[ma] = cfg
            c = {"srv": cfg["srv"], "pid": cfg["pid"], "modes": [list(m) for m in cfg["modes"]], "prims": [list(p) for p in cfg["prims"]]}
            x = rng.random()
            if cfg.get("history"):
                x = 0.5 if x < 0.75 else (x - 0.75) * 1.6   # fewer of the other deviations, so that the port-ID history decides
            if x < 0.06:
                c["srv"] = not c["srv"]
                if c["pid"] is not None:
                    c["pid"] = rng.choice(srv_pids if c["srv"] else msg_pids)
            elif x < 0.16:
                c["pid"] = rng.choice([None] + (srv_pids if c["srv"] else msg_pids))
            elif x < 0.22:
                s = rng.randrange(2)
                c["modes"][s] = ["sealed"] if c["modes"][s][0] != "sealed" else ["extent", 64]
            elif x < 0.30:
                s = rng.randrange(2)
                if c["modes"][s][0] == "extent":
                    c["modes"][s] = ["extent", c["modes"][s][1] + 8 * rng.choice([1, 2])]
                else:
                    c["prims"][s] = c["prims"][s] + [8]
            elif x < 0.40:
                # same extent through different content
                s = rng.randrange(2)
                if c["modes"][s][0] == "sealed" and c["prims"][s] and c["prims"][s][0] == 16:
                    c["prims"][s] = [8, 8] + c["prims"][s][1:]
            stmts = [["prim", b] for b in c["prims"][0]]
            resp = {"stmts": [["prim", b] for b in c["prims"][1]], "mode": c["modes"][1]} if c["srv"] else None
            files.append({"dir": fam_dir, "sub": sub, "fname": fname_of(short, ma, mi, c["pid"]), "text": mk_text(stmts, c["modes"][0], resp)})
    if len(layout) == 2:
        # a target namespace that pulls versions of the family in as dependencies
        msgs = [f for f in files if len(f["text"]["secs"]) == 1]
        for k in range(rng.randint(1, 2)):
            stmts = []
            for f in rng.sample(msgs, min(len(msgs), rng.randint(1, 3))):
                p = parse_strict(f["fname"])
                stmts.append(["ref", ".".join([f["dir"][-1]] + f["sub"] + [p[1]]), p[2], p[3]])
            files.append({"dir": layout[0], "sub": [], "fname": fname_of("User%d" % k, 1, 0, rng.choice([None, None, 6200, 6400])), "text": mk_text(stmts, ["sealed"])})
    fix_extents(files, rng)
    if len(layout) == 2 and rng.random() < 0.7:
        call = {"fn": "ns", "root": layout[0], "lookups": [layout[1]], "allow_collision": True, "allow_unreg": False}
    elif rng.random() < 0.75:
        call = {"fn": "ns", "root": fam_dir, "lookups": [], "allow_collision": True, "allow_unreg": False}
    else:
        call = gen_call(rng, files, layout, "files")
        call["allow_unreg"] = False
    if unreg:
        call["allow_unreg"] = True
    return {"files": files, "call": call, "enum_seed": rng.randrange(10**6)}


def gen_mode_c11(rng: random.Random) -> list:
    return ["sealed"] if rng.random() < 0.5 else ["extent", rng.choice([64, 64, 128])]


VALID_SHAPES = ["A.1.0.dsdl", "7000.A.1.0.dsdl", "Bc_d9.0.1.dsdl", "A.255.255.dsdl", "A.1.0.uavcan", "6200.Q.2.7.uavcan", "_x.1.0.dsdl", "A.10.20.dsdl"]
MALFORMED = ["A.dsdl", "A.1.dsdl", "A.x.0.dsdl", "A.1.y.dsdl", "x.A.1.0.dsdl", "1.2.A.1.0.dsdl", "A..0.dsdl", "A.1.0..dsdl", ".1.0.dsdl",
             "A-B.1.0.dsdl", "1A.1.0.dsdl", "A.1.0.0.0.dsdl", "A.0x1.0.dsdl", "A.1e0.0.dsdl", "A.1.0.dsdl.dsdl", "A b.1.0.dsdl", "..dsdl", "A.-.0.dsdl"]
# numerals and names with white space / control characters at either end (legal in POSIX file names; `$` of a regular expression
# matches before a final line feed, `int()` and `str.strip()` drop them): none of these has the required shape
MALFORMED += ["A.1.0\n.dsdl", "A.1\n.0.dsdl", "6201\n.A.1.0.dsdl", "A.\n1.0.dsdl", "A.1.0\t.dsdl", "A.1\r.0.dsdl", "A.1.0\x0b.dsdl", "A.1.0\x0c.dsdl",
              "7000\t.A.1.0.dsdl", "A\n.1.0.dsdl", "A.1.0\n\n.dsdl", "A.1.0\x1f.dsdl"]
LENIENT = ["A.1_0.0.dsdl", "A.+1.0.dsdl", "A. 1.0.dsdl", "A.١.0.dsdl", "7_0_0_0.A.1.0.dsdl", "A.1.-0.dsdl", "A.1.0 .dsdl", "+7000.A.1.0.dsdl", "A.1.０.dsdl"]
IGNORED = ["A.1.0.dsdl.bak", "A.1.0.DSDL", "A.1.0.txt", "A.1.0.dsdl~", "README", "A.1.0.Uavcan"]


# file names with more than one extension: every combination of the known extensions with each other and with foreign ones, after
# stems that are well-formed on their own (with / without port-ID) or lack a field.  A name that ends in a known extension is a
# definition file and is parsed - the last extension is dropped, what is left must be [<port-id>.]<ShortName>.<major>.<minor> exactly,
# so an extension in front of the last one is one field too many; every other name is no definition file at all.
KNOWN_EXTS = [".dsdl", ".uavcan"]
FOREIGN_EXTS = [".txt", ".bak", ".DSDL", ".Uavcan", ".dsdl~", ".orig", ".d", ".dsdl_", ".uavcan2"]
EXT_STEMS = ["A.1.0", "6200.Q.2.7", "Mixed.0.255", "A.1", "B"]


def ext_combo_name(rng: random.Random, stem: typing.Optional[str] = None) -> str:
    stem = stem or rng.choice(EXT_STEMS[:3] * 3 + EXT_STEMS[3:])
    n = rng.choice([2, 2, 2, 2, 3])
    if rng.random() < 0.5:
        return stem + "".join(rng.choice(KNOWN_EXTS) for _ in range(n))      # known extensions only, in every order
    exts = [rng.choice(KNOWN_EXTS * 3 + FOREIGN_EXTS) for _ in range(n)]
    if not any(e in KNOWN_EXTS for e in exts):
        exts[rng.randrange(n)] = rng.choice(KNOWN_EXTS)
    return stem + "".join(exts)


def ext_combo_universe() -> typing.List[str]:
    out = []
    for stem in EXT_STEMS[:2]:
        for e1 in KNOWN_EXTS + FOREIGN_EXTS[:3]:
            for e2 in KNOWN_EXTS + FOREIGN_EXTS[:3]:
                if e1 in KNOWN_EXTS or e2 in KNOWN_EXTS:
                    out.append(stem + e1 + e2)
    out += ["A.1.0.dsdl.uavcan.dsdl", "A.1.0.uavcan.dsdl.uavcan", "A.1.0.uavcan.uavcan.dsdl", "A.1.uavcan.dsdl", "A.1.dsdl.uavcan", "A.uavcan.dsdl",
            "6200.A.1.uavcan.dsdl", "1.0.uavcan.dsdl", "A.1.0..dsdl.dsdl", "A.1.0.uavcan..dsdl"]
    return out


def gen_names(rng: random.Random, prop: str) -> dict:
    """File-name shapes, directory depths and ways of designating roots and targets (C15)."""
    layout = [list(x) for x in rng.choice(ROOT_LAYOUTS)]
    files: typing.List[dict] = []
    used = set()
    for _ in range(rng.randint(1, 6)):
        d = rng.choice(layout)
        sub = list(rng.choice(SUBS + [["x", "y", "z", "w", "v"], ["alpha"], ["beta", "alpha"]]))
        x = rng.random()
        is_srv = rng.random() < 0.12
        if x < 0.82:
            short = rng.choice(SHORTS + ["Bc_d9", "_x", "Zz"])
            ma, mi = rng.choice(VERSIONS + [(255, 255), (10, 20), (0, 255)])
            # port-IDs: absent, regulated, unregulated, and both ends of the valid ranges (0 .. 8191 subjects, 0 .. 511 services)
            if is_srv:
                pid = rng.choice([None, None, None, 300, 301, 256, 383, 0, 0, 1, 511, 512])
            else:
                pid = rng.choice([None, None, None, 6200, 6201, 7000, 6144, 7167, 0, 0, 1, 8191, 8192])
            if d[-1] == "uavcan" and pid is not None:
                pid = rng.choice([384, 400, 511] if is_srv else [7168, 7200, 8191])
            fn = fname_of(short, ma, mi, pid, rng.choice(["dsdl", "dsdl", "dsdl", "uavcan"]))
        elif x < 0.89:
            fn = rng.choice(MALFORMED)
        elif x < 0.93:
            fn = ext_combo_name(rng)     # two or three extensions: a malformed definition file or no definition file at all
        elif x < 0.95:
            fn = rng.choice(LENIENT)
        else:
            fn = rng.choice(IGNORED)
        if x >= 0.82 and rng.random() < 0.1:
            sub = sub + ["bad.dir"]
        k = (tuple(d), tuple(sub), fn)
        p = parse_strict(fn)
        k2 = (tuple(d), tuple(sub), p[1:] if p else fn)
        if k in used or k2 in used:
            continue
        used.add(k)
        used.add(k2)
        resp = {"stmts": [["prim", 8]] * rng.randint(0, 1), "mode": ["sealed"]} if is_srv else None
        files.append({"dir": d, "sub": sub, "fname": fn, "text": mk_text([["prim", rng.choice([8, 16])]], ["sealed"], resp)})
    if not any(is_def_file(f["fname"]) for f in files):
        files.append({"dir": layout[0], "sub": [], "fname": "A.1.0.dsdl", "text": mk_text([], ["sealed"])})
    call = gen_call(rng, files, layout, rng.choice(["ns", "files", "files"]))
    # unregulated port-IDs (0, 1, 7000, 8191, ...) are only accepted with the flag: both settings are needed to see them in a result
    call["allow_unreg"] = rng.random() < 0.45
    return {"files": files, "call": call, "enum_seed": rng.randrange(10**6)}


def gen_dirs(rng: random.Random, prop: str) -> dict:
    """Sets of root / lookup directories: nested, equal names, names equal up to letter case (C10 directory rule)."""
    pool = [["w0", "alpha"], ["w0", "beta"], ["w1", "alpha"], ["w1", "Alpha"], ["w1", "BETA"], ["w0", "alpha", "x"], ["w0", "alpha", "x", "z"],
            ["w1", "gamma"], ["w0", "gamma"], ["w0"], ["w1", "gamma", "y"],
            ["w0", "alpha", "alpha"], ["w0", "alpha", "x", "Alpha"], ["w1", "gamma", "y", "z", "gamma"]]   # namesakes nested inside
    dirs = rng.sample(pool, rng.randint(1, 4))
    root = dirs[0]
    files = []
    for d in dirs:
        if rng.random() < 0.8:
            # files are attributed to the outermost chosen directory that contains them
            outer = min([e for e in dirs if d[: len(e)] == e], key=len)
            sub = d[len(outer):]
            fn = fname_of(rng.choice(SHORTS), 1, rng.randint(0, 3))
            if not any(file_rel(f) == "/".join(outer + sub + [fn]) for f in files):
                files.append({"dir": outer, "sub": sub, "fname": fn, "text": mk_text([["prim", 8]], ["sealed"])})
    if not any(f["dir"] == root for f in files):
        outer = min([e for e in dirs if root[: len(e)] == e], key=len)
        if outer == root:
            files.append({"dir": root, "sub": [], "fname": "Z.1.0.dsdl", "text": mk_text([], ["sealed"])})
    lks = [list(x) for x in dirs[1:]]
    if rng.random() < 0.3:
        lks = lks + [list(root)]
    rng.shuffle(lks)
    if rng.random() < 0.75:
        call = {"fn": "ns", "root": list(root), "lookups": lks, "allow_collision": rng.random() < 0.5, "allow_unreg": False}
    else:
        mine = [i for i, f in enumerate(files) if f["dir"] == root]
        if not mine:
            call = {"fn": "ns", "root": list(root), "lookups": lks, "allow_collision": rng.random() < 0.5, "allow_unreg": False}
        else:
            cut = rng.randint(0, len(lks))
            call = {"fn": "files", "targets": [rng.choice(mine)], "roots": [list(root)] + lks[:cut], "lookups": lks[cut:], "allow_unreg": False}
    return {"files": files, "call": call, "enum_seed": rng.randrange(10**6)}


# characters that sort below the path separator '/' (0x2F) and above it: a sibling named <D><c>... sorts between D and D/<sub>
# as a string exactly when c < '/', although as a path it is simply another directory next to D
LOW_TAILS = ["-ext", "+legacy", ".old", " copy", ",v", "!", "#1", "-", "$x", "&co", "(1)", "%20", "'s", "-ext-2", ".d"]
HIGH_TAILS = ["_v2", "2", "s", ":x", "=", "@home", "~", "X", "_"]


def gen_dirs_universe(rng: random.Random, prop: str) -> dict:
    """Directory-argument sets of 2-6 directories whose names are string prefixes of each other (plus punctuation or letters),
    nested at depth 1-3, also inside the look-alike siblings, in all argument orders (C10 directory rule)."""
    w = rng.choice(["w0", "w1"])
    base = rng.choice(["alpha", "vendor", "a", "uavcan", "Beta", "x_1"])
    D = [w, base]
    s1, s2, s3 = rng.sample(["x", "sub", "y", "deep", "z9"], 3)
    lo = rng.sample(LOW_TAILS, 3)
    hi = rng.sample(HIGH_TAILS, 2)
    uni: typing.List[list] = [D, D + [s1], D + [s1, s2], D + [s1, s2, s3], D + [s3]]
    uni += [[w, base + t] for t in lo + hi]                         # siblings of D whose names extend D's name
    uni += [[w, base + lo[0], s1], [w, base + hi[0], s1]]           # nested inside a sibling
    uni += [D + [s1 + lo[1]], D + [s1 + hi[1]], D + [s1 + lo[2], s2]]  # the same one level further down
    uni += [[w, swap_case(base)], ["w1" if w == "w0" else "w0", base], [w, "other"], [w, "other", base], [w]]
    n = rng.randint(2, 6)
    dirs: typing.List[list] = []
    if rng.random() < 0.3:
        # a NAMESAKE nested inside a directory 1-3 levels down (a repository directory called like the namespace directory it
        # contains: acme/acme, acme/drivers/acme), in the same or in another letter case; both the nesting rule and - when
        # collisions are disallowed - the name rule apply to the pair, and the answer must be a rejection whichever is looked at first
        anc = rng.choice([D, D, D + [s1], [w, "other", base], [w, base + hi[0]]])
        name = rng.choice([anc[-1], anc[-1], anc[-1]] + case_spellings(anc[-1])[:2])
        desc = anc + rng.choice([[], [], [s2], [s3], [s2, s3]]) + [name]
        dirs = [anc, desc]
        x = rng.random()
        if x < 0.15:
            dirs[0] = ["w2"] + anc[1:]                       # the same two names, not nested: accepted iff collisions are allowed
        elif x < 0.25:
            dirs[1] = desc[:-1] + [desc[-1] + "2"]           # nested, not a namesake
        elif x < 0.35:
            dirs.append(desc + [rng.choice([s1, name])])     # three levels
        n = rng.randint(2, 4)
    elif rng.random() < 0.6:
        # an ancestor, something inside it, and look-alike siblings of the ancestor in between (as strings)
        k = rng.choice([0, 0, 1])
        anc = uni[k]
        desc = rng.choice([u for u in uni[:5] if len(u) > len(anc) and u[: len(anc)] == anc])
        sib = [anc[:-1] + [anc[-1] + t] for t in rng.sample(lo + lo + hi, rng.randint(1, 2))]
        dirs = [anc, desc] + sib
        if rng.random() < 0.25:
            dirs.remove(rng.choice([anc, desc]))  # ... and the same set without the nesting: must be accepted
    while len(dirs) < n:
        d = rng.choice(uni)
        if d not in dirs:
            dirs.append(d)
    dirs = [list(d) for d in dirs]
    rng.shuffle(dirs)
    root = dirs[0]
    files: typing.List[dict] = []
    for d in dirs:
        if rng.random() < (0.9 if d == root else 0.35):
            outer = min([e for e in dirs if d[: len(e)] == e], key=len)
            fn = fname_of(rng.choice(SHORTS), 1, rng.randint(0, 3))
            if not any(file_rel(f) == "/".join(d + [fn]) for f in files):
                files.append({"dir": outer, "sub": d[len(outer):], "fname": fn, "text": mk_text([["prim", 8]], ["sealed"])})
    lks = [list(x) for x in dirs[1:]]
    if rng.random() < 0.2:
        lks.append(list(root))
    rng.shuffle(lks)
    mine = [i for i, f in enumerate(files) if f["dir"] == root]
    if rng.random() < 0.7 or not mine:
        call = {"fn": "ns", "root": list(root), "lookups": lks, "allow_collision": rng.random() < 0.6, "allow_unreg": False}
    else:
        cut = rng.randint(0, len(lks))
        call = {"fn": "files", "targets": [rng.choice(mine)], "roots": [list(root)] + lks[:cut], "lookups": lks[cut:], "allow_unreg": False}
        rng.shuffle(call["roots"])
    return {"files": files, "call": call, "enum_seed": rng.randrange(10**6)}


def gen_two_trees(rng: random.Random, prop: str) -> dict:
    """Two or three directory trees that carry the SAME root namespace name (a vendored copy next to a working copy, in different
    workspaces), with definition files at the same relative paths in several of them (contents differ), read_files with every tree
    designated as a root in every order, and the targets spelled relative to working directories in and around the trees: a path
    that exists relative to the working directory designates that file and no other, whichever tree is listed first (C15, C10)."""
    name = rng.choice(["alpha", "vnd", "uavcan", "Lib"])
    ws = rng.sample(["w0", "w1", "w2"], rng.choice([2, 2, 3]))
    trees = [[w, name] for w in ws]
    if rng.random() < 0.3:
        trees[-1] = [ws[0], "deep", name]   # ... or two trees in one workspace, one of them a level further down
    layout = [list(t) for t in trees]
    extra = ["w0", "beta"]
    files: typing.List[dict] = []
    rels = []
    for _ in range(rng.randint(1, 4)):
        r = (tuple(rng.choice([[], ["x"], ["x", "y"], ["nav"], [name]])), rng.choice(["A", "B", "Fix", "m_t"]), rng.choice([(1, 0), (1, 0), (0, 1), (2, 10)]), rng.choice([None, None, 6200, 7200]))
        if not any(r[:3] == q[:3] for q in rels):
            rels.append(r)
    std = name == "uavcan"
    for sub, short, v, pid in rels:
        if pid is not None:
            pid = (7200 if std else 6200) + len(files)
        holders = list(range(len(trees))) if rng.random() < 0.6 else rng.sample(range(len(trees)), rng.randint(1, len(trees)))
        for k in holders:
            files.append({"dir": list(trees[k]), "sub": list(sub), "fname": fname_of(short, v[0], v[1], pid), "text": mk_text([["prim", 8 * (k + 1)]], ["sealed"])})
    if rng.random() < 0.3:
        files.append({"dir": extra, "sub": [], "fname": "Other.1.0.dsdl", "text": mk_text([["prim", 8]], ["sealed"])})
        layout.append(extra)
    k = rng.randrange(len(trees))
    mine = [i for i, f in enumerate(files) if f["dir"] == trees[k]]
    if not mine:
        k = trees.index(files[0]["dir"])
        mine = [i for i, f in enumerate(files) if f["dir"] == trees[k]]
    tix = rng.sample(mine, rng.randint(1, min(2, len(mine))))
    if rng.random() < 0.15 and extra in layout:
        tix.append(len(files) - 1)
    roots = _uniq([list(files[i]["dir"]) for i in tix])
    rest = [d for d in layout if d not in roots]
    rng.shuffle(rest)
    cut = len(rest) if rng.random() < 0.7 else rng.randint(0, len(rest))
    roots += rest[:cut]
    rng.shuffle(roots)
    call = {"fn": "files", "targets": tix, "roots": roots, "lookups": rest[cut:], "allow_unreg": rng.random() < 0.3}
    case = {"files": files, "call": call, "enum_seed": rng.randrange(10**6)}
    add_variants(rng, case, 2)
    t = list(trees[k])
    for cwd in rng.sample([t[:-1], t[:-1], [], t, list(rng.choice(trees))[:-1], ["elsewhere"]], 2):
        case["variants"].append(gen_mix(rng, call, files, cwd=cwd, target_hows=["rel", "rel", "rellink"]))
    return case


def case_spellings(s: str) -> typing.List[str]:
    """The other spellings of an identifier that differ from it by letter case only."""
    out: typing.List[str] = []
    for c in (s.lower(), s.upper(), s.swapcase(), s[0].swapcase() + s[1:], s[:-1] + s[-1].swapcase(), s.capitalize()):
        if c != s and c not in out:
            out.append(c)
    return out


def names_between(a: str, b: str) -> typing.List[str]:
    """Identifiers that sort strictly between two spellings of one name (code-point order): the capital letters sort below '_',
    '_' sorts below the small letters, and every extension of the smaller spelling sorts below the greater one."""
    a, b = min(a, b), max(a, b)
    i = next(k for k in range(len(a)) if a[k] != b[k])
    out = [a + "_2", a + "x", a[:i] + "_" + a[i + 1:] + "q", a[: i + 1] + "zz", b[: i] + "_r"]
    if "A" <= a[i] < "Z":
        out.append(a[:i] + chr(ord(a[i]) + 1) + a[i + 1:])
    if "a" < b[i] <= "z":
        out.append(b[:i] + chr(ord(b[i]) - 1) + b[i + 1:] + "w")
    return [n for n in _uniq(out) if a < n < b and COMP_RE.match(n)]


TWIN_SHORTS = ["Foo", "Msg", "Thing", "Ab", "Node", "m_t", "zed", "Q"]
TWIN_COMPS = ["geo", "Nav", "io", "drv_a", "X"]
TWIN_ROOTS = ["lib", "Geo", "vendor"]
TWIN_VERSIONS = [(1, 0), (1, 0), (1, 1), (2, 0), (0, 1), (1, 10), (1, 9), (10, 0)]


def gen_twins(rng: random.Random, prop: str) -> dict:
    """Definitions whose full names differ by letter case only - in the short name, in a namespace component or in the root
    namespace name; two or three spellings; equal, different or partly equal versions - placed among other definitions whose names
    sort before, BETWEEN and after the spellings (code-point order: capitals < '_' < small letters), referenced exactly / in another
    case / with a version only the other spelling has, relatively and absolutely, from targets and from dependencies of targets,
    the twins living in the target root or in a lookup directory (C09).

    The twins are leaves: a definition the twin's original depends on never spells the twin (EXCLUDED INPUT CLASS of gen_graph)."""
    T = ["w0", "alpha"]
    level = rng.choice(["short", "short", "component", "component", "root"])
    if level == "root":
        r = rng.choice(TWIN_ROOTS)
        sp = [r] + rng.sample(case_spellings(r), min(rng.choice([1, 1, 2]), len(case_spellings(r))))
        ws = rng.choice([["w1"] * 3, ["w1", "w2", "w1"], ["w1", "w2", "w3"]])
        sub, short = list(rng.choice([[], [], ["x"]])), rng.choice(["P", "Msg", "m_t"])
        members = [([ws[k], s], sub, short) for k, s in enumerate(sp)]
        layout = [T] + _uniq([m[0] for m in members])
    else:
        home = rng.choice([T, T, ["w0", "lib"], ["w1", "lib"]])
        layout = [T] if home == T else [T, home]
        if level == "short":
            s = rng.choice(TWIN_SHORTS)
            sp = [s] + rng.sample(case_spellings(s), min(rng.choice([1, 1, 1, 2]), len(case_spellings(s))))
            sub = list(rng.choice([[], [], ["x"], ["x", "y"]]))
            members = [(home, sub, x) for x in sp]
        else:
            c = rng.choice(TWIN_COMPS)
            sp = [c] + rng.sample(case_spellings(c), min(rng.choice([1, 1, 1, 2]), len(case_spellings(c))))
            pre, post = list(rng.choice([[], [], ["x"]])), list(rng.choice([[], [], ["y"]]))
            short = rng.choice(["P", "Msg", "m_t"])
            members = [(home, pre + [x] + post, short) for x in sp]
    rng.shuffle(members)
    # versions per spelling
    vmode = rng.choice(["same", "same", "diff", "diff", "mixed", "mixed"])
    vs = rng.sample(sorted(set(TWIN_VERSIONS)), 3)
    if vmode == "same":
        vers = [[vs[0]] for _ in members]
    elif vmode == "diff":
        vers = [[vs[k % 3]] for k in range(len(members))]
        if len(members) == 3:
            vers[2] = [rng.choice(vs)]
    else:
        vers = [[vs[0]] + ([vs[1]] if rng.random() < 0.6 else []) for _ in members]
        k = rng.randrange(len(members))
        vers[k] = [rng.choice(vs[1:])] + ([vs[2]] if rng.random() < 0.4 else [])
        vers[k] = sorted(set(vers[k]))
    files: typing.List[dict] = []
    types_l: typing.Set[str] = set()   # full type names in use, lower-cased
    ns_x: typing.Set[str] = set()      # namespaces in use, as spelled

    def full(d, sub, short):
        return ".".join([d[-1]] + list(sub) + [short])

    def free(d, sub, short):
        """A further definition must not be one more case twin, nor turn a type name into a namespace name or vice versa."""
        nss = [".".join([d[-1]] + list(sub[:k])) for k in range(len(sub) + 1)]
        ns_l = {x.lower() for x in ns_x}
        if full(d, sub, short).lower() in types_l | ns_l:
            return False
        return all(x.lower() not in types_l and (x in ns_x or x.lower() not in ns_l) for x in nss)

    def add(d, sub, short, v, stmts):
        files.append({"dir": list(d), "sub": list(sub), "fname": fname_of(short, v[0], v[1]), "text": mk_text(stmts, ["sealed"])})
        types_l.add(full(d, sub, short).lower())
        for k in range(len(sub) + 1):
            ns_x.add(".".join([d[-1]] + list(sub[:k])))
        return len(files) - 1

    # a quarter of the cases: only ONE of the spellings exists, the others are merely written in references (near misses)
    lonely = rng.random() < 0.25
    for k, (d, sub, short) in enumerate(members):
        if lonely and k > 0:
            continue
        for v in vers[k]:
            add(d, sub, short, v, [["prim", 8 * (k + 1)]])   # one width per spelling: equal extents under one major
    # other definitions: before, between and after the spellings
    a, b = min(sp), max(sp)
    btw = names_between(a, b)
    rng.shuffle(btw)
    cand: typing.List[tuple] = []
    d0, sub0, short0 = members[0]
    if level == "short":
        cand += [(d0, sub0, n) for n in btw[:3]] + [(d0, sub0 + [n], "Q") for n in btw[3:5]]
        cand += [(d0, sub0, "A0"), (d0, sub0, "zz9"), (d0, sub0[:-1], "Zed") if sub0 else (d0, ["Zz"], "Inner")]
    elif level == "component":
        j = next(k for k in range(len(sub0)) if sub0[k] in sp)
        for n in btw[:3]:
            cand.append((d0, sub0[:j] + [n] + sub0[j + 1:], short0))
        cand += [(d0, sub0[:j], n) for n in btw[3:5]]
        cand += [(d0, sub0[:j] + [a] + sub0[j + 1:], short0 + "x"), (d0, sub0[:j] + [b] + sub0[j + 1:], "A0"), (d0, sub0[:j], "Zed"), (d0, sub0[:j], "A0"), (d0, sub0[:j], "zz9")]
    else:
        ds = sorted(m[0] for m in members)
        cand += [(ds[0], sub0, short0 + "x"), (ds[-1], sub0, "A0"), (ds[0], [], "Zed"), (T, [], "Mid"), (T, ["x"], "Mid")]
    rng.shuffle(cand)
    for d, sub, short in cand[: rng.choice([0, 1, 2, 2, 3, 4])]:
        if free(d, sub, short):
            add(d, sub, short, (1, 0), [["prim", 8]])
    # referrers
    every_v = sorted({v for l in vers for v in l})
    fn = rng.choice(["ns", "ns", "files"])
    dep_home = [x for x in layout if x != T] or [["w0", "beta"]]
    tops: typing.List[int] = []
    names = ["User", "aUser", "Hub", "M", "zTop", "B", "_u"]
    rng.shuffle(names)
    for q in range(rng.choice([1, 1, 2, 3])):
        k = rng.randrange(len(members))
        d, sub, short = members[k]
        x = rng.random()
        v = rng.choice(vers[k]) if x < 0.6 else rng.choice(every_v) if x < 0.93 else (every_v[-1][0], every_v[-1][1] + 5)
        via_dep = rng.random() < 0.4
        same_ns = rng.random() < 0.4
        top_dir = T if fn == "ns" else rng.choice(layout)
        # the definition that writes the reference: in the namespace of the twin (then the reference may be relative) or elsewhere
        if via_dep:
            w_dir = d if same_ns else rng.choice(dep_home)
        else:
            w_dir = d if (same_ns and (fn == "files" or d == T)) else top_dir
        w_sub = list(sub) if (w_dir == d and same_ns) else list(rng.choice([[], ["u"]]))
        ref_name = short if (w_dir == d and w_sub == list(sub) and rng.random() < 0.7) else full(d, sub, short)
        w_short = names[q] + ("Dep" if via_dep else "")
        if not free(w_dir, w_sub, w_short):
            continue
        w = add(w_dir, w_sub, w_short, (1, 0), [["ref", ref_name, v[0], v[1]]] + ([["prim", 8]] if rng.random() < 0.5 else []))
        if not via_dep:
            tops.append(w)
            continue
        u_short = names[q] + "Top"
        if not free(top_dir, [], u_short):
            continue
        tops.append(add(top_dir, [], u_short, (1, 0), [["ref", full(w_dir, w_sub, w_short), 1, 0]]))
    for d in dep_home:
        if d not in layout and any(f["dir"] == d for f in files):
            layout.append(d)
    if not tops:
        tops.append(add(T, [], "Plain", (1, 0), [["prim", 8]]))
    others = [d for d in layout if d != T]
    if level == "root" and rng.random() < 0.12 and not lonely:
        gone = rng.choice([m[0] for m in members])
        if gone in others:
            others.remove(gone)   # only one spelling is visible
    if fn == "ns":
        rng.shuffle(others)
        call = {"fn": "ns", "root": list(T), "lookups": [list(x) for x in others], "allow_collision": True, "allow_unreg": False}
    else:
        tix = rng.sample(tops, rng.randint(1, len(tops))) if rng.random() < 0.4 else list(tops)
        roots = _uniq([list(files[i]["dir"]) for i in tix])
        rest = [list(d) for d in [T] + others if list(d) not in roots]
        rng.shuffle(rest)
        cut = rng.randint(0, len(rest))
        roots += rest[:cut]
        rng.shuffle(roots)
        call = {"fn": "files", "targets": tix, "roots": roots, "lookups": rest[cut:], "allow_unreg": False}
    return {"files": files, "call": call, "enum_seed": rng.randrange(10**6)}


def gen_samedir_twins(rng: random.Random, prop: str) -> dict:
    """Two or three different FILES inside ONE root namespace directory tree that denote the same full name and version - one with
    and one without a fixed port-ID, two different port-IDs, the current and the legacy extension - with equal or different
    contents, in the root of the namespace or nested, in a lookup directory / in the referrers' own tree / among the targets,
    and REFERENCES to that name and version: relative and absolute, from targets and from dependencies of targets, through
    read_namespace and read_files.  Such a reference has two candidates and must be rejected (C09).  Controls: the second file carries
    another version (no pair at all), the pair is never referred to, a reference to a version nobody has.

    (What becomes of such a pair when both files are TARGETS is finding F9 and is judged - as a known finding - under C10 only.)"""
    T = ["w0", "alpha"]
    home = rng.choice([T, T, ["w0", "lib"], ["w1", "lib"], ["w1", "vendor"]])
    layout = [T] if home == T else [T, home]
    sub = list(rng.choice([[], [], ["x"], ["x", "y"], ["nav"]]))
    short = rng.choice(TWIN_SHORTS)
    v = rng.choice([(1, 0), (1, 0), (1, 1), (0, 1), (2, 0), (1, 10), (0, 255), (255, 0)])
    unreg = rng.random() < 0.4
    pids = rng.sample([7000, 7001, 100, 0, 8191] if unreg else [6200, 6201, 6300, 7167], 2)
    kind = rng.choice(["pid+none", "pid+none", "pid+pid", "ext", "ext", "ext+pid", "three"])
    e1, e2 = rng.choice([("dsdl", "uavcan"), ("dsdl", "uavcan"), ("uavcan", "dsdl")])
    same_ext = rng.choice(["dsdl", "dsdl", "dsdl", "uavcan"])
    if kind == "pid+none":
        spell = [(None, same_ext), (pids[0], same_ext)]
    elif kind == "pid+pid":
        spell = [(pids[0], same_ext), (pids[1], same_ext)]
    elif kind == "ext":
        q = rng.choice([None, None, pids[0]])
        spell = [(q, e1), (q, e2)]
    elif kind == "ext+pid":
        spell = [(None, e1), (pids[0], e2)]
    else:
        spell = [(None, "dsdl"), (pids[0], "dsdl"), (rng.choice([None, pids[1]]), "uavcan")]
    rng.shuffle(spell)
    control = rng.random() < 0.2     # the second file is ANOTHER version: there is no pair, every exact reference is fine
    files: typing.List[dict] = []
    types_l: typing.Set[str] = set()

    def full(d, sub_, short_):
        return ".".join([d[-1]] + list(sub_) + [short_])

    def add(d, sub_, short_, ver, stmts, pid=None, ext="dsdl"):
        files.append({"dir": list(d), "sub": list(sub_), "fname": fname_of(short_, ver[0], ver[1], pid, ext), "text": mk_text(stmts, ["sealed"])})
        types_l.add(full(d, sub_, short_).lower())
        return len(files) - 1

    same_text = rng.random() < 0.5
    pair: typing.List[int] = []
    for k, (pid, ext) in enumerate(spell):
        ver = v
        if control and k >= 1:
            ver = (v[0] + 1, 0) if v[0] < 255 else (v[0] - 1, 7)
            pid = None if (pid is not None and any(q == pid for q, _ in spell[:k])) else pid
        pair.append(add(home, sub, short, ver, [["prim", 8 if same_text else 8 * (k + 1)]] + ([["print", 900 + k]] if rng.random() < 0.3 else []), pid, ext))
    other_v = [parse_strict(files[i]["fname"])[2:] for i in pair]
    # bystanders
    for d, sub_, short_ in rng.sample([(home, sub, "Other"), (home, [], "Zed"), (T, [], "Plain"), (home, sub + ["deep"], "Leaf"), (T, ["u"], "Side")], rng.randint(0, 3)):
        if full(d, sub_, short_).lower() not in types_l:
            add(d, sub_, short_, (1, 0), [["prim", 8]])
    fn = rng.choice(["ns", "ns", "files"])
    dep_home = [x for x in layout if x != T] or [["w0", "beta"]]
    tops: typing.List[int] = []
    names = ["User", "aUser", "Hub", "M", "zTop", "B", "_u"]
    rng.shuffle(names)
    lonely = rng.random() < 0.1      # nobody refers to the pair
    for q in range(0 if lonely else rng.choice([1, 1, 2, 3])):
        x = rng.random()
        rv = tuple(v) if x < 0.8 else tuple(rng.choice(other_v)) if x < 0.93 else (v[0], (v[1] + 5) % 256)
        via_dep = rng.random() < 0.4
        same_ns = rng.random() < 0.45
        top_dir = T if fn == "ns" else rng.choice(layout)
        if via_dep:
            w_dir = home if same_ns else rng.choice(dep_home)
        else:
            w_dir = home if (same_ns and (fn == "files" or home == T)) else top_dir
        w_sub = list(sub) if (w_dir == home and same_ns) else list(rng.choice([[], ["u"]]))
        ref_name = short if (w_dir == home and w_sub == list(sub) and rng.random() < 0.7) else full(home, sub, short)
        w_short = names[q] + ("Dep" if via_dep else "")
        if full(w_dir, w_sub, w_short).lower() in types_l:
            continue
        w = add(w_dir, w_sub, w_short, (1, 0), [["ref", ref_name, rv[0], rv[1]]] + ([["prim", 8]] if rng.random() < 0.5 else []))
        if not via_dep:
            tops.append(w)
            continue
        u_short = names[q] + "Top"
        if full(top_dir, [], u_short).lower() in types_l:
            continue
        tops.append(add(top_dir, [], u_short, (1, 0), [["ref", full(w_dir, w_sub, w_short), 1, 0]]))
    for d in dep_home:
        if d not in layout and any(f["dir"] == d for f in files):
            layout.append(d)
    if not tops:
        tops.append(add(T, [], "Solo", (1, 0), [["prim", 8]]))
    others = [d for d in layout if d != T]
    if fn == "ns":
        rng.shuffle(others)
        call = {"fn": "ns", "root": list(T), "lookups": [list(x) for x in others], "allow_collision": True, "allow_unreg": unreg}
    else:
        tix = rng.sample(tops, rng.randint(1, len(tops))) if rng.random() < 0.4 else list(tops)
        if rng.random() < 0.2:
            tix += rng.sample(pair, rng.randint(1, len(pair)))   # one file of the pair, or all of them, requested as well
            rng.shuffle(tix)
        roots = _uniq([list(files[i]["dir"]) for i in tix])
        rest = [list(d) for d in [T] + others if list(d) not in roots]
        rng.shuffle(rest)
        cut = rng.randint(0, len(rest))
        roots += rest[:cut]
        rng.shuffle(roots)
        call = {"fn": "files", "targets": tix, "roots": roots, "lookups": rest[cut:], "allow_unreg": unreg}
    return {"files": files, "call": call, "enum_seed": rng.randrange(10**6)}


def samedir_twin_features(case: dict) -> typing.Iterable[str]:
    """Files of one directory tree that denote one (name, version), and the references to them."""
    call = case["call"]
    dirs = call_dirs(call) + ([list(case["files"][i]["dir"]) for i in call["targets"]] if call["fn"] == "files" else [])
    defs = [d for d in (SDef(i, f) for i, f in enumerate(case["files"]) if is_def_file(f["fname"])) if d.wellformed and d.dir in dirs]
    groups: typing.Dict[tuple, typing.List[SDef]] = {}
    for d in defs:
        groups.setdefault((tuple(d.dir), d.key), []).append(d)
    tset = set(call["targets"]) if call["fn"] == "files" else {d.idx for d in defs if d.dir == list(call["root"])}
    for (_, key), g in groups.items():
        if len(g) < 2:
            continue
        yield "same-directory-twins:%d-files" % min(len(g), 3)
        pidset = {d.pid for d in g}
        exts = {d.f["fname"].rsplit(".", 1)[1] for d in g}
        yield "same-directory-twins:" + ("+".join(sorted(["with-and-without-port-id"] * (None in pidset and len(pidset) > 1) + ["different-port-ids"] * (len(pidset - {None}) > 1)
                                                          + ["both-extensions"] * (len(exts) > 1))) or "same-port-id-and-extension?")
        yield "same-directory-twins:" + ("nested" if g[0].f["sub"] else "at-the-root-of-the-namespace")
        n_t = len([d for d in g if d.idx in tset])
        yield "same-directory-twins:" + ("all-are-targets" if n_t == len(g) else "one-is-a-target" if n_t else "none-is-a-target")
        yield "same-directory-twins:texts-" + ("equal" if all(d.text == g[0].text for d in g) else "differ")
        hit = False
        for d in defs:
            if d.text.get("g"):
                continue
            for sec in d.text["secs"]:
                for st in sec["stmts"]:
                    if st[0] == "ref" and ((st[1] if "." in st[1] else d.ns + "." + st[1]), st[2], st[3]) == key:
                        hit = True
                        yield "same-directory-twins:referenced-%s-from-a-%s" % ("absolutely" if "." in st[1] else "relatively", "target" if d.idx in tset else "dependency")
        if not hit:
            yield "same-directory-twins:never-referenced"


# pairs of versions (M, m) < (M', m') that a LOSSY encoding of the pair into one number / one string maps to the same value:
# radix R instead of 256 (M * R + m: x.R+k and (x+1).k - the roll-over pair x.255 / (x+1).0 for R = 255), the decimal digits written
# one after the other (1.23 / 12.3), the sum, the greater of the two.  Under such a key the two tie and keep their arrival order.
def fold_pairs(rng: random.Random) -> typing.List[typing.Tuple[tuple, tuple]]:
    x = rng.choice([0, 0, 1, 1, 2, 9, 127, 253, 254, 254])
    R = rng.choice([255, 255, 255, 255, 255, 254, 200, 128, 100, 16, 10])
    k = rng.choice([0, 0, 0, 1, 255 - R])
    out = [((x, R + k), (x + 1, k))]
    y = rng.random()
    if y < 0.12:
        out.append(rng.choice([((1, 23), (12, 3)), ((1, 10), (11, 0)), ((2, 55), (25, 5)), ((1, 0), (10, 0)), ((0, 10), (1, 0))]))
    elif y < 0.2:
        out.append(rng.choice([((1, 2), (2, 1)), ((0, 255), (255, 0)), ((1, 255), (255, 1)), ((0, 1), (1, 0)), ((254, 255), (255, 254))]))
    return out


def gen_rollover(rng: random.Random, prop: str) -> dict:
    """Version numbers at the ends of their range (0, 1, 254, 255): for one type name both the LAST minor version of a major version
    and the FIRST version of the next one (x.255 / (x+1).0) and their neighbours (x.254, (x+1).1), further pairs that lossy
    encodings of (major, minor) cannot tell apart (`fold_pairs`), several names, the families in the target namespace and / or
    pulled in as dependencies (order of `transitive`); read_namespace and read_files with the targets listed in any order; most
    cases are repeated in child interpreters under several PYTHONHASHSEED values: newest first, always, in every run (C10)."""
    A, B = ["w0", "alpha"], ["w0", rng.choice(["beta", "lib"])]
    files: typing.List[dict] = []
    fams: typing.List[typing.Tuple[list, list, str, list]] = []
    shorts = rng.sample(SHORTS + ["Dep", "Node"], rng.choice([1, 2, 2, 3]))
    two_dirs = rng.random() < 0.6
    for si, short in enumerate(shorts):
        d = B if (two_dirs and si == len(shorts) - 1) else A
        sub = list(rng.choice([[], [], ["x"], ["x", "z"]]))
        vs: typing.List[tuple] = []
        for _ in range(rng.choice([1, 1, 2, 3])):
            for a, b in fold_pairs(rng):
                vs += [a, b]
                if rng.random() < 0.3:
                    vs.append((a[0], a[1] - 1) if a[1] >= 1 and a[0] + a[1] > 1 else (b[0], b[1] + 1))
                if rng.random() < 0.3 and b[1] < 255:
                    vs.append((b[0], b[1] + 1))
        for _ in range(rng.choice([0, 1, 2])):
            vs.append((rng.choice([0, 1, 2, 254, 255]), rng.choice([0, 1, 2, 254, 255])))
        vs = [u for u in _uniq(vs) if u[0] + u[1] > 0 and u[0] <= 255 and u[1] <= 255]
        rng.shuffle(vs)
        bits = rng.choice([8, 16, 32])
        for u in vs:
            files.append({"dir": list(d), "sub": sub, "fname": fname_of(short, u[0], u[1], None, "uavcan" if rng.random() < 0.1 else "dsdl"),
                          "text": mk_text([["prim", bits]], ["sealed"])})
        fams.append((d, sub, short, vs))
    # a definition that depends on every version of a family (all of them become `transitive` of read_files)
    users: typing.List[int] = []
    for d, sub, short, vs in fams:
        if rng.random() < 0.6:
            name = ".".join([d[-1]] + sub + [short])
            refs = [["ref", name, u[0], u[1]] for u in vs]
            rng.shuffle(refs)
            files.append({"dir": list(A), "sub": [], "fname": fname_of("Uses" + short.capitalize().replace("_", ""), 1, 0), "text": mk_text(refs, ["sealed"])})
            users.append(len(files) - 1)
    layout = [A] + ([B] if any(f["dir"] == B for f in files) else [])
    x = rng.random()
    if x < 0.45:
        call = {"fn": "ns", "root": list(A), "lookups": [list(z) for z in layout[1:]], "allow_collision": True, "allow_unreg": False}
    else:
        if users and x < 0.75:
            tix = list(users)     # the families only as dependencies
            for i in rng.sample(range(len(files)), rng.choice([0, 0, 1, 2])):
                if i not in tix:
                    tix.append(i)
        else:
            cand = list(range(len(files)))
            tix = rng.sample(cand, rng.randint(max(1, len(cand) // 2), len(cand)))
        rng.shuffle(tix)
        roots = _uniq([list(files[i]["dir"]) for i in tix])
        rest = [list(z) for z in layout if list(z) not in roots]
        cut = rng.randint(0, len(rest))
        roots += rest[:cut]
        rng.shuffle(roots)
        call = {"fn": "files", "targets": tix, "roots": roots, "lookups": rest[cut:], "allow_unreg": False}
    case = {"files": files, "call": call, "enum_seed": rng.randrange(10**6)}
    add_variants(rng, case, 1)
    case["hashseeds"] = rng.sample([0, 1, 2, 3, 4, 5, 7, 42, 1234, 99999, 31337, 2**31], rng.choice([2, 3, 3]))
    case["hashseeds_essential"] = 1
    return case


def rollover_features(case: dict) -> typing.Iterable[str]:
    yield from sorted(set(_rollover_features(case)))


def _rollover_features(case: dict) -> typing.Iterable[str]:
    defs = [d for d in (SDef(i, f) for i, f in enumerate(case["files"]) if is_def_file(f["fname"])) if d.wellformed]
    fams: typing.Dict[str, typing.List[SDef]] = {}
    for d in defs:
        fams.setdefault(d.name, []).append(d)
    for g in fams.values():
        vs = {(d.major, d.minor) for d in g}
        for (ma, mi) in vs:
            if mi == 255 and (ma + 1, 0) in vs:
                yield "versions:roll-over-pair-x.255/(x+1).0" + (":x=%d" % ma if ma in (0, 254) else "")
            for R in (254, 200, 128, 100, 16, 10):
                if mi >= R and (ma + 1, mi - R) in vs:
                    yield "versions:pair-that-ties-under-radix-%d" % R
            for (mb, mj) in vs:
                if (ma, mi) < (mb, mj):
                    if "%d%d" % (ma, mi) == "%d%d" % (mb, mj):
                        yield "versions:pair-with-equal-concatenated-digits"
                    if ma + mi == mb + mj:
                        yield "versions:pair-with-equal-sum"
        if any(255 in v for v in vs):
            yield "versions:255"
        if any(254 in v for v in vs):
            yield "versions:254"


def twin_features(case: dict) -> typing.Iterable[str]:
    """Names that differ by letter case only among the definitions the call can see, and what sorts between them."""
    dirs = call_dirs(case["call"]) + ([list(case["files"][i]["dir"]) for i in case["call"]["targets"]] if case["call"]["fn"] == "files" else [])
    defs = [d for d in (SDef(i, f) for i, f in enumerate(case["files"]) if is_def_file(f["fname"])) if d.wellformed and d.dir in dirs]
    groups: typing.Dict[str, typing.List[SDef]] = {}
    for d in defs:
        groups.setdefault(d.name.lower(), []).append(d)
    for low, g in groups.items():
        sp = sorted({d.name for d in g})
        if len(sp) < 2:
            continue
        yield "case-twins:%d-spellings" % min(len(sp), 3)
        diff = [k for k in range(len(sp[0].split("."))) if len({s.split(".")[k] for s in sp}) > 1]
        n = len(sp[0].split("."))
        yield "case-twins:in-" + ("root-name" if 0 in diff else "short-name" if diff == [n - 1] else "namespace-component")
        vs = [{(d.major, d.minor) for d in g if d.name == s} for s in sp]
        yield "case-twins:versions-" + ("equal" if all(v == vs[0] for v in vs) else "disjoint" if not set.intersection(*vs) else "overlapping")
        mid = [d for d in defs if sp[0] < d.name < sp[-1] and d.name.lower() != low]
        yield "case-twins:" + ("separated-by-%d-other-name%s" % (min(len({d.name for d in mid}), 3), "s" if len({d.name for d in mid}) != 1 else "") if mid else "adjacent-in-name-order")
        for d in defs:
            if d.text.get("g"):
                continue
            for sec in d.text["secs"]:
                for st in sec["stmts"]:
                    if st[0] == "ref" and (st[1] if "." in st[1] else d.ns + "." + st[1]).lower() == low:
                        fullname = st[1] if "." in st[1] else d.ns + "." + st[1]
                        hit = [x for x in g if (x.major, x.minor) == (st[2], st[3])]
                        where = "target" if (case["call"]["fn"] == "ns" and d.dir == list(case["call"]["root"])) or (case["call"]["fn"] == "files" and d.idx in case["call"]["targets"]) else "dependency"
                        yield "case-twins:referenced-from-" + where
                        yield "case-twins:reference-" + ("unambiguous" if len(hit) == 1 and hit[0].name == fullname else
                                                         "to-a-version-of-the-other-spelling" if len(hit) == 1 else "ambiguous" if hit else "no-such-version")
                        if mid:
                            yield "case-twins:separated+reference-" + ("unambiguous" if len(hit) == 1 and hit[0].name == fullname else "ambiguous" if len(hit) > 1 else "other")


def perturb_features(case: dict) -> typing.Iterable[str]:
    """What the replaced definition is to the closure of the targets, before and after, and the state of its new text."""
    p = case["perturb"]
    i, new = p["idx"], p["file"]
    files2 = list(case["files"])
    files2[i] = new
    exp, exp2 = spec_eval(case["files"], case["call"]), spec_eval(files2, case["call"])
    inside = i in exp["closure"] or i in exp2["closure"] or i in exp["targets"] or i in exp2["targets"]
    yield "perturb:" + ("inside-the-closure" if inside else "outside-the-closure")
    if inside:
        return
    if i in exp["near"] or i in exp2["near"]:
        yield "perturb:outside:name-differs-from-a-reference-by-letter-case-only"
    t = new["text"]
    if t.get("u"):
        yield "perturb:new-text:" + ("a-directory-named-like-a-definition" if t["u"] == 3 else "bytes-that-are-not-text")
    elif t.get("g"):
        yield "perturb:new-text:does-not-parse"
    elif t != case["files"][i]["text"]:
        yield "perturb:new-text:other-statements"
    d2 = SDef(i, new)
    if d2.wellformed and file_rel(new) != file_rel(case["files"][i]):
        members = [SDef(j, files2[j]) for j in sorted(set(exp2["closure"]) | set(exp2["targets"]))]
        for m in members:
            if not m.wellformed or m.name != d2.name:
                continue
            if (m.major, m.minor) == (d2.major, d2.minor):
                yield "perturb:outside:becomes-namesake-of-a-closure-member:" + ("same-directory" if m.dir == d2.dir else "other-directory-of-the-root-name")
            else:
                yield "perturb:outside:becomes-sibling-version-of-a-closure-member"
        if d2.pid is not None and any(m.wellformed and m.pid == d2.pid for m in members):
            yield "perturb:outside:gets-the-port-id-of-a-closure-member"


def version_features(case: dict) -> typing.Iterable[str]:
    """Version numbers and port-IDs of more than one digit; pairs whose numeric order is not the order of their spellings."""
    defs = [d for d in (SDef(i, f) for i, f in enumerate(case["files"]) if is_def_file(f["fname"])) if d.wellformed]
    if any(d.major >= 10 or d.minor >= 10 for d in defs):
        yield "versions:multi-digit"
    if any(d.pid is not None and d.pid < 1000 for d in defs):
        yield "port-id:1-3-digits"
    fams: typing.Dict[tuple, typing.List[SDef]] = {}
    for d in defs:
        fams.setdefault((d.dir[-1], d.name), []).append(d)
    for g in fams.values():
        for a in g:
            for b in g:
                if a.major == b.major and a.minor < b.minor:
                    inv = str(a.minor) > str(b.minor)
                    if inv:
                        yield "versions:minors-of-one-major-whose-text-order-is-not-numeric-order"
                    if (a.pid is None) != (b.pid is None):
                        yield "versions:port-id-%s-in-newer-minor%s" % ("added" if a.pid is None else "removed", ":text-order-inverted" if inv else "")
                if a.major < b.major and str(a.major) > str(b.major):
                    yield "versions:majors-whose-text-order-is-not-numeric-order"


def prefix_related(a: list, b: list) -> bool:
    return a[: len(b)] == b or b[: len(a)] == a


def gen_history(rng: random.Random, case: dict) -> None:
    """Turn the case into a sequence of calls on one tree in one process: the same files under other roots (a directory inside
    a root designated as the root, the directory above a root designated as the root), other lookups, targets, flags."""
    files, call0 = case["files"], case["call"]
    base_dirs: typing.List[list] = []
    for d in [f["dir"] for f in files] + call_dirs(call0):
        if list(d) not in base_dirs:
            base_dirs.append(list(d))
    cands: typing.List[list] = []
    for f in files:
        if not is_def_file(f["fname"]):
            continue
        for k in range(1, len(f["sub"]) + 1):
            cands.append(list(f["dir"]) + list(f["sub"][:k]))  # a directory inside the root
        if len(f["dir"]) >= 2:
            cands.append(list(f["dir"][:-1]))                   # the directory above the root
    calls: typing.List[dict] = []
    for _ in range(rng.choice([1, 1, 2, 3])):
        x = rng.random()
        unreg = bool(call0["allow_unreg"]) if rng.random() < 0.7 else rng.random() < 0.5
        if x < 0.55 and cands:
            root = rng.choice(cands)
            others = [d for d in base_dirs if not prefix_related(d, root) or rng.random() < 0.05]
            lks = rng.sample(others, rng.randint(0, len(others)))
            view = reattribute(files, {"fn": "ns", "root": root, "lookups": []})
            mine = [i for i, f in enumerate(view) if f["dir"] == root and is_def_file(f["fname"])]
            if rng.random() < 0.5 or not mine:
                c = {"fn": "ns", "root": root, "lookups": lks, "allow_collision": True, "allow_unreg": unreg}
            else:
                cut = rng.randint(0, len(lks))
                c = {"fn": "files", "targets": rng.sample(mine, rng.randint(1, min(3, len(mine)))), "roots": [root] + lks[:cut], "lookups": lks[cut:], "allow_unreg": unreg}
                rng.shuffle(c["roots"])
        elif x < 0.7:
            c = json.loads(json.dumps(call0))  # the same call with another flag / fewer lookups
            c["allow_unreg"] = not c["allow_unreg"] if rng.random() < 0.6 else c["allow_unreg"]
            if c["lookups"] and rng.random() < 0.5:
                c["lookups"].pop(rng.randrange(len(c["lookups"])))
        else:
            lay = [d for d in base_dirs if any(f["dir"] == d for f in files)] or base_dirs
            c = gen_call(rng, files, lay, "files" if call0["fn"] == "ns" else rng.choice(["ns", "files"]))
            c["allow_unreg"] = unreg
        calls.append(c)
    seq = [call0] + calls
    main = seq.pop(0 if rng.random() < 0.5 else rng.randrange(len(seq)))
    rng.shuffle(seq)
    case["files"] = reattribute(files, main)
    case["call"] = main
    case["history"] = []
    for c in seq:
        names = NS_VARIANTS if c["fn"] == "ns" else FILES_VARIANTS
        case["history"].append({"call": c, "variant": rng.choice(names) if rng.random() < 0.5 else "base"})


def spoil_text(rng: random.Random, t: dict, idx: int, may_switch_kind: bool, x: typing.Optional[float] = None) -> None:
    """One state of badness of a definition text: does not parse, cannot even be loaded, breaks a rule, prints, dangles."""
    x = rng.random() if x is None else x
    if x < 0.12:
        t["g"], t["gk"] = True, rng.randrange(4)
    elif x < 0.22:
        t["g"], t["gk"], t["u"] = True, 0, rng.choice([1, 2, 3])   # undecodable bytes / a directory named like the definition
    elif x < 0.37:
        s = t["secs"][rng.randrange(len(t["secs"]))]["stmts"]
        s.insert(rng.randint(0, len(s)), ["bad", rng.randrange(4)])
    elif x < 0.52:
        s = t["secs"][0]["stmts"]
        s.insert(rng.randint(0, len(s)), ["print", 7000 + idx])
    elif x < 0.62:
        t["secs"][0]["mode"] = ["none"]
    elif x < 0.72 and may_switch_kind:
        if len(t["secs"]) == 1:
            t["secs"].append({"stmts": [], "mode": ["sealed"]})
        else:
            t["secs"].pop()
    elif x < 0.84:
        m = t["secs"][0]["mode"]
        t["secs"][0]["mode"] = ["extent", 4096] if m[0] == "sealed" else ["sealed"]
    else:
        t["secs"][0]["stmts"].append(["ref", "nowhere.Missing", 1, 0])


def gen_perturb(rng: random.Random, case: dict) -> None:
    """Replace one definition (usually outside the dependency closure of the targets) by something else (C19): another text in
    any state of badness, or another file name - also one that makes it a NAMESAKE (same full name and version: a port-ID added or
    dropped, the other extension, a second directory of the same root namespace name), a sibling version or a port-ID twin of a
    member of the closure.  Definitions whose name differs from a written reference by letter case only are outside the closure
    and preferred when there are any (their text changes, never their name: the name is what makes the reference an error)."""
    files, call = case["files"], case["call"]
    exp = spec_eval(files, call)
    cand = [i for i, f in enumerate(files) if is_def_file(f["fname"]) and parse_strict(f["fname"])]
    outside = [i for i in cand if i not in exp["closure"] and i not in exp["targets"]]
    near = [i for i in outside if i in exp["near"]]
    if not cand:
        return
    idx = rng.choice(outside) if outside and rng.random() < 0.9 else rng.choice(cand)
    if near and rng.random() < 0.6:
        idx = rng.choice(near)
    f = files[idx]
    t = json.loads(json.dumps(f["text"]))
    new = {"dir": f["dir"], "sub": f["sub"], "fname": f["fname"], "text": t}
    x = rng.random()
    if idx in near:
        x *= 0.8
    members = [SDef(i, files[i]) for i in sorted(set(exp["closure"]) | set(exp["targets"])) if i != idx]
    members = [m for m in members if m.wellformed]
    related = bool(members) and idx in outside and idx not in near and rng.random() < 0.2
    if x < 0.8 and not related:
        spoil_text(rng, t, idx, idx in outside, x / 0.8)
    else:
        p = parse_strict(f["fname"])
        y = rng.random()
        others = [parse_strict(g["fname"]) for g in files if parse_strict(g["fname"])]
        if related or (y < 0.3 and members and idx in outside):
            # related to a member of the closure: namesake / sibling version / the same port-ID.  A member that is written in a
            # reference would make its namesake a second candidate of that reference (inside the closure), hence the preference
            # for members nobody refers to (targets)
            written = set()
            for q in members:
                if not q.text.get("g"):
                    written |= {((st[1] if "." in st[1] else q.ns + "." + st[1]).lower(), st[2], st[3]) for sec in q.text["secs"] for st in sec["stmts"] if st[0] == "ref"}
            unref = [q for q in members if (q.name.lower(), q.major, q.minor) not in written]
            m = rng.choice(unref) if unref and rng.random() < 0.8 else rng.choice(members)
            mp = parse_strict(m.f["fname"])
            kind = rng.choice(["namesake-pid", "namesake-ext", "namesake-dir", "sibling", "sibling", "port-id"])
            std = m.dir[-1] in ("uavcan", "cyphal")
            is_srv = len(m.text["secs"]) == 2
            some_pid = (400 if std else 300) if is_srv else (7300 if std else 6300)
            ext = m.f["fname"].rsplit(".", 1)[1]
            new["dir"], new["sub"] = list(m.dir), list(m.f["sub"])
            if kind == "namesake-pid":
                new["fname"] = fname_of(mp[1], mp[2], mp[3], None if mp[0] is not None else some_pid, ext)
            elif kind == "namesake-ext":
                new["fname"] = fname_of(mp[1], mp[2], mp[3], mp[0], "uavcan" if ext == "dsdl" else "dsdl")
            elif kind == "namesake-dir":
                twins = [d for d in call_dirs(call) if d[-1] == m.dir[-1] and d != m.dir]
                if twins:
                    new["dir"] = list(rng.choice(twins))
                    new["fname"] = fname_of(mp[1], mp[2], mp[3], rng.choice([mp[0], None]), ext)
                else:
                    new["fname"] = fname_of(mp[1], mp[2], mp[3], None if mp[0] is not None else some_pid, ext)
            elif kind == "sibling":
                new["fname"] = fname_of(mp[1], mp[2], rng.choice([v for v in (0, 1, 2, 3, 9, 10) if v != mp[3] and mp[2] + v > 0]), rng.choice([mp[0], None, some_pid]), ext)
            else:
                new["dir"], new["sub"] = f["dir"], f["sub"]
                new["fname"] = fname_of(p[1], p[2], p[3], mp[0] if mp[0] is not None else some_pid)
            z = rng.random()
            if z < 0.4:
                t["g"], t["gk"], t["u"] = True, 0, rng.choice([1, 2, 3])
            elif z < 0.8:
                spoil_text(rng, t, idx, True)
        elif y < 0.55:
            pids = [o[0] for o in others if o[0] is not None] or [6200]
            new["fname"] = fname_of(p[1], p[2], p[3], rng.choice(pids))
        elif y < 0.85:
            new["fname"] = fname_of(p[1], rng.choice([p[2], 0, 1, 2]), rng.choice([0, 1, 2, 3]), p[0])
        elif y < 0.91:
            new["fname"] = fname_of(rng.choice(SHORTS), p[2], p[3], p[0])
        else:
            new["fname"] = rng.choice(MALFORMED[:8])
        if any(file_rel(g) == file_rel(new) for j, g in enumerate(files) if j != idx):
            new["dir"], new["sub"], new["fname"] = f["dir"], f["sub"], f["fname"]
            t["g"] = True
    # SIZE as a state of badness (2% of the cases, one such file per case): drawn from a generator of its own, so that the
    # stream of cases is the same with and without it
    r2 = random.Random("size/%s/%d/%d" % (case.get("enum_seed", 0), idx, len(files)))
    if r2.random() < 0.02 and idx in outside:
        new = {"dir": f["dir"], "sub": f["sub"], "fname": f["fname"], "text": {"g": True, "gk": 0, "big": r2.choice(SIZES), "secs": [{"stmts": [], "mode": ["sealed"]}]}}
    case["perturb"] = {"idx": idx, "file": new}


# ------------------------------------------------------------------------------------------------ version numbers beyond their range

OOR_LEGAL = [(1, 0), (1, 0), (1, 1), (2, 0), (0, 1), (2, 1), (0, 255), (255, 0), (255, 255), (1, 255), (3, 7), (16, 0), (0, 16), (10, 10)]


def fold_aliases(M: int, m: int) -> typing.List[tuple]:
    """Version pairs with a number BEYOND the legal range 0..255 that some lossy encoding of (major, minor) into one number cannot
    tell from the legal pair (M, m): major * 256 + minor and (major << 8) | minor (x.256+k = (x+1).k, 0.(256 M + m) = M.m), radix 255
    / 1000, each number cut to its low byte or its low 16 / 32 bits.  The grammar of a reference and the shape of a file name admit
    any decimal numeral; only a definition that is READ must have its numbers in range."""
    out = [(M, m + 256), (M + 256, m), (M + 256, m + 256), (M, m + 512), (M + 512, m), (M, m + 65536), (M + 65536, m), (M, m + 2**32), (M + 256, m + 65536)]
    if M >= 1:
        out += [(M - 1, m + 256), (0, M * 256 + m), (M, m + 256 * M), (M - 1, m + 255), (0, M * 255 + m), (0, M * 1000 + m), (M - 1, m + 1000)]
    if M >= 2:
        out += [(M - 2, m + 512), (1, (M - 1) * 256 + m)]
    return [v for v in _uniq(out) if max(v) > 255 and v != (M, m)]


OOR_UNRELATED = [(256, 0), (0, 256), (300, 300), (0, 1000), (999, 1), (65536, 0), (0, 65535), (256, 256)]


def gen_outofrange(rng: random.Random, prop: str) -> dict:
    """A family of legal versions of one name, and version numbers beyond the legal range (256, 257, 511, 512, 65536, 2**32, numbers
    whose low byte / folded value equals an existing version - `fold_aliases`):
      in REFERENCES (C09): `Foo.0.256` names a version that cannot exist; it is missing, whatever Foo.1.0 there is;
      in the FILE NAMES of definitions nobody refers to (C19, C09): `Dep.0.256.dsdl` next to `Dep.1.0.dsdl` (or next to a dangling
      reference to Dep.1.0) is invalid only when it is read, and nobody reads it; its text is in any state of badness.
    For C19 the case carries a replacement: an unreferenced legal file becomes such a file (or, rarely, a file of some SIZE)."""
    A = ["w0", "alpha"]
    B = [rng.choice(["w0", "w1"]), rng.choice(["lib", "beta", "Dep"])]
    fn = rng.choice(["ns", "files", "files"])
    D = B if rng.random() < 0.7 else A
    sub = list(rng.choice([[], [], ["x"], ["geo", "nav"]]))
    short = rng.choice(["Dep", "Foo", "Node", "m_t", "V"])
    name = ".".join([D[-1]] + sub + [short])
    vs = _uniq(rng.sample(OOR_LEGAL, rng.randint(1, 4)))
    files: typing.List[dict] = []
    for k, v in enumerate(vs):
        files.append({"dir": list(D), "sub": sub, "fname": fname_of(short, v[0], v[1], None, "uavcan" if rng.random() < 0.1 else "dsdl"),
                      "text": mk_text([["prim", 8 * (k + 1)], ["print", 100 + k]], ["sealed"])})
    absent = [v for v in OOR_LEGAL if v not in vs]
    written: typing.List[tuple] = []
    users: typing.List[int] = []
    clean_all = prop == "C19" or rng.random() < 0.35
    for k in range(rng.randint(1, 3)):
        stmts: typing.List[list] = []
        clean = clean_all or rng.random() < 0.4
        for _ in range(rng.choice([1, 1, 2, 3])):
            x = rng.random()
            if clean or x < 0.45:
                v = rng.choice(vs)
                written.append(v)
            elif x < 0.85:
                v = rng.choice(fold_aliases(*rng.choice(vs)))
            elif x < 0.92:
                v = rng.choice(OOR_UNRELATED)
            else:
                v = rng.choice(absent)
                written.append(v)
            nm = short if (D == A and not sub and rng.random() < 0.5) else name
            stmts.append(["ref", nm, v[0], v[1]])
        if prop == "C19" and rng.random() < 0.25:
            v = rng.choice(absent)    # a dangling reference to a legal version: the error must stay what it is
            written.append(v)
            stmts.append(["ref", name, v[0], v[1]])
        stmts.insert(rng.randint(0, len(stmts)), ["prim", rng.choice([8, 16])])
        files.append({"dir": list(A), "sub": [], "fname": fname_of("User%d" % k, 1, k), "text": mk_text(stmts, ["sealed"])})
        users.append(len(files) - 1)
    # definitions nobody refers to, with numbers beyond the range in their file names (never among the targets)
    may_stand_by = fn == "files" or D != A
    taken = {f["fname"].rsplit(".", 1)[0] for f in files if f["dir"] == D and f["sub"] == sub}
    bystanders: typing.List[int] = []

    def alias_file() -> typing.Optional[dict]:
        base = rng.choice(written) if written and rng.random() < 0.85 else rng.choice(vs)
        v = rng.choice(fold_aliases(*base)) if rng.random() < 0.9 else rng.choice(OOR_UNRELATED)
        fnm = fname_of(short, v[0], v[1], rng.choice([None, None, None, 6200]), rng.choice(["dsdl", "dsdl", "uavcan"]))
        if "%s.%d.%d" % (short, v[0], v[1]) in taken:
            return None
        taken.add("%s.%d.%d" % (short, v[0], v[1]))
        t = mk_text([["prim", 64], ["print", 900]], ["sealed"])
        if rng.random() < 0.75:
            spoil_text(rng, t, 0, True)
        return {"dir": list(D), "sub": sub, "fname": fnm, "text": t}

    if may_stand_by and prop != "C19":
        for _ in range(rng.choice([0, 1, 1, 2])):
            g = alias_file()
            if g is not None:
                files.append(g)
                bystanders.append(len(files) - 1)
    if fn == "ns":
        call = {"fn": "ns", "root": list(A), "lookups": [list(B)] if (D == B or rng.random() < 0.5) else [], "allow_collision": True, "allow_unreg": False}
    else:
        tix = list(users)
        fam = [i for i, f in enumerate(files) if f["dir"] == D and i not in users and i not in bystanders]
        if rng.random() < 0.3:
            tix.append(rng.choice(fam))
        rng.shuffle(tix)
        roots = _uniq([list(files[i]["dir"]) for i in tix])
        lks = []
        if D not in roots:
            (roots if rng.random() < 0.5 else lks).append(list(D))
        rng.shuffle(roots)
        call = {"fn": "files", "targets": tix, "roots": roots, "lookups": lks, "allow_unreg": False}
    case = {"files": files, "call": call, "enum_seed": rng.randrange(10**6)}
    if prop == "C19":
        case["variants"] = []
        if may_stand_by:
            # an unreferenced legal file of the family's directory ...
            v0 = rng.choice([v for v in [(3, 9), (4, 0), (0, 7), (9, 9)] if v not in vs and v not in written])
            files.append({"dir": list(D), "sub": sub, "fname": fname_of(short if rng.random() < 0.7 else "Bystander", v0[0], v0[1]), "text": mk_text([["prim", 8]], ["sealed"])})
            new = alias_file()   # ... becomes one whose name carries numbers beyond the range
            if new is not None:
                if rng.random() < 0.04:
                    new = {"dir": list(D), "sub": sub, "fname": files[-1]["fname"], "text": {"g": True, "gk": 0, "big": rng.choice(SIZES), "secs": [{"stmts": [], "mode": ["sealed"]}]}}
                case["perturb"] = {"idx": len(files) - 1, "file": new}
        if "perturb" not in case:
            gen_perturb(rng, case)
    else:
        add_variants(rng, case, 1)
    return case


def outofrange_features(case: dict) -> typing.Iterable[str]:
    yield from sorted(set(_outofrange_features(case)))


def _outofrange_features(case: dict) -> typing.Iterable[str]:
    allf = list(case["files"]) + ([case["perturb"]["file"]] if case.get("perturb") else [])
    defs = [d for d in (SDef(i, f) for i, f in enumerate(allf) if is_def_file(f["fname"])) if d.wellformed]
    legal = {}
    for d in defs:
        if d.major <= 255 and d.minor <= 255:
            legal.setdefault(d.name.lower(), set()).add((d.major, d.minor))

    def rel(nm, v):
        ex = legal.get(nm.lower(), set())
        kinds = []
        for (M, m) in ex:
            if v in fold_aliases(M, m):
                if M * 256 + m == v[0] * 256 + v[1]:
                    kinds.append("equal-under-major*256+minor")
                elif (M << 8) | m == (v[0] << 8) | v[1]:
                    kinds.append("equal-under-shift-or")
                elif (M & 255, m & 255) == (v[0] & 255, v[1] & 255):
                    kinds.append("equal-low-bytes")
                else:
                    kinds.append("equal-under-another-fold")
        return kinds or ["aliases-no-existing-version"]

    for d in defs:
        if d.text.get("big") is not None:
            yield "text:size:" + size_class(int(d.text["big"]))
        if max(d.major, d.minor) > 255:
            who = "replacement" if case.get("perturb") and d.idx == len(case["files"]) else "file"
            for k in rel(d.name, (d.major, d.minor)):
                yield "version-beyond-255:in-a-%s-name:%s" % (who, k)
            yield "version-beyond-255:in-a-%s-name:%s" % (who, "garbage" if d.text.get("g") else "text-parses")
        if d.text.get("g"):
            continue
        for sec in d.text["secs"]:
            for st in sec["stmts"]:
                if st[0] == "ref" and max(st[2], st[3]) > 255:
                    full = st[1] if "." in st[1] else d.ns + "." + st[1]
                    for k in rel(full, (st[2], st[3])):
                        yield "version-beyond-255:in-a-reference:%s" % k
                    yield "version-beyond-255:in-a-reference:" + ("65536-or-more" if max(st[2], st[3]) >= 65536 else "256-511" if max(st[2], st[3]) < 512 else "512-65535")


MENTION_HOWS = ["line", "doc", "trail", "trail", "trail", "str", "str", "strcmp"]


def gen_mentions(rng: random.Random, prop: str, perturb: bool = True) -> dict:
    """Texts that MENTION other definitions without referring to them (C19): the exact versioned name of a definition that exists in
    the lookup set - absolute, or relative when it lives in the writer's namespace - written in a comment line, in the comment in
    front of an attribute, in a comment behind a statement, or inside string literals of an @assert; written in a target or in a real
    dependency of a target; the mentioned definition in a lookup directory or (read_files) in the targets' own root namespace, alone
    or with dependencies of its own, a @print, a second version, a same-directory twin.  Controls: the name in another letter case,
    a version nobody has, a definition that IS in the closure.  The mentioned definition is outside the dependency closure: it is
    then replaced by a text in every state of badness (`perturb`), or is bad from the start (perturb = False: the expected result is
    the one computed without it, its dependencies are nobody's `transitive`)."""
    T = ["w0", "alpha"]
    L = [rng.choice(["w0", "w1"]), rng.choice(["lib", "lib", "vendor"])]
    fn = rng.choice(["ns", "files", "files"])
    files: typing.List[dict] = []
    used: typing.Set[str] = set()

    def full(d, sub, short):
        return ".".join([d[-1]] + list(sub) + [short])

    def add(d, sub, short, v, stmts, pid=None, ext="dsdl", mode=None):
        files.append({"dir": list(d), "sub": list(sub), "fname": fname_of(short, v[0], v[1], pid, ext), "text": mk_text(stmts, mode or ["sealed"])})
        used.add(full(d, sub, short).lower())
        return len(files) - 1

    def where(i):
        f = files[i]
        return f["dir"], f["sub"], parse_strict(f["fname"])

    # the closure: Top -> Dep (-> Leaf), possibly a second target
    d_dir, d_sub = rng.choice([(L, []), (L, ["x"]), (T, ["x"]), (T, [])])
    inside: typing.List[int] = []
    dep_stmts: typing.List[list] = [["prim", 8]]
    if rng.random() < 0.4:
        leaf = add(L, ["x"], "Leaf", (1, 2), [["prim", 16]] + ([["print", 11]] if rng.random() < 0.3 else []))
        inside.append(leaf)
        dep_stmts.append(["ref", full(L, ["x"], "Leaf"), 1, 2])
    dep = add(d_dir, d_sub, "Dep", (1, 0), dep_stmts + ([["print", 12]] if rng.random() < 0.3 else []))
    inside.append(dep)
    tops = [add(T, [], "Top", (1, 0), [["ref", full(d_dir, d_sub, "Dep"), 1, 0], ["prim", 8]] + ([["print", 13]] if rng.random() < 0.3 else []))]
    if rng.random() < 0.35:
        tops.append(add(T, d_sub if d_dir == T else ["u"], "Hub", (2, 1), [["ref", "Dep" if d_dir == T else full(d_dir, d_sub, "Dep"), 1, 0]]))
    inside += tops
    # definitions outside the closure
    spots = [(L, []), (L, ["x"]), (L, ["old", "v1"]), (L, ["y"])] + ([(T, ["x"]), (T, []), (T, ["attic"])] if fn == "files" else [])
    outs: typing.List[int] = []
    for q in range(rng.choice([1, 1, 2, 3])):
        o_dir, o_sub = rng.choice(spots)
        short = ["Legacy", "Old", "Draft"][q]
        v = rng.choice([(1, 0), (1, 0), (0, 1), (2, 3), (1, 10), (255, 255), (0, 255)])
        stmts: typing.List[list] = [["prim", rng.choice([8, 16])]]
        if rng.random() < 0.45:
            part = add(o_dir, o_sub, short + "Part", (1, 0), [["prim", 16]] + ([["print", 20 + q]] if rng.random() < 0.3 else []))
            stmts.append(["ref", rng.choice([short + "Part", full(o_dir, o_sub, short + "Part")]), 1, 0])
            del part
        if rng.random() < 0.3:
            stmts.append(["print", 30 + q])
        pid = rng.choice([None, None, None, 6200 + q])
        outs.append(add(o_dir, o_sub, short, v, stmts, pid, "uavcan" if rng.random() < 0.1 else "dsdl"))
        y = rng.random()
        if y < 0.15 and v[1] < 255:
            add(o_dir, o_sub, short, (v[0], v[1] + 1), list(stmts), pid)           # a second version (same layout)
        elif y < 0.25:
            add(o_dir, o_sub, short, v, [["prim", 8]], (pid + 10) if pid is not None else 6300 + q)   # a same-directory twin: the name is not unique
    # the mentions
    mentioned: typing.List[int] = []
    for _ in range(rng.choice([1, 1, 2, 3])):
        w = rng.choice(inside)
        w_dir, w_sub, _p = where(w)
        x = rng.random()
        o = rng.choice(outs if x < 0.92 else inside)
        o_dir, o_sub, op = where(o)
        name = op[1] if ([w_dir[-1]] + list(w_sub) == [o_dir[-1]] + list(o_sub) and rng.random() < 0.6) else full(o_dir, o_sub, op[1])
        ver = (op[2], op[3])
        if x < 0.78 or x >= 0.92:
            if o in outs:
                mentioned.append(o)
        elif x < 0.85:
            name = (name[: -len(op[1])] + swap_case(op[1])) if rng.random() < 0.6 else name.swapcase()
        else:
            ver = (op[2], (op[3] + 1) % 256)
        st = ["mention", rng.choice(MENTION_HOWS), name, ver[0], ver[1]]
        stmts = files[w]["text"]["secs"][0]["stmts"]
        stmts.insert(rng.randint(0, len(stmts)), st)
    layout = [T] + ([L] if any(f["dir"] == L for f in files) else [])
    unreg = False
    if fn == "ns":
        call = {"fn": "ns", "root": list(T), "lookups": [list(x) for x in layout[1:]], "allow_collision": True, "allow_unreg": unreg}
    else:
        tix = list(tops)
        if rng.random() < 0.15:
            tix.append(dep)
        rng.shuffle(tix)
        roots = _uniq([list(files[i]["dir"]) for i in tix])
        rest = [list(x) for x in layout if list(x) not in roots]
        cut = rng.randint(0, len(rest))
        call = {"fn": "files", "targets": tix, "roots": roots + rest[:cut], "lookups": rest[cut:], "allow_unreg": unreg}
    case = {"files": files, "call": call, "enum_seed": rng.randrange(10**6), "variants": []}
    victim = rng.choice(mentioned) if mentioned and rng.random() < 0.85 else rng.choice(outs)
    f = files[victim]
    t = json.loads(json.dumps(f["text"]))
    spoil_text(rng, t, victim, True)
    if perturb:
        case["perturb"] = {"idx": victim, "file": {"dir": f["dir"], "sub": f["sub"], "fname": f["fname"], "text": t}}
    elif rng.random() < 0.6:
        f["text"] = t
    return case


def mention_features(case: dict) -> typing.Iterable[str]:
    call = case["call"]
    defs = [SDef(i, f) for i, f in enumerate(case["files"]) if is_def_file(f["fname"])]
    good = [d for d in defs if d.wellformed]
    tset = set(call["targets"]) if call["fn"] == "files" else {d.idx for d in defs if d.dir == list(call["root"])}
    exp = None
    for d in good:
        if d.text.get("g"):
            continue
        for sec in d.text["secs"]:
            for st in sec["stmts"]:
                if st[0] != "mention":
                    continue
                if exp is None:
                    exp = spec_eval(case["files"], call)
                yield "mention:" + {"line": "comment-line", "doc": "comment-in-front-of-an-attribute", "trail": "comment-behind-a-statement", "str": "string-literal", "strcmp": "string-literals+comment"}[st[1]]
                yield "mention:" + ("relative-name" if "." not in st[2] else "absolute-name")
                yield "mention:written-in-a-" + ("target" if d.idx in tset else "dependency" if d.idx in exp["closure"] else "definition-outside-the-closure")
                fullname = st[2] if "." in st[2] else d.ns + "." + st[2]
                hit = [x for x in good if x.name == fullname and (x.major, x.minor) == (st[3], st[4])]
                if not hit:
                    yield "mention:of-" + ("a-name-in-another-letter-case" if any(x.name.lower() == fullname.lower() for x in good) else "nothing-that-exists")
                    if any(x.name == fullname for x in good):
                        yield "mention:of-a-version-nobody-has"
                    continue
                yield "mention:of-a-definition-" + ("inside-the-closure" if any(x.idx in exp["closure"] or x.idx in tset for x in hit) else "outside-the-closure")
                if len(hit) > 1:
                    yield "mention:of-a-name-defined-twice"
                for x in hit:
                    if x.idx in exp["closure"] or x.idx in tset:
                        continue
                    yield "mention:outside:" + ("in-the-targets'-own-root-namespace" if any(x.dir == defs_dir for defs_dir in [case["files"][i]["dir"] for i in tset]) else "in-a-lookup-directory")
                    if not x.text.get("g") and any(s2[0] == "ref" for sc in x.text["secs"] for s2 in sc["stmts"]):
                        yield "mention:outside:has-dependencies-of-its-own"
                    if case.get("perturb") and case["perturb"]["idx"] == x.idx:
                        yield "mention:outside:is-the-replaced-definition"
                    elif not case.get("perturb"):
                        t = x.text
                        bad = t.get("g") or any(s2[0] == "bad" or (s2[0] == "ref" and s2[1] == "nowhere.Missing") for sc in t["secs"] for s2 in sc["stmts"]) or any(sc["mode"][0] == "none" for sc in t["secs"])
                        yield "mention:outside:text-" + ("broken" if bad else "fine")


# ------------------------------------------------------------------------------------------------ the suite

DIR_ERRORS = ("NestedRootNamespaceError", "RootNamespaceNameCollisionError")
NAME_ERRORS = ("FileNameFormatError", "PathInferenceError", "InvalidNameError")
REF_ERRORS = ("UndefinedDataTypeError", "DataTypeCollisionError", "DataTypeNameCollisionError")
C11_ERRORS = ("FixedPortIDCollisionError", "VersionsOfDifferentKindError", "MinorVersionFixedPortIDError", "ExtentConsistencyError", "SealingConsistencyError")


def tkey(t):
    return "%s.%d.%d" % (t["n"], t["v"][0], t["v"][1])


def _s(x, n=300):
    s = json.dumps(x, sort_keys=True, default=str)
    return s if len(s) <= n else s[:n] + "..."


class NsSuite(common.Suite):
    name = "ns"

    # ------------------------------------------------------------------ generation
    def generate(self, rng, n, prop, tier):
        out = []
        for _ in range(n):
            x = rng.random()
            if prop == "C11":
                c = gen_versions(rng, prop) if x < 0.85 else gen_graph(rng, prop)
                add_variants(rng, c, 1)
            elif prop == "C15":
                if x >= 0.9:
                    out.append(gen_two_trees(rng, prop))   # (brings its own spellings)
                    continue
                c = gen_names(rng, prop) if x < 0.72 else gen_graph(rng, prop)
                if rng.random() < 0.35:
                    gen_history(rng, c)
                add_variants(rng, c, 4)
            elif prop == "C10":
                if x >= 0.95:
                    out.append(gen_two_trees(rng, prop))
                    continue
                if x >= 0.915:
                    out.append(gen_rollover(rng, prop))     # (brings its own spellings and hash seeds)
                    continue
                if x >= 0.9:
                    c = gen_mentions(rng, prop, perturb=False)
                    add_variants(rng, c, 1)
                    out.append(c)
                    continue
                c = (gen_dirs(rng, prop) if x < 0.15 else gen_dirs_universe(rng, prop)) if x < 0.3 else gen_twins(rng, prop) if x >= 0.87 else gen_graph(rng, prop)
                if 0.3 <= x < 0.87 and rng.random() < 0.08:
                    gen_history(rng, c)
                add_variants(rng, c, 3)
            elif prop == "C19":
                if x >= 0.9:
                    out.append(gen_mentions(rng, prop))     # (brings its own replacement)
                    continue
                if 0.62 <= x < 0.68:
                    out.append(gen_outofrange(rng, prop))   # (brings its own replacement)
                    continue
                c = gen_graph(rng, prop) if x < 0.68 else gen_versions(rng, prop) if x < 0.79 else gen_twins(rng, prop)
                gen_perturb(rng, c)
                c["variants"] = []
            else:
                if 0.66 <= x < 0.72:
                    out.append(gen_outofrange(rng, prop))   # (brings its own spellings)
                    continue
                c = gen_graph(rng, prop) if x < 0.72 else gen_twins(rng, prop) if x < 0.88 else gen_samedir_twins(rng, prop)
                if x < 0.72 and rng.random() < 0.08:
                    gen_history(rng, c)
                add_variants(rng, c, 2)
            out.append(c)
        return out

    def corpus(self, prop):
        S = lambda *st: mk_text([list(x) for x in st], ["sealed"])  # noqa: E731
        A = ["w0", "alpha"]
        B = ["w0", "beta"]

        def ns(files, root=A, lookups=(), **kw):
            c = {"files": files, "call": {"fn": "ns", "root": root, "lookups": [list(x) for x in lookups], "allow_collision": True, "allow_unreg": False},
                 "enum_seed": 1, "variants": ["rel", "link", "dup"]}
            if "variants" in kw:
                c["variants"] = list(kw.pop("variants"))
            c["call"].update(kw)
            return c

        def fl(files, targets, roots, lookups=(), variants=("names", "relcwd", "relnoroots", "relelsewhere", "linkroots", "linkfiles", "dup")):
            return {"files": files, "call": {"fn": "files", "targets": list(targets), "roots": [list(x) for x in roots], "lookups": [list(x) for x in lookups], "allow_unreg": False},
                    "enum_seed": 2, "variants": list(variants)}

        F = lambda d, sub, fn, t: {"dir": d, "sub": list(sub), "fname": fn, "text": t}  # noqa: E731
        out = []
        if prop in ("C09", "C10", "C19"):
            # chain + diamond + several versions, relative and absolute references, prints, cross-root
            out.append(ns([F(A, [], "A.1.0.dsdl", S(["ref", "B", 1, 0], ["ref", "alpha.x.C", 1, 0], ["print", 1])),
                           F(A, [], "B.1.0.dsdl", S(["ref", "alpha.x.C", 1, 0], ["print", 2])),
                           F(A, ["x"], "C.1.0.dsdl", S(["ref", "beta.D", 2, 1], ["prim", 8], ["print", 3])),
                           F(A, ["x"], "C.1.1.dsdl", S(["prim", 16])),
                           F(B, [], "D.2.1.dsdl", S(["prim", 32], ["print", 4])),
                           F(B, [], "D.2.0.dsdl", S(["ref", "nowhere.X", 1, 0]))], lookups=[B]))
            # cycle, self reference, missing, case-only difference
            out.append(ns([F(A, [], "A.1.0.dsdl", S(["ref", "B", 1, 0])), F(A, [], "B.1.0.dsdl", S(["ref", "alpha.A", 1, 0]))]))
            out.append(ns([F(A, [], "A.1.0.dsdl", S(["ref", "A", 1, 0]))]))
            out.append(ns([F(A, [], "A.1.0.dsdl", S(["ref", "alpha.b", 1, 0])), F(A, [], "B.1.0.dsdl", S())]))
            out.append(ns([F(A, [], "A.1.0.dsdl", S(["ref", "alpha.B", 1, 0])), F(A, [], "B.1.0.dsdl", S()), F(A, [], "b.1.0.dsdl", S())]))
            out.append(ns([F(A, [], "A.1.0.dsdl", S(["ref", "alpha.B", 1, 1])), F(A, [], "B.1.0.dsdl", S())]))
            # two lookup definitions with the same name and version (two directories of one root namespace name)
            out.append(fl([F(A, [], "A.1.0.dsdl", S(["ref", "alpha.B", 1, 0])), F(A, [], "B.1.0.dsdl", S()), F(["w1", "alpha"], [], "B.1.0.dsdl", S(["prim", 8]))],
                          [0], [A], [["w1", "alpha"]], variants=("dup", "linkroots")))
            # promotion: dependency first pulled in transitively, later a target itself
            out.append(fl([F(A, [], "U.2.0.dsdl", S(["ref", "alpha.U", 1, 0], ["print", 5])), F(A, [], "U.1.0.dsdl", S(["print", 6])), F(A, [], "V.1.0.dsdl", S())], [0, 1], [A]))
            out.append(fl([F(A, [], "U.2.0.dsdl", S(["ref", "alpha.U", 1, 0])), F(A, [], "U.3.0.dsdl", S(["ref", "alpha.U", 1, 0])), F(A, [], "U.1.0.dsdl", S(["print", 6]))], [0, 1], [A]))
        if prop == "C09":
            # names differing by letter case only, with other names sorting between the spellings (capitals < '_' < small letters);
            # equal versions: every reference is ambiguous; different versions: every exact reference is fine
            L = ["w1", "lib"]
            for va, vb in (((1, 0), (1, 0)), ((1, 0), (2, 0)), ((1, 10), (1, 9))):
                for between in (["Goo"], ["Foo_2", "_x"], []):
                    for ref in (["alpha.Foo"] + list(va), ["alpha.foo"] + list(vb), ["foo"] + list(vb)):
                        fs = [F(A, [], "User.1.0.dsdl", S(["ref"] + ref)), F(A, [], fname_of("Foo", *va), S(["prim", 8])), F(A, [], fname_of("foo", *vb), S(["prim", 16]))]
                        fs += [F(A, [], fname_of(b, 1, 0), S()) for b in between]
                        out.append(ns(fs, variants=["rel"]))
                # ... in a namespace component, in a lookup directory, referenced from a dependency of the target
                fs = [F(A, [], "Top.1.0.dsdl", S(["ref", "lib.Dep", 1, 0])), F(L, [], "Dep.1.0.dsdl", S(["ref", "lib.geo.P", vb[0], vb[1]])),
                      F(L, ["GEO"], fname_of("P", *va), S(["prim", 8])), F(L, ["geo"], fname_of("P", *vb), S(["prim", 16])), F(L, [], "Zed.1.0.dsdl", S()), F(L, ["GEO"], "Q.1.0.dsdl", S())]
                out.append(ns(fs, lookups=[L], variants=["link"]))
                out.append(fl(fs, [0], [A], [L], variants=("dup", "linkroots")))
        if prop == "C09":
            # version numbers beyond 255 in references: a version that cannot exist is missing, whatever legal version a lossy
            # encoding of the pair would confuse it with; such numbers in the names of files nobody refers to change nothing
            L = ["w1", "lib"]
            fam = [(0, 1), (1, 0), (1, 1), (2, 0), (255, 255)]
            for D, lk in ((A, []), (L, [L])):
                nm = D[-1] + ".Foo"
                base_files = [F(D, [], fname_of("Foo", *v), S(["prim", 8 * (k + 1)])) for k, v in enumerate(fam)]
                refs = [(0, 256), (0, 257), (1, 256), (0, 512), (0, 511), (256, 0), (257, 1), (1, 65536), (0, 2**32 + 1), (254, 511), (0, 65535), (1, 1)]
                for k, v in enumerate(refs):
                    fs = [F(A, [], "User.1.0.dsdl", S(["ref", "Foo" if (D == A and k % 2) else nm, v[0], v[1]]))] + base_files
                    out.append(ns(fs, lookups=lk, variants=["rel"]) if k % 3 else fl(fs, [0], _uniq([A, D]), variants=("dup",)))
                if D != A:
                    for k, v in enumerate([(0, 256), (0, 257), (1, 256), (257, 0), (0, 512), (1, 65536)]):
                        fs = [F(A, [], "User.1.0.dsdl", S(["ref", nm, 1, 0], ["ref", nm, 1, 1], ["ref", nm, 2, 0]))] + base_files
                        fs.append(F(D, [], fname_of("Foo", *v), [S(["prim", 64]), mk_text([], ["sealed"], g=True), S(["bad", 0])][k % 3]))
                        out.append(ns(fs, lookups=lk, variants=["link"]) if k % 2 else fl(fs, [0], [A], [D], variants=("dup",)))
        if prop in ("C09", "C10", "C15"):
            # every path-like argument in every admissible form x every spelling, one argument at a time (small scope, exhaustive)
            g_ab = [F(A, [], "A.1.0.dsdl", S(["ref", "B", 1, 0], ["ref", "beta.D", 2, 1])), F(A, ["x"], "B.1.0.dsdl", S(["ref", "alpha.B", 1, 0], ["print", 1])),
                    F(A, [], "B.1.0.dsdl", S(["prim", 8])), F(B, [], "6200.D.2.1.dsdl", S(["prim", 16], ["print", 2]))]
            g_a = [F(A, [], "A.1.0.dsdl", S(["ref", "B", 1, 0], ["print", 1])), F(A, ["x"], "B.1.0.dsdl", S(["ref", "alpha.B", 1, 0])), F(A, [], "B.1.0.dsdl", S(["prim", 8]))]
            g_nest = [F(A, [], "A.1.0.dsdl", S()), F(A, ["x"], "B.1.0.dsdl", S())]
            for base in (ns(g_ab, lookups=[B]), ns(g_a), ns(g_ab, lookups=[B, ["w1", "gamma"]]), ns(g_nest, lookups=[A + ["x"]]),
                         fl(g_ab, [0], [A], [B]), fl(g_ab, [1, 0], [A, B]), fl(g_a, [0], [A]), fl(g_nest, [0], [A], [A + ["x"]])):
                for form, mixes in sorted(mix_universe(base["call"], base["files"]).items()):
                    c = json.loads(json.dumps(base))
                    c["variants"] = mixes
                    out.append(c)
        if prop == "C10":
            # finding F9
            out.append(ns([F(A, [], "A.1.0.dsdl", S()), F(A, [], "7000.A.1.0.dsdl", S())], variants=[]))
            out.append(ns([F(A, [], "A.1.0.dsdl", S()), F(A, [], "6200.A.1.0.dsdl", S(["prim", 8]))], variants=[]))
            out.append(ns([F(A, [], "A.1.0.dsdl", S()), F(A, [], "A.1.0.uavcan", S())], variants=[]))
            out.append(ns([F(A, [], "A.1.0.dsdl", S()), F(A, [], "A.1.0.uavcan", S(["prim", 8]))], variants=[]))
            # directories
            out.append(ns([F(A, [], "A.1.0.dsdl", S())], lookups=[["w0", "alpha", "x"]]))
            out.append(ns([F(A, [], "A.1.0.dsdl", S()), F(["w1", "Alpha"], [], "A.1.0.dsdl", S())], lookups=[["w1", "Alpha"]], allow_collision=False))
            out.append(ns([F(A, [], "A.1.0.dsdl", S()), F(["w1", "Alpha"], [], "A.1.0.dsdl", S())], lookups=[["w1", "Alpha"]], allow_collision=True))
            # a namesake nested inside a directory (1-3 levels down, either role, both positions of the collision switch): always rejected
            for inner in (A + ["alpha"], A + ["x", "alpha"], A + ["x", "y", "Alpha"]):
                for allow in (True, False):
                    g = [F(A, [], "A.1.0.dsdl", S()), F(A, inner[2:], "B.1.0.dsdl", S())]
                    out.append(ns(g, root=A, lookups=[inner], allow_collision=allow, variants=["link", "reorder"]))
                    out.append(ns(g, root=B, lookups=[inner, A], allow_collision=allow, variants=["dup"]))
                    out.append(ns([F(inner, [], "B.1.0.dsdl", S())], root=inner, lookups=[A], allow_collision=allow, variants=["rel"]))
                out.append(fl([F(A, [], "A.1.0.dsdl", S()), F(A, inner[2:], "B.1.0.dsdl", S())], [0], [A], [inner], variants=("dup", "slash")))
            # ... and the same names side by side: accepted iff collisions are allowed
            out.append(ns([F(A, [], "A.1.0.dsdl", S())], lookups=[["w1", "x", "alpha"]], allow_collision=True, variants=["link"]))
            out.append(ns([F(A, [], "A.1.0.dsdl", S())], lookups=[["w1", "x", "alpha"]], allow_collision=False, variants=["link"]))
            # a root namespace name that is also the name of a namespace nested in another root: bare names in both orders
            g = [F(A, ["beta"], "P.1.0.dsdl", S(["ref", "alpha.St", 1, 0])), F(A, [], "St.1.0.dsdl", S()), F(B, [], "T.1.0.dsdl", S())]
            out.append(fl(g, [0, 2], [A, B], variants=("names",)))
            out.append(fl(g, [0, 2], [B, A], variants=("names",)))
            out.append(fl(g, [0], [B, A], variants=("names", "linkfiles")))
            # version numbers of 1-3 digits: newest first is about the numbers
            out.append(ns([F(A, [], "V.1.9.dsdl", S()), F(A, [], "V.1.10.dsdl", S()), F(A, [], "V.1.100.dsdl", S()), F(A, [], "V.10.0.dsdl", S()), F(A, [], "V.9.0.dsdl", S()), F(A, [], "V.100.1.dsdl", S())]))
            # look-alike siblings: as strings they sort between a directory and what lies inside it; as paths they are unrelated
            V = ["w0", "vendor"]
            for tail in ("-ext", "+legacy", ".old", " copy", "_v2"):
                sib = ["w0", "vendor" + tail]
                out.append(ns([F(V, [], "A.1.0.dsdl", S()), F(V, ["sub"], "B.1.0.dsdl", S())], root=V, lookups=[V + ["sub"], sib], variants=["reorder", "dup", "link"]))
                out.append(ns([F(V, [], "A.1.0.dsdl", S()), F(V, ["sub"], "B.1.0.dsdl", S())], root=V, lookups=[sib, ["w0", "other", "sub"]], variants=["reorder", "rel"], allow_collision=False))
                out.append(fl([F(V + ["sub", "deep"], [], "C.1.0.dsdl", S())], [0], [V + ["sub", "deep"], sib], [V], variants=("dup", "slash")))
        if prop == "C11":
            E = lambda n: mk_text([], ["extent", n])  # noqa: E731
            Sv2 = mk_text([], ["sealed"], {"stmts": [], "mode": ["sealed"]})
            out.append(ns([F(A, [], "6200.A.1.0.dsdl", S()), F(A, [], "6200.B.1.0.dsdl", S())]))
            out.append(ns([F(A, [], "6200.A.1.0.dsdl", S()), F(A, [], "6200.A.2.0.dsdl", S())]))
            out.append(ns([F(A, [], "6200.A.0.1.dsdl", S()), F(A, [], "6200.A.2.0.dsdl", S())]))
            out.append(ns([F(A, [], "6200.A.1.0.dsdl", S()), F(A, [], "A.1.1.dsdl", S())]))
            out.append(ns([F(A, [], "A.1.0.dsdl", S()), F(A, [], "6200.A.1.1.dsdl", S())]))
            out.append(ns([F(A, [], "6200.A.1.0.dsdl", S()), F(A, [], "6201.A.1.1.dsdl", S())]))
            out.append(ns([F(A, [], "A.1.0.dsdl", E(64)), F(A, [], "A.1.1.dsdl", E(128))]))
            out.append(ns([F(A, [], "A.0.1.dsdl", E(64)), F(A, [], "A.0.2.dsdl", S())]))
            out.append(ns([F(A, [], "A.1.0.dsdl", E(64)), F(A, [], "A.1.1.dsdl", mk_text([["prim", 64]], ["sealed"]))]))
            out.append(ns([F(A, [], "A.1.0.dsdl", S()), F(A, [], "A.1.1.dsdl", mk_text([], ["sealed"], {"stmts": [], "mode": ["sealed"]}))]))
            out.append(ns([F(A, [], "300.A.1.0.dsdl", mk_text([], ["sealed"], {"stmts": [], "mode": ["extent", 64]})),
                           F(A, [], "300.A.1.1.dsdl", mk_text([], ["sealed"], {"stmts": [], "mode": ["extent", 128]}))]))
            out.append(ns([F(A, [], "300.A.1.0.dsdl", mk_text([], ["sealed"], {"stmts": [], "mode": ["sealed"]})), F(A, [], "6200.B.1.0.dsdl", S()),
                           F(A, [], "300.C.1.0.dsdl", mk_text([], ["sealed"], {"stmts": [], "mode": ["sealed"]}))]))
            # minor versions of 1-3 digits: "older" / "newer" is about the numbers, a port-ID may be added but never removed
            for lo, hi in ((9, 10), (2, 10), (99, 100), (3, 255), (10, 11), (1, 2)):
                for ma in (1, 0, 10):
                    out.append(ns([F(A, [], "A.%d.%d.dsdl" % (ma, lo), S()), F(A, [], "6200.A.%d.%d.dsdl" % (ma, hi), S())], variants=[]))
                    out.append(ns([F(A, [], "6200.A.%d.%d.dsdl" % (ma, lo), S()), F(A, [], "A.%d.%d.dsdl" % (ma, hi), S())], variants=[]))
                out.append(ns([F(A, [], "300.A.1.%d.dsdl" % lo, Sv2), F(A, [], "A.1.%d.dsdl" % hi, Sv2)], variants=[]))
                out.append(ns([F(A, [], "A.1.%d.dsdl" % lo, Sv2), F(A, [], "300.A.1.%d.dsdl" % hi, Sv2)], variants=[]))
            # violation among the lookup definitions that are pulled in
            out.append(ns([F(A, [], "U.1.0.dsdl", S(["ref", "beta.A", 1, 0], ["ref", "beta.A", 1, 1])), F(B, [], "A.1.0.dsdl", E(64)), F(B, [], "A.1.1.dsdl", E(72))], lookups=[B]))
            out.append(ns([F(A, [], "U.1.0.dsdl", S(["ref", "beta.A", 1, 0])), F(B, [], "A.1.0.dsdl", E(64)), F(B, [], "A.1.1.dsdl", E(72))], lookups=[B]))
        if prop == "C15":
            out.append(fl([F(A, ["x", "y"], "6200.Deep.3.4.dsdl", S()), F(B, [], "T.1.0.uavcan", S(["ref", "alpha.x.y.Deep", 3, 4]))], [1, 0], [A, B]))
            out.append(fl([F(["w0", "gods"], ["norse"], "Odin.1.0.dsdl", S(["ref", "familiars.norse.Huginn", 1, 0])), F(["w1", "familiars"], ["norse"], "Huginn.1.0.dsdl", S())],
                          [0], [["w0", "gods"]], [["w1", "familiars"]]))
            out.append(fl([F(A, ["alpha"], "A.1.0.dsdl", S()), F(["w1", "alpha"], ["alpha"], "B.1.0.dsdl", S())], [1], [A, ["w1", "alpha"]]))
            # two trees of one root namespace name with a file at the same relative path: a relative target that exists in the
            # working directory designates that file, whichever tree is listed first
            W, N = ["w0", "vnd"], ["w1", "vnd"]
            g = [F(W, ["nav"], "6200.Fix.1.0.dsdl", S(["prim", 16])), F(N, ["nav"], "6200.Fix.1.0.dsdl", S(["prim", 8]))]
            for roots in ([N, W], [W, N]):
                c = fl(g, [0], roots, variants=("dup", "linkroots"))
                for cwd in (["w0"], ["w1"], [], W):
                    c["variants"].append({"mix": 1, "cwd": cwd, "targets": {"form": "list", "items": [[0, "rel", "str"]]},
                                          "roots": {"form": "list", "items": [[r, "abs", "str"] for r in roots]}, "lookups": {"form": "none", "items": []}})
                out.append(c)
            for fn in LENIENT:
                out.append(ns([F(A, [], fn, S())], variants=[]))
            for fn in MALFORMED:
                out.append(ns([F(A, [], fn, S()), F(A, [], "Z.1.0.dsdl", S())], variants=[]))
            # doubled / mixed / foreign extensions (small scope, exhaustive), through read_namespace and as a target of read_files;
            # extension words as short names are ordinary names
            for k, fn in enumerate(ext_combo_universe()):
                if is_def_file(fn) and k % 2:
                    out.append(fl([F(A, ["sub"], fn, S()), F(A, [], "Z.1.0.dsdl", S())], [0], [A], variants=("names", "relcwd", "relnoroots")))
                else:
                    out.append(ns([F(A, ["sub"], fn, S()), F(A, [], "Z.1.0.dsdl", S())], variants=[]))
            out.append(ns([F(A, [], "dsdl.1.0.uavcan", S()), F(A, [], "6200.uavcan.1.0.dsdl", S()), F(A, ["x", "uavcan_dsdl"], "Uavcan.1.0.dsdl", S()), F(A, [], "Dsdl.2.0.uavcan", S(["ref", "alpha.dsdl", 1, 0]))], variants=["rel"]))
            out.append(ns([F(A, ["bad.dir"], "A.1.0.dsdl", S())], variants=[]))
            out.append(ns([F(["w0", "al.pha"], [], "A.1.0.dsdl", S())], root=["w0", "al.pha"], variants=[]))
            # both ends of the port-ID ranges, with and without the flag that admits unregulated port-IDs
            Sv = mk_text([], ["sealed"], {"stmts": [], "mode": ["sealed"]})
            for unreg in (True, False):
                out.append(ns([F(A, [], "0.Zero.1.0.dsdl", S()), F(A, [], "8191.Top.1.0.dsdl", S()), F(A, ["x"], "0.ZeroSvc.1.0.dsdl", Sv),
                               F(A, ["x"], "511.TopSvc.2.7.dsdl", Sv), F(A, [], "Plain.1.0.dsdl", S())], allow_unreg=unreg, variants=["rel"]))
            out.append(fl([F(A, [], "0.Zero.1.0.dsdl", S()), F(A, ["x"], "1.One.0.1.dsdl", S())], [0, 1], [A]))
            out[-1]["call"]["allow_unreg"] = True
            # one tree, several calls in one process, each designating another directory as the root namespace
            AX = A + ["x"]
            inner = ns([F(AX, [], "6200.Leaf.1.2.dsdl", S()), F(AX, ["y"], "Deep.0.3.dsdl", S()), F(A, [], "Top.1.0.dsdl", S())], root=AX, variants=["rel"])
            inner["history"] = [{"call": {"fn": "ns", "root": A, "lookups": [], "allow_collision": True, "allow_unreg": False}, "variant": "base"}]
            out.append(inner)
            outer = fl([F(A, ["x"], "6200.Leaf.1.2.dsdl", S()), F(A, ["x", "y"], "Deep.0.3.dsdl", S()), F(A, [], "Top.1.0.dsdl", S())], [0, 2], [A], variants=("names", "relcwd"))
            outer["history"] = [{"call": {"fn": "ns", "root": A, "lookups": [], "allow_collision": True, "allow_unreg": False}, "variant": "link"},
                                {"call": {"fn": "files", "targets": [0, 1], "roots": [AX], "lookups": [], "allow_unreg": False}, "variant": "names"},
                                {"call": {"fn": "ns", "root": ["w0"], "lookups": [], "allow_collision": True, "allow_unreg": True}, "variant": "base"}]
            out.append(outer)
        if prop == "C19":
            base = ns([F(A, [], "A.1.0.dsdl", S(["ref", "beta.D", 1, 0], ["print", 1])), F(B, [], "D.1.0.dsdl", S()), F(B, [], "6200.E.1.0.dsdl", S()), F(B, [], "E.1.1.dsdl", S())], lookups=[B])
            base["variants"] = []
            for new in [F(B, [], "6200.E.1.0.dsdl", mk_text([], ["sealed"], g=True)), F(B, [], "6200.E.1.0.dsdl", S(["bad", 0])), F(B, [], "6200.E.1.0.dsdl", S(["print", 9])),
                        F(B, [], "6201.E.1.0.dsdl", S()), F(B, [], "E.1.0.dsdl", mk_text([], ["extent", 64])), F(B, [], "D.1.0.uavcan", S())]:
                c = json.loads(json.dumps(base))
                c["perturb"] = {"idx": 2, "file": new}
                out.append(c)
            # every state of badness of a text, the unloadable ones included
            U = lambda k: {"g": True, "gk": 0, "u": k, "secs": [{"stmts": [], "mode": ["sealed"]}]}  # noqa: E731
            bad = [mk_text([], ["sealed"], g=True), U(1), U(2), U(3), S(["bad", 0]), S(["bad", 2]), S(["print", 9]), mk_text([], ["none"]), S(["ref", "nowhere.Missing", 1, 0]),
                   mk_text([], ["sealed"], {"stmts": [], "mode": ["sealed"]})]
            # a definition whose name differs from a written reference by letter case only: the reference is an error because of
            # the file NAME; the text of that file is outside the closure (lookup directory / the target's own root, absolute / relative)
            for t in bad:
                c = ns([F(A, [], "User.1.0.dsdl", S(["ref", "beta.widget", 1, 0])), F(B, [], "Widget.1.0.dsdl", S(["prim", 8])), F(B, [], "Zed.1.0.dsdl", S())], lookups=[B], variants=[])
                c["perturb"] = {"idx": 1, "file": F(B, [], "Widget.1.0.dsdl", t)}
                out.append(c)
                c = fl([F(A, ["x"], "User.1.0.dsdl", S(["ref", "helper", 1, 0])), F(A, ["x"], "Helper.1.0.dsdl", S(["prim", 8]))], [0], [A], variants=())
                c["perturb"] = {"idx": 1, "file": F(A, ["x"], "Helper.1.0.dsdl", t)}
                out.append(c)
                c = fl([F(A, [], "User.1.0.dsdl", S(["ref", "ALPHA.x.Helper", 1, 0])), F(["w1", "ALPHA"], ["X"], "Helper.1.0.dsdl", S(["prim", 8]))], [0], [A], [["w1", "ALPHA"]], variants=())
                c["perturb"] = {"idx": 1, "file": F(["w1", "ALPHA"], ["X"], "Helper.1.0.dsdl", t)}
                out.append(c)
            # version numbers beyond 255 in the NAME of a file nobody refers to, equal to a referenced version under a lossy encoding
            # of the pair, the referenced version present / absent; and every SIZE of an unreferenced file (lookup directory, the
            # target's own root namespace)
            BIG = lambda n: {"g": True, "gk": 0, "big": n, "secs": [{"stmts": [], "mode": ["sealed"]}]}  # noqa: E731
            for present in (True, False):
                for k, v in enumerate([(0, 256), (1, 256), (0, 512), (257, 0), (1, 65536), (0, 2**32 + 256), (0, 511)]):
                    for t in (bad[0], bad[4], S(["prim", 64], ["print", 9])):
                        fs = [F(A, [], "User.1.0.dsdl", S(["ref", "beta.Dep", 1, 0], ["prim", 8])), F(B, [], "Other.3.0.dsdl", S())]
                        if present:
                            fs.append(F(B, [], "Dep.1.0.dsdl", S(["prim", 16])))
                        c = ns(fs, lookups=[B], variants=[]) if k % 2 else fl(fs, [0], [A], [B], variants=())
                        c["perturb"] = {"idx": 1, "file": F(B, [], fname_of("Dep", *v), t)}
                        out.append(c)
            for n in (0, 1, 2**20 - 1, 2**20, 2**20 + 1, 3 * 2**20 + 5):
                fs = [F(A, [], "User.1.0.dsdl", S(["ref", "beta.Dep", 1, 0], ["prim", 8])), F(B, [], "Dep.1.0.dsdl", S(["prim", 16])), F(B, ["x"], "Bystander.1.0.dsdl", S()),
                      F(A, [], "Sibling.1.0.dsdl", S())]
                for c, i in ((ns(fs, lookups=[B], variants=[]), 2), (fl(fs, [0], [A], [B], variants=()), 2), (fl(fs, [0], [A, B], variants=()), 3)):
                    c["perturb"] = {"idx": i, "file": dict(fs[i], text=BIG(n))}
                    out.append(c)
            # a NAMESAKE of a target that nobody refers to (a port-ID added, the other extension, a second directory of the same
            # root namespace name), a sibling version, the same port-ID - in every state of badness
            W1 = ["w1", "alpha"]
            for t in bad + [S(["prim", 8])]:
                for new in (F(A, [], "6300.Report.1.0.dsdl", t), F(A, [], "Report.1.0.uavcan", t), F(W1, [], "Report.1.0.dsdl", t), F(A, [], "Report.1.1.dsdl", t),
                            F(A, [], "Report.1.10.dsdl", t), F(W1, ["x"], "6200.Other.2.0.dsdl", t)):
                    c = fl([F(A, [], "6200.Report.1.0.dsdl" if new["fname"].startswith("Report.1.1") or "Other" in new["fname"] else "Report.1.0.dsdl", S(["prim", 16])),
                            F(W1, ["x"], "Other.2.0.dsdl", S())], [0], [A, W1], variants=())
                    c["perturb"] = {"idx": 1, "file": new}
                    out.append(c)
                c = ns([F(A, [], "Report.1.0.dsdl", S(["prim", 16])), F(W1, ["x"], "Other.2.0.dsdl", S())], lookups=[W1], variants=[])
                c["perturb"] = {"idx": 1, "file": F(W1, [], "7000.Report.1.0.dsdl", t)}
                c["call"]["allow_unreg"] = True
                out.append(c)
        return out

    # ------------------------------------------------------------------ both sides
    def run_impl(self, case):
        tmp = None
        try:
            tmp = Path(tempfile.mkdtemp(prefix="vns")).resolve()
            build_tree(tmp, case)
            return run_on_tree(tmp, case)
        except Exception as ex:  # noqa
            import traceback
            return {"out": {"res": "harness-error:" + type(ex).__name__, "prints": []}, "inv": [], "nest": [], "soft_msg": traceback.format_exc()[-600:]}
        finally:
            if tmp is not None:
                shutil.rmtree(tmp, ignore_errors=True)

    def model_case(self, case):
        c = {"id": case["id"], "files": [without_mentions(f) for f in case["files"]], "call": case["call"]}
        if case.get("perturb"):
            c["perturb"] = {"idx": case["perturb"]["idx"], "file": without_mentions(case["perturb"]["file"])}
        return c

    @staticmethod
    def project(o, prop):
        if o is None:
            return None
        if o.get("res") != "ok":
            p = {"res": o.get("res")}
            if prop in ("C19", "C09"):
                p["prints"] = o.get("prints")
            return p
        types = o["direct"] + (o["transitive"] or [])
        if prop == "C09":
            return {"res": "ok", "types": sorted([tkey(t), t["refs"]] for t in types), "prints": o["prints"]}
        if prop == "C10":
            return {"res": "ok", "direct": [tkey(t) for t in o["direct"]], "transitive": None if o["transitive"] is None else [tkey(t) for t in o["transitive"]]}
        if prop == "C11":
            return {"res": "ok", "types": sorted([tkey(t), t["k"], t["pid"], t["sealed"], t["extent"]] for t in types)}
        if prop == "C15":
            return {"res": "ok", "types": sorted([tkey(t), t["pid"], t["path"], t["root"]] for t in types)}
        return o

    def compare(self, case, impl, model, prop):
        if "err" in model:
            return "model driver error: %s" % model["err"]
        if "out" not in impl:
            return None
        allf = list(case["files"]) + ([case["perturb"]["file"]] if case.get("perturb") else [])
        # (names that only int() would take - former finding F10, repaired by a482d00 - are compared like every other name)
        for k in ("out", "out2"):
            if k in model or k in impl:
                mo, io = model.get(k), impl.get(k)
                if mo is not None and mo.get("res") == "dupkey":
                    continue
                a, b = self.project(io, prop), self.project(mo, prop)
                if a is not None and b is not None and b.get("res") == "internal" and a.get("res") in ("internal", "invalid") \
                        and (mo.get("soft_cls") == "serviceField" or a.get("res") == "internal"):
                    continue  # a service type used as a field (finding F11, not of this group; since /repo 1557772 the library rejects
                    #           it with InvalidTypeError, the model still answers Err.serviceField): the oracle leaves it unjudged too
                if a != b:
                    return "%s: impl=%s model=%s" % (k, _s(a, 500), _s(b, 500))
        return None

    # ------------------------------------------------------------------ oracle
    def oracle(self, case, impl, prop):
        if "out" not in impl:
            return "%s/no-outcome: the call did not come back (%s)" % (prop, ",".join(sorted(impl)))
        # every call of the sequence is judged as if it were the only one ever made (what a fresh process would give)
        hist = impl.get("hist") or []
        for k, h in enumerate(hist[: len(case.get("history", []))]):
            sc = step_case(case, k)
            d = self.oracle_one(sc, h, prop)
            if d is not None:
                head, _, tail = d.partition(":")
                return "%s:%s [call %d of %d made in one process on the same tree: %s]" % (head, tail, k + 1, len(hist) + 1, _s(sc["call"], 240))
        if prop in ("C09", "C10", "C15"):
            # what a child interpreter returned under a given PYTHONHASHSEED is a result like any other (and, unlike the result of
            # this process, the same in every run: a replay reproduces it)
            for hs, o in impl.get("soft_under_seed") or []:
                d = self.oracle_one(case, {"out": o, "inv": [], "nest": []}, prop)
                if d is not None:
                    head, _, tail = d.partition(":")
                    if not head.startswith(prop + "/"):
                        return d    # (a recorded finding keeps its signature)
                    return "%s/under-a-given-hash-seed:%s [in a child interpreter with PYTHONHASHSEED=%s]" % (head, tail, hs)
        d = self.oracle_one(case, impl, prop)
        if d is not None and hist:
            d += " [last of %d calls made in one process on the same tree]" % (len(hist) + 1)
        return d

    def oracle_one(self, case, impl, prop):
        out = impl["out"]
        if out["res"].startswith("harness-error"):
            return None
        files, call = case["files"], case["call"]
        exp = spec_eval(files, call)
        res = out["res"]
        cls = impl.get("soft_cls")
        if prop == "C19":
            return self.oracle_c19(case, impl, exp)
        if prop == "C15" and res == "ok":
            d = identity_problem(files, call, out)
            if d is not None:
                return d
        if exp["res"] == "unspecified":
            return None
        reason = exp["reason"]
        if impl.get("inv") and prop in ("C09", "C10", "C15") and reason != "dupkey":
            return "%s/outcome-depends-on-spelling-order-or-seed: %s" % (prop, impl["inv"][0])
        fname_excuse = exp["lookup_malformed"] and res == "invalid" and cls == "FileNameFormatError"
        if reason == "dupkey":
            if prop == "C09" and exp.get("dup_bad_ref") and res != "invalid":
                return "C09/bad-reference-not-rejected: outcome %s" % _s(out)
            if prop != "C10" or res == "invalid":
                return None
            if res == "ok":
                return "ns/F9/dup-key-merged: %d files with %d distinct (name, version): returned %s" % (len(exp["targets"]), len(set(SDef(i, files[i]).key for i in exp["targets"])), [tkey(t) for t in out["direct"]])
            if res == "foreign:AssertionError":
                return "ns/F9/dup-key-assertion: two target files with the same name and version: bare AssertionError"
            return "ns/F9/dup-key-other: %s" % res
        if reason == "filename":
            if prop != "C15" or res == "invalid":
                return None
            bad = [files[i]["fname"] for i in exp["targets"] if not SDef(i, files[i]).wellformed]
            if all(lenient_only(b) for b in bad) and res == "ok":
                return "ns/F10/int-leniency: file name(s) %s accepted as %s" % (bad, [tkey(t) for t in out["direct"]])
            return "C15/malformed-name-not-rejected: %s -> %s" % (bad, res)
        if reason == "dirs":
            if prop == "C10" and res != "invalid":
                return "C10/directories-not-rejected: %s -> %s" % (_s(call), res)
            return None
        if reason == "refs":
            if prop == "C09" and res != "invalid":
                return "C09/bad-reference-not-rejected: outcome %s" % _s(out)
            return None
        if reason == "c11":
            if prop == "C11" and res != "invalid":
                return "C11/violating-set-accepted: %s; outcome %s" % (exp.get("why"), res)
            return None
        if reason == "local":
            return None
        # everything is in order: the call must succeed with exactly the expected types
        assert exp["res"] == "ok"
        if res != "ok":
            if fname_excuse:
                return None
            if prop == "C10" and cls in DIR_ERRORS:
                return "C10/directories-rejected: %s -> %s" % (_s(call), cls)
            if prop == "C09" and cls in REF_ERRORS:
                return "C09/good-reference-rejected: %s at %s" % (cls, impl.get("soft_path"))
            if prop == "C11" and cls in C11_ERRORS:
                return "C11/conforming-set-rejected: %s at %s" % (cls, impl.get("soft_path"))
            if prop == "C15" and cls in NAME_ERRORS:
                return "C15/wellformed-path-rejected: %s at %s" % (cls, impl.get("soft_path"))
            return "%s/valid-input-rejected: %s %s %s" % (prop, res, cls, impl.get("soft_msg") or impl.get("soft_path"))
        e_direct, e_trans = exp["direct"], exp["transitive"]
        got = out["direct"] + (out["transitive"] or [])
        want = e_direct + (e_trans if out["transitive"] is not None else [])
        if prop == "C10":
            if [tkey(t) for t in out["direct"]] != [tkey(t) for t in e_direct]:
                return "C10/direct-wrong: got %s want %s" % ([tkey(t) for t in out["direct"]], [tkey(t) for t in e_direct])
            if out["transitive"] is not None and [tkey(t) for t in out["transitive"]] != [tkey(t) for t in e_trans]:
                return "C10/transitive-wrong: got %s want %s" % ([tkey(t) for t in out["transitive"]], [tkey(t) for t in e_trans])
            return None
        gm = {tkey(t): t for t in got}
        wm = {tkey(t): t for t in want}
        if prop == "C09":
            if impl.get("nest"):
                return "C09/nested-type-differs-from-standalone: %s" % impl["nest"][:3]
            for k, w in wm.items():
                g = gm.get(k)
                if g is None:
                    return "C09/closure-incomplete: %s missing" % k
                if g["refs"] != w["refs"]:
                    return "C09/reference-resolved-to-other-definition: %s has %s, references are %s" % (k, g["refs"], w["refs"])
            return None
        if prop == "C11":
            return None
        if prop == "C15":
            for k, w in wm.items():
                g = gm.get(k)
                if g is None:
                    return "C15/identity-wrong: no type %s; got %s" % (k, sorted(gm))
                for a in ("n", "v", "pid", "path", "root"):
                    if g[a] != w[a]:
                        return "C15/identity-wrong: %s of %s is %r, the path says %r" % (a, k, g[a], w[a])
            if len(gm) != len(wm):
                return "C15/identity-wrong: got %s want %s" % (sorted(gm), sorted(wm))
            return None
        return None

    def oracle_c19(self, case, impl, exp):
        p = case.get("perturb")
        if not p or "out2" not in impl:
            return None
        files2 = list(case["files"])
        files2[p["idx"]] = p["file"]
        exp2 = spec_eval(files2, case["call"])
        i = p["idx"]
        if i in exp["closure"] or i in exp2["closure"] or i in exp["targets"] or i in exp2["targets"]:
            return None
        if (i in exp["near"] or i in exp2["near"]) and file_rel(case["files"][i]) != file_rel(p["file"]):
            return None  # the NAME of a definition that a reference misses by letter case only is what makes the reference an error
        call = case["call"]
        if call["fn"] == "ns" and (case["files"][i]["dir"] == call["root"] or p["file"]["dir"] == call["root"]):
            return None
        if exp["lookup_malformed"]:
            return None
        a, b = impl["out"], impl["out2"]
        if exp2["lookup_malformed"] and b["res"] == "invalid" and impl.get("soft_cls2") == "FileNameFormatError":
            return None
        if a != b:
            return "C19/outside-definition-changed-outcome: file %s -> %s%s: before %s after %s" % (file_rel(case["files"][i]), file_rel(p["file"]), "" if p["file"]["text"].get("big") is None else " (%d bytes of garbage)" % p["file"]["text"]["big"], _s(a), _s(b))
        if a["res"] != "ok" and (impl.get("soft_cls"), impl.get("soft_path")) != (impl.get("soft_cls2"), impl.get("soft_path2")):
            return "C19/outside-definition-changed-error: before %s at %s, after %s at %s" % (impl.get("soft_cls"), impl.get("soft_path"), impl.get("soft_cls2"), impl.get("soft_path2"))
        return None

    def signature(self, case, desc, prop):
        return desc.split(":")[0][:80]

    # ------------------------------------------------------------------ shrinking, features
    def shrink(self, case):
        files = case["files"]
        call = case["call"]
        if case.get("variants"):
            for k in range(len(case["variants"])):
                c = dict(case)
                c["variants"] = case["variants"][:k] + case["variants"][k + 1:]
                yield c
        if case.get("hashseeds") and not case.get("hashseeds_essential"):
            c = dict(case)
            c.pop("hashseeds")
            yield c
        elif len(case.get("hashseeds") or []) > 1:
            # the runs under given hash seeds are what the case is about (ties of a sort key): down to ONE seed, never to none -
            # whether THIS process shows the failure is a matter of its own, random, hash seed, and a replay could not repeat it
            for hs in case["hashseeds"]:
                c = dict(case)
                c["hashseeds"] = [hs]
                yield c
        for k, v in enumerate(case.get("variants") or []):
            if not isinstance(v, dict):
                continue
            for m in shrink_mix(v):
                c = dict(case)
                c["variants"] = case["variants"][:k] + [m] + case["variants"][k + 1:]
                yield c
        for k in range(len(case.get("history", []))):
            c = json.loads(json.dumps(case))
            c["history"].pop(k)
            if not c["history"]:
                c.pop("history")
            yield c
        for k, h in enumerate(case.get("history", [])):
            if h.get("variant", "base") != "base":
                c = json.loads(json.dumps(case))
                c["history"][k]["variant"] = "base"
                yield c
        for k in range(len(files)):
            if case.get("perturb") and case["perturb"]["idx"] == k:
                continue
            if call["fn"] == "files" and k in call["targets"] and len(call["targets"]) == 1:
                continue
            if any(h["call"]["fn"] == "files" and h["call"]["targets"] == [k] for h in case.get("history", [])):
                continue
            c = json.loads(json.dumps(case))
            c["files"].pop(k)
            for cc in [c["call"]] + [h["call"] for h in c.get("history", [])]:
                if cc["fn"] == "files":
                    cc["targets"] = [t - (1 if t > k else 0) for t in cc["targets"] if t != k]
            for m in list(c.get("variants", [])) + [h.get("variant") for h in c.get("history", [])]:
                if isinstance(m, dict) and "targets" in m:
                    m["targets"]["items"] = [[i[0] - (1 if i[0] > k else 0), i[1], i[2]] for i in m["targets"]["items"] if i[0] != k]
            if c.get("perturb") and c["perturb"]["idx"] > k:
                c["perturb"]["idx"] -= 1
            yield c
        for key in ("lookups", "roots"):
            for k in range(len(call.get(key, []))):
                if key == "roots" and any(files[t]["dir"] == call["roots"][k] for t in call["targets"]):
                    continue  # the designation of a target's own root is part of a well-formed call
                c = json.loads(json.dumps(case))
                c["call"][key].pop(k)
                yield c
        for k, f in enumerate(files):
            for si, sec in enumerate(f["text"]["secs"]):
                for j in range(len(sec["stmts"])):
                    c = json.loads(json.dumps(case))
                    c["files"][k]["text"]["secs"][si]["stmts"].pop(j)
                    yield c

    def features(self, case, impl):
        call = case["call"]
        yield "fn:" + call["fn"]
        out = impl.get("out") or {}
        yield "res:" + str(out.get("res"))
        if impl.get("soft_cls"):
            yield "err:" + str(impl["soft_cls"])
        yield "files:%d" % min(len(case["files"]), 12)
        nrefs = 0
        for f in case["files"]:
            if f["text"].get("g"):
                yield "text:garbage"
            if len(f["text"]["secs"]) == 2:
                yield "kind:service"
            for sec in f["text"]["secs"]:
                if sec["mode"][0] != "sealed":
                    yield "mode:" + sec["mode"][0]
                for st in sec["stmts"]:
                    if st[0] == "ref":
                        nrefs += 1
                        yield "ref:" + ("absolute" if "." in st[1] else "relative")
                    elif st[0] == "bad":
                        yield "stmt:bad"
            if f["fname"].endswith(".uavcan"):
                yield "ext:uavcan"
            nexts = 0
            rest = f["fname"]
            while True:
                e = next((e for e in KNOWN_EXTS + FOREIGN_EXTS if rest.endswith(e)), None)
                if e is None:
                    break
                nexts, rest = nexts + 1, rest[: -len(e)]
            if nexts >= 2:
                known = [e for e in KNOWN_EXTS if e in f["fname"]]
                yield "name:%d-extensions:%s" % (min(nexts, 3), "definition-file" if is_def_file(f["fname"]) else "not-a-definition-file")
                if len(known) == 2:
                    yield "name:both-known-extensions:" + ("legacy-first" if f["fname"].endswith(".dsdl") else "legacy-last")
            if is_def_file(f["fname"]) and parse_strict(f["fname"]) is None:
                yield "name:malformed"
            elif is_def_file(f["fname"]) and parse_strict(f["fname"])[0] is not None:
                yield "name:port-id"
        yield "refs:%d" % min(nrefs, 10)
        if out.get("res") == "ok":
            yield "direct:%d" % min(len(out["direct"]), 10)
            if out.get("transitive"):
                yield "transitive:nonempty"
            if any(t["refs"] for t in out["direct"]):
                yield "nested:yes"
        dirs = []
        for d in call_dirs(call):
            if d not in dirs:
                dirs.append(d)
        nested = [(a, b) for a in dirs for b in dirs if len(b) > len(a) and b[: len(a)] == a]
        if nested:
            yield "dirs:nested-pair"
        for a, b in nested:
            if a[-1].lower() == b[-1].lower():
                yield "dirs:nested-namesake-pair:%d-level%s-down" % (min(len(b) - len(a), 3), "" if len(b) - len(a) == 1 else "s")
                yield "dirs:nested-namesake-pair:" + ("same-spelling" if a[-1] == b[-1] else "other-letter-case")
                yield "dirs:nested-namesake-pair:collisions-" + ("allowed" if call.get("allow_collision", True) else "disallowed")
                yield "dirs:nested-namesake-pair:" + ("root+lookup" if call["fn"] == "ns" and list(call["root"]) in (a, b) else "lookup+lookup" if call["fn"] == "ns" else "read_files")
        if any(a != b and a[-1].lower() == b[-1].lower() and not prefix_related(a, b) for a in dirs for b in dirs):
            yield "dirs:unrelated-namesakes:collisions-" + ("allowed" if call.get("allow_collision", True) else "disallowed")
        look = [(a, b) for a in dirs for b in dirs if a != b and a[:-1] == b[:-1] and b[-1].startswith(a[-1])]
        for a, b in look:
            yield "dirs:sibling-name-extends-name:" + ("below-slash" if b[-1][len(a[-1])] < "/" else "above-slash")
        if any(x == a and y[-1][len(a[-1])] < "/" for a, _ in nested for x, y in look):
            yield "dirs:ancestor+descendant+sibling-sorting-between"
        if any(not COMP_RE.match(d[-1]) for d in dirs):
            yield "dirs:name-with-punctuation"
        yield "dirs:%d" % min(len(dirs), 8)
        if case.get("history"):
            yield "history:%d" % len(case["history"])
            here = call_dirs(call)
            for h, ho in zip(case["history"], impl.get("hist") or []):
                there = call_dirs(h["call"])
                if any(len(a) > len(b) and a[: len(b)] == b for a in there for b in here):
                    yield "history:inner-directory-as-root-earlier"
                if any(len(a) > len(b) and a[: len(b)] == b for a in here for b in there):
                    yield "history:outer-directory-as-root-earlier"
                if sorted(there) == sorted(here):
                    yield "history:same-directories"
                yield "history-fn:%s->%s" % (h["call"]["fn"], call["fn"])
                yield "history-res:" + str((ho.get("out") or {}).get("res"))
                if h.get("variant", "base") != "base":
                    yield "history-spelling:" + (h["variant"] if isinstance(h["variant"], str) else "mix")
        for f in case["files"]:
            p = parse_strict(f["fname"]) if is_def_file(f["fname"]) else None
            if p and p[0] is not None and p[0] in (0, 1, 511, 512, 8191, 8192):
                yield "port-id-boundary:%d" % p[0]
        if call.get("allow_unreg"):
            yield "allow-unregulated"
            if out.get("res") == "ok" and any(t["pid"] == 0 for t in out["direct"]):
                yield "result:port-id-0"
        for v in case.get("variants", []):
            if isinstance(v, dict):
                yield "spelling:mix"
                yield from mix_features(call, v)
            else:
                yield "spelling:" + v
        if case.get("hashseeds"):
            yield "hashseed-subprocess"
        yield from twin_features(case)
        yield from samedir_twin_features(case)
        yield from rollover_features(case)
        yield from mention_features(case)
        yield from version_features(case)
        yield from outofrange_features(case)
        if call["fn"] == "files":
            rn = [r[-1] for r in call["roots"]]
            if any(c in rn for i in call["targets"] for c in case["files"][i]["sub"]):
                yield "files:root-name-is-also-a-namespace-nested-in-a-target's-root" + (":roots-by-bare-name" if "names" in case.get("variants", []) else "")
            if len(set(rn)) < len(rn):
                yield "files:several-roots-of-one-name"
                have = {file_rel(f) for f in case["files"]}
                for i in call["targets"]:
                    f = case["files"][i]
                    twin_roots = [r for r in call["roots"] if r != f["dir"] and r[-1] == f["dir"][-1] and "/".join(r + f["sub"] + [f["fname"]]) in have]
                    if twin_roots:
                        yield "files:target's-relative-path-also-exists-in-another-root-of-the-same-name"
                        for v in case.get("variants", []):
                            if isinstance(v, dict) and v.get("cwd") == f["dir"][:-1] and any(it[0] == i and it[1] == "rel" for it in v.get("targets", {}).get("items", [])):
                                yield "files:...and-the-target-is-spelled-relative-to-the-directory-above-its-root"
        if case.get("perturb"):
            yield "perturb:" + ("rename" if case["perturb"]["file"]["fname"] != case["files"][case["perturb"]["idx"]]["fname"] else "text")
            yield from perturb_features(case)
            if "out2" in impl and impl["out2"] == impl["out"]:
                yield "perturb:unchanged"

    def nontrivial(self, case, impl):
        return len(case["files"]) >= 2 or bool(case.get("variants"))


SUITE = NsSuite()
