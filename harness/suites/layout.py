"""
Suite `layout` (C02, C08, C14-layout, C16, C18-types): type trees built through the PUBLIC constructors of pydsdl
(and, for the in-language intrinsics, through DSDL text), queried for bit_length_set (min/max/residues/expansion),
alignment, extent, implicit prefix / tag / header widths, field and element offsets for several base offset sets,
and `_offset_` / `_bit_length_` / `_extent_`.

Type JSON:  ["prim", n, kind] | ["void", n] | ["farr", T, cap] | ["varr", T, cap] | ["struct", [T..]] |
            ["union", [T..]] | ["delim", T, extent]          (kind: bool|uint|int|float|byte|utf8, "sat"/"trunc" suffix)
Further case classes (same type JSON):
  * pool  - several definitions that SHARE sub-objects (["ref", i] = the object of definition i: the same Python object
            handed to several constructors, or one DSDL file referred to by several others), and a script of queries
            on the definitions and their members in varied orders (aggregate first / member first / random; numerical
            expansion as well as analytical queries; in constructor mode a definition is built at its first use, i.e.
            possibly on top of objects that were already queried).  Every answer must be the Specification's value
            of that type alone - whatever was built or asked before.
  * prog  - query ["prog", plan, resp, plan2, flags]: ONE definition (optionally a service with response `resp`) in
            which `_offset_` is evaluated several times: at the very start, before / after padding fields, constants,
            comments, regular fields, around `---`, repeatedly after the last variant of a union, twice in one
            expression; each evaluation must be the set of lengths of everything declared before that point.
  * img   - IMAGES of type objects: the type under query is not the freshly built object but its image under a chain of
            `pickle` round trips (every protocol), `copy.copy`, `copy.deepcopy` ("img": {"ops": [...], "warm": bool} - with
            `warm` the original is queried first, so that the image is taken of an object whose caches are filled); the
            original is queried again afterwards ("orig" of the outcome).  In pools ("img" of the pool) a definition is
            replaced by its image when it is built (constructor mode: later definitions are built ON TOP of images), the
            whole namespace model is imaged at once or type by type (DSDL mode), and script steps [[i], ["reimage", ops]]
            replace definition i by its image between two queries.  A layout observable is a function of the type: it is
            judged against the Specification on images exactly as on fresh objects.
Oracle: an independent Python rendering of the Specification's layout rules into the node lists of suites/bls.py,
evaluated with that suite's brute-force / sumset oracle.
"""
from __future__ import annotations

import copy
import json
import math
import pickle
import random
import shutil
import tempfile
import typing
from pathlib import Path

import common
from suites import bls as B

MOD_BUDGET = 4000
EXPAND_BUDGET = 2500

# ------------------------------------------------------------------------------- specification oracle


def smallest_std(x: int) -> typing.Optional[int]:
    """Smallest of 8/16/32/64 bits whose unsigned range holds x."""
    for w in (8, 16, 32, 64):
        if x <= 2**w - 1:
            return w
    return None


def s_align(t) -> int:
    k = t[0]
    if k in ("prim", "void"):
        return 1
    if k in ("farr", "varr"):
        return s_align(t[1])
    return 8  # composites are byte aligned (no type has a larger alignment)


def s_valid(t) -> bool:
    k = t[0]
    if k in ("prim", "void"):
        return 1 <= t[1] <= 64
    if k == "farr":
        return s_valid(t[1]) and t[2] >= 1
    if k == "varr":
        return s_valid(t[1]) and t[2] >= 1 and smallest_std(t[2]) is not None
    if k == "struct":
        return all(s_valid(f) for f in t[1])
    if k == "union":
        return all(s_valid(f) for f in t[1]) and len(t[1]) >= 2 and smallest_std(len(t[1]) - 1) is not None
    if k == "delim":
        inner = t[1]
        if inner[0] not in ("struct", "union") or not s_valid(inner):
            return False
        nodes: list = []
        i = s_nodes(inner, nodes)
        return t[2] % 8 == 0 and t[2] >= B.o_max(nodes, i)
    raise ValueError(k)


def s_nodes(t, nodes: list) -> int:
    """Append the Specification's bit length set expression of `t` to `nodes`; returns its index."""
    k = t[0]

    def add(n):
        nodes.append(n)
        return len(nodes) - 1

    if k in ("prim", "void"):
        return add(["leaf", [t[1]]])
    if k == "farr":
        return add(["rep", s_nodes(t[1], nodes), t[2]])
    if k == "varr":
        prefix = max(smallest_std(t[2]) or 128, s_align(t[1]))
        e = s_nodes(t[1], nodes)
        r = add(["rrep", e, t[2]])
        p = add(["leaf", [prefix]])
        return add(["cat", [p, r]])
    if k == "struct":
        cur = add(["leaf", [0]])
        for f in t[1]:
            cur = s_after_field(cur, f, nodes)
        return add(["pad", cur, 8])
    if k == "union":
        tag = max(smallest_std(len(t[1]) - 1) or 128, 8)
        vs = [s_nodes(f, nodes) for f in t[1]]
        u = add(["uni", vs])
        tg = add(["leaf", [tag]])
        c = add(["cat", [tg, u]])
        return add(["pad", c, 8])
    if k == "delim":
        h = add(["leaf", [32]])
        b = add(["leaf", [8]])
        r = add(["rrep", b, t[2] // 8])
        return add(["cat", [h, r]])
    raise ValueError(k)


def s_after_field(cur: int, f, nodes: list) -> int:
    nodes.append(["pad", cur, s_align(f)])
    p = len(nodes) - 1
    fb = s_nodes(f, nodes)
    nodes.append(["cat", [p, fb]])
    return len(nodes) - 1


def s_field_offsets(t, base: typing.List[int], nodes: list) -> typing.List[int]:
    """Start positions of each field, per the Specification, for origin set `base`."""
    nodes.append(["leaf", list(base)])
    cur = len(nodes) - 1
    if t[0] == "delim":
        nodes.append(["leaf", [32]])
        nodes.append(["cat", [cur, len(nodes) - 1]])
        cur = len(nodes) - 1
        t = t[1]
    nodes.append(["pad", cur, 8])
    cur = len(nodes) - 1
    out = []
    if t[0] == "struct":
        for f in t[1]:
            nodes.append(["pad", cur, s_align(f)])
            o = len(nodes) - 1
            out.append(o)
            fb = s_nodes(f, nodes)
            nodes.append(["cat", [o, fb]])
            cur = len(nodes) - 1
    else:
        tag = max(smallest_std(len(t[1]) - 1) or 128, 8)
        nodes.append(["leaf", [tag]])
        nodes.append(["cat", [cur, len(nodes) - 1]])
        o = len(nodes) - 1
        out = [o for _ in t[1]]
    return out


def s_elem_offsets(t, base, nodes: list) -> typing.List[int]:
    nodes.append(["leaf", list(base)])
    nodes.append(["pad", len(nodes) - 1, s_align(t[1])])
    b = len(nodes) - 1
    e = s_nodes(t[1], nodes)
    out = []
    for i in range(t[2]):
        nodes.append(["rep", e, i])
        nodes.append(["cat", [b, len(nodes) - 1]])
        out.append(len(nodes) - 1)
    return out


def s_intrinsic(t, j: int, nodes: list) -> int:
    """`_offset_` after the first j fields: lengths of everything before, no padding for the next field."""
    inner = t[1] if t[0] == "delim" else t
    fs = inner[1][:j]
    if inner[0] == "struct":
        nodes.append(["leaf", [0]])
        cur = len(nodes) - 1
        for f in fs:
            cur = s_after_field(cur, f, nodes)
        return cur
    # union: tag + union of the variants seen so far (degenerate: nothing / the sole variant)
    if len(fs) == 0:
        nodes.append(["leaf", [0]])
        return len(nodes) - 1
    if len(fs) == 1:
        return s_nodes(fs[0], nodes)
    tag = max(smallest_std(len(fs) - 1) or 128, 8)
    vs = [s_nodes(f, nodes) for f in fs]
    nodes.append(["uni", vs])
    u = len(nodes) - 1
    nodes.append(["leaf", [tag]])
    nodes.append(["cat", [len(nodes) - 1, u]])
    return len(nodes) - 1


def section_of(st):
    """(is_union, field list) of a structure / union, sealed or delimited."""
    inner = st[1] if st[0] == "delim" else st
    return inner[0] == "union", inner[1]


def s_prog(st, plan: str) -> typing.Optional[typing.List[typing.List[int]]]:
    """`_offset_` at every evaluation point of a definition `program` (see gen_prog): each value is the set of lengths
    of everything declared before that point, padding fields included, constants / comments / directives not."""
    out = []
    j = 0
    for ch in plan:
        if ch == "f":
            j += 1
        elif ch in PROBE_CHARS:
            inn: list = []
            den = B.o_den(inn, s_intrinsic(st, j, inn), 4000, {})
            if den is None:
                return None
            out.append(sorted(den))
    return out


def spec_answer(st, q, ctx: dict) -> typing.Tuple[bool, typing.Any]:
    """What the Specification says about query `q` on the (valid, stripped) type `st`: (known, expected answer).
    `ctx` caches the expression nodes of `st` between queries on the same type."""
    if "nodes" not in ctx:
        ctx["nodes"] = []
        ctx["root"] = s_nodes(st, ctx["nodes"])
        ctx["rm"] = {}
    nodes, root, rm = ctx["nodes"], ctx["root"], ctx["rm"]
    k = q[0]
    if k == "align":
        return True, s_align(st)
    if k == "extent":
        return True, st[2] if st[0] == "delim" else B.o_max(nodes, root)
    if k == "min":
        return True, B.o_min(nodes, root)
    if k == "max":
        return True, B.o_max(nodes, root)
    if k == "fixed":
        return True, B.o_min(nodes, root) == B.o_max(nodes, root)
    if k == "mod":
        return True, sorted(B.o_res(nodes, root, q[1], rm))
    if k == "aligned":
        return True, set(B.o_res(nodes, root, q[1], rm)) == {0}
    if k == "expand":
        den = B.o_den(nodes, root, 4000, {})
        return (False, None) if den is None else (True, sorted(den))
    if k == "lenbits":
        return True, max(smallest_std(st[2]), s_align(st[1]))
    if k == "tagbits":
        fs = st[1] if st[0] == "union" else st[1][1]
        return True, max(smallest_std(len(fs) - 1), 8)
    if k == "hdrbits":
        return True, 32
    if k == "asserts":
        return True, True
    if k in ("offsets", "elemoffsets"):
        on: list = []
        offs = s_field_offsets(st, q[1], on) if k == "offsets" else s_elem_offsets(st, q[1], on)
        om: dict = {}
        return True, [{"min": B.o_min(on, o), "max": B.o_max(on, o), "mods": [sorted(B.o_res(on, o, d, om)) for d in q[2]]} for o in offs]
    if k == "xoffsets":
        on = []
        offs = s_field_offsets(st, q[1], on)
        dens = [B.o_den(on, o, 4000, {}) for o in offs]
        return (False, None) if None in dens else (True, [sorted(d) for d in dens])
    if k == "svc_intrinsic":
        exp = []
        for tt in (st, strip(q[2])):
            inn2: list = []
            den2 = B.o_den(inn2, s_intrinsic(tt, q[1], inn2), 4000, {})
            exp.append(None if den2 is None else sorted(den2))
        return (False, None) if None in exp else (True, exp)
    if k == "intrinsic":
        inn: list = []
        den = B.o_den(inn, s_intrinsic(st, q[1], inn), 4000, {})
        return (False, None) if den is None else (True, sorted(den))
    if k == "prog":
        a = s_prog(st, q[1])
        b = [] if q[2] is None else s_prog(strip(q[2]), q[3])
        return (False, None) if a is None or b is None else (True, [a, b])
    return False, None


def _cost(nodes, i, d):
    return B._cost(nodes, i, d, {})


def _expand_ok(nodes, i):
    dm: dict = {}
    return B.expand_cost(nodes, i, dm) <= EXPAND_BUDGET and B.o_den(nodes, i, 600, dm) is not None


# ------------------------------------------------------------------------------- generator

CAPS = [1, 2, 3, 4, 7, 8, 9, 31, 64, 100, 255, 256, 257, 1000, 65535, 65536, 65537, 2**32 - 1, 2**32, 2**32 + 1, 2**40, 2**63, 2**64 - 1]


def gen_prim(rng):
    kind = rng.choice(["bool", "uint", "uint", "uint", "int", "float", "byte", "utf8"])
    cm = rng.choice(["sat", "trunc"])
    if kind == "bool":
        return ["prim", 1, "bool"]
    if kind in ("byte", "utf8"):
        return ["prim", 8, kind]
    if kind == "float":
        return ["prim", rng.choice([16, 32, 64]), "float" + cm]
    if kind == "int":
        return ["prim", rng.choice([2, 3, 7, 8, 12, 16, 31, 32, 33, 63, 64, rng.randint(2, 64)]), "intsat"]
    return ["prim", rng.choice([1, 2, 3, 5, 7, 8, 9, 12, 16, 24, 32, 48, 64, rng.randint(1, 64)]), "uint" + cm]


def gen_cap(rng):
    x = rng.random()
    if x < 0.55:
        return rng.randint(1, 9)
    if x < 0.9:
        return rng.choice(CAPS)
    if x < 0.97:
        return max(0, rng.choice(CAPS) + rng.randint(-2, 2))
    return rng.choice([0, 2**64, 2**64 + 5, 2**70])  # rejected


def gen_ty(rng, depth: int, top: bool = False):
    x = rng.random()
    if depth <= 0 or (not top and x < 0.35):
        return gen_prim(rng)
    if top:
        kind = rng.choice(["struct", "struct", "union", "delim", "delim", "farr", "varr"])
    else:
        kind = rng.choice(["farr", "varr", "varr", "struct", "struct", "union", "delim"])
    if kind in ("farr", "varr"):
        e = gen_ty(rng, depth - 1)
        if e[0] == "prim" and e[2] == "utf8" and kind == "farr":
            e = ["prim", 8, "byte"]
        return [kind, e, gen_cap(rng)]
    if kind in ("struct", "union"):
        return gen_comp(rng, depth, kind)
    inner = gen_comp(rng, depth, rng.choice(["struct", "struct", "union"]))
    nodes: list = []
    try:
        mx = B.o_max(nodes, s_nodes(inner, nodes)) if s_valid(inner) else 64
    except Exception:
        mx = 64
    base = -(-mx // 8) * 8
    ext = base + rng.choice([0, 0, 8, 16, 64, 8 * rng.randint(0, 300), 2**20 * 8, 2**40 * 8])
    if rng.random() < 0.06:
        ext = rng.choice([base - 8, base + 1, base + 4, base - 1]) if base >= 8 else base + 3  # rejected
        ext = max(ext, 0)
    return ["delim", inner, ext]


def gen_comp(rng, depth, kind):
    if kind == "union":
        x = rng.random()
        if x < 0.82:
            n = rng.choice([2, 2, 3, 4, 5])
            fs = [gen_field(rng, depth - 1, union=True) for _ in range(n)]
        elif x < 0.9:
            # few variants, many constants: constants are attributes but not variants (tag width!)
            n = rng.choice([2, 2, 3])
            fs = [gen_field(rng, depth - 1, union=True) for _ in range(n)]
            return ["union", fs, rng.choice([1, 3, 253, 254, 255, 256])]
        elif x < 0.96:
            n = rng.choice([255, 256, 257, 258])
            fs = [["prim", rng.choice([1, 8, 16]), "uintsat"] for _ in range(n)]
        else:
            fs = [gen_field(rng, depth - 1, union=True) for _ in range(rng.choice([0, 1]))]  # rejected
        return ["union", fs]
    n = rng.choice([0, 1, 1, 2, 2, 3, 3, 4, 6])
    fs = [gen_field(rng, depth - 1, union=False) for _ in range(n)]
    if rng.random() < 0.1:
        return ["struct", fs, rng.choice([1, 2, 5])]
    return ["struct", fs]


def gen_field(rng, depth, union):
    if not union and rng.random() < 0.15:
        return ["void", rng.choice([1, 2, 3, 4, 5, 7, 8, 15, 32, 64])]
    t = gen_ty(rng, depth)
    if t[0] == "prim" and t[2] in ("byte", "utf8"):
        t = ["prim", 8, "uintsat"]  # byte / utf8 are array elements only
    return t


def gen_prim_field(rng):
    t = gen_prim(rng)
    return ["prim", 8, "uintsat"] if t[2] in ("byte", "utf8") else t


def gen_base(rng):
    return rng.choice([[0], [0], [8], [0, 8, 16], [1], [3, 11], [7, 8, 9], [64, 96], [rng.randint(0, 40) for _ in range(rng.randint(1, 3))]])


def strip(t):
    """Type JSON without the Python-only primitive kind (what the Lean model and the oracle see)."""
    k = t[0]
    if k == "prim":
        return ["prim", t[1]]
    if k == "void":
        return t
    if k in ("farr", "varr", "delim"):
        return [k, strip(t[1]), t[2]]
    return [k, [strip(f) for f in t[1]]]  # a third element (number of constants) is irrelevant to the layout


def gen_lookalike_warm(rng, prop):
    """Two builds in one process: first a type containing composite `Item` with one layout, then the SAME names with
    another layout that the approximate BitLengthSet equality cannot tell apart.  Nothing computed for the first may
    leak into the second (caches keyed by type equality)."""
    w = rng.choice([8, 16])
    a = ["struct", [["varr", ["prim", 8 * w, "uintsat"] if 8 * w <= 64 else ["prim", 64, "uintsat"], 1]]]
    b = ["struct", [["varr", ["prim", 32, "uintsat"], 2]]]
    if rng.random() < 0.5:
        a, b = ["struct", [["varr", ["prim", 64, "uintsat"], 1]]], ["struct", [["varr", ["prim", 32, "uintsat"], 2]]]
    else:
        a, b = ["union", [["prim", 8, "uintsat"], ["prim", 64, "uintsat"]]], ["union", [["prim", 8, "uintsat"], ["prim", 32, "uintsat"], ["prim", 64, "uintsat"]]]
    kind = rng.choice(["farr", "varr", "struct", "nested"])
    cap = rng.choice([2, 3])

    def wrapper(x):
        if kind == "farr":
            return ["struct", [["farr", x, cap]]]
        if kind == "varr":
            return ["struct", [["varr", x, cap], ["prim", 3, "uintsat"]]]
        if kind == "struct":
            return ["struct", [["prim", 8, "uintsat"], x, x]]
        return ["delim", ["struct", [["farr", ["struct", [x]], 2]]], 2048]
    first, second = (a, b) if rng.random() < 0.6 else (b, a)
    case = make_queries(rng, wrapper(second), prop)
    if case is None:
        return None
    if not any(q[0] == "expand" for q in case["qs"]):
        case["qs"].append(["expand"])
    case["warm"] = wrapper(first)
    return case


# --- definition programs (C08): `_offset_` evaluated several times within ONE definition ------------------------
# plan alphabet: f = the next field of the type (padding fields are fields), c = a constant, d = a comment line,
# b = a blank line, p = `@print _offset_`, u = `@print _offset_ | _offset_` (two evaluations in one expression)
PROBE_CHARS = "pu"


def gen_small(rng, depth, defs=None, dsdl=True, elem=False, p_ref=0.4):
    """A small member type (capacities <= 4, at most three fields) so that numerical expansion stays cheap.
    `defs`: earlier definitions of a pool that may be referred to as ["ref", i] (shared objects)."""
    if defs and rng.random() < p_ref:
        cands = [i for i, d in enumerate(defs) if not (elem and dsdl and d[0] in ("farr", "varr"))]
        if cands:
            return ["ref", rng.choice(cands)]
    if depth <= 0 or rng.random() < 0.4:
        return gen_prim_field(rng)
    kind = rng.choice(["farr", "varr", "varr", "struct", "union", "delim"])
    if kind in ("farr", "varr") and elem and dsdl:
        kind = rng.choice(["struct", "union"])
    if kind in ("farr", "varr"):
        if rng.random() < 0.5:
            e = gen_prim(rng)
            if e[2] == "utf8" and kind == "farr":
                e = ["prim", 8, "byte"]
        else:
            e = gen_small(rng, depth - 1, defs, dsdl, elem=True, p_ref=p_ref)
        return [kind, e, rng.choice([1, 2, 2, 3, 4])]
    return gen_small_comp(rng, depth, defs, dsdl, kind, p_ref)


def gen_small_comp(rng, depth, defs, dsdl, kind, p_ref=0.4, pad=0.15):
    ik = rng.choice(["struct", "struct", "union"]) if kind == "delim" else kind
    if ik == "union":
        fs = [gen_small(rng, depth - 1, defs, dsdl, p_ref=p_ref) for _ in range(rng.choice([2, 2, 3]))]
    else:
        fs = []
        for _ in range(rng.choice([0, 1, 2, 2, 3])):
            fs.append(["void", rng.choice([1, 3, 4, 5, 7, 8, 13])] if rng.random() < pad else gen_small(rng, depth - 1, defs, dsdl, p_ref=p_ref))
    inner = [ik, fs]
    if kind != "delim":
        return inner
    try:
        st = strip(resolve_refs(defs or [], inner))
        nodes: list = []
        mx = B.o_max(nodes, s_nodes(st, nodes)) if s_valid(st) else 64
    except Exception:
        mx = 64
    return ["delim", inner, -(-mx // 8) * 8 + rng.choice([0, 0, 8, 16, 64])]


def gen_prog_comp(rng):
    """The body of a definition program: a padding-rich structure (or a union), sealed or delimited."""
    if rng.random() < 0.25:
        inner = ["union", [gen_small(rng, 1) for _ in range(rng.choice([2, 2, 3, 4]))]]
    else:
        fs = []
        for _ in range(rng.choice([1, 2, 3, 3, 4, 5, 6])):
            x = rng.random()
            if x < 0.35:
                fs.append(["void", rng.choice([1, 2, 3, 4, 5, 7, 8, 12, 16, 32, rng.randint(1, 64)])])
            elif x < 0.75:
                fs.append(gen_prim_field(rng))
            else:
                fs.append(gen_small(rng, 2))
        inner = ["struct", fs]
    if rng.random() < 0.75:
        return inner
    try:
        nodes: list = []
        mx = B.o_max(nodes, s_nodes(strip(inner), nodes))
    except Exception:
        return inner
    return ["delim", inner, -(-mx // 8) * 8 + rng.choice([0, 8, 64])]


def gen_plan(rng, t) -> str:
    is_union, fs = section_of(t)
    filler = lambda: rng.choice(["c", "c", "d", "b"])  # noqa: E731
    probe = lambda: "u" if rng.random() < 0.12 else "p"  # noqa: E731
    plan: typing.List[str] = []
    if is_union:
        # `_offset_` of a union is defined after its last variant only
        for _ in fs:
            if rng.random() < 0.2:
                plan.append(filler())
            plan.append("f")
        for _ in range(rng.choice([1, 2, 3, 4])):
            plan.append(probe())
            if rng.random() < 0.4:
                plan.append(filler())
        return "".join(plan)
    for i in range(len(fs) + 1):
        if rng.random() < 0.65:
            plan.append(probe())
        if rng.random() < 0.25:
            plan.append(filler())
            if rng.random() < 0.5:
                plan.append(probe())
        if i < len(fs):
            plan.append("f")
    while sum(plan.count(c) for c in PROBE_CHARS) < 2:
        plan.insert(rng.randint(0, len(plan)), probe())
    return "".join(plan)


def plan_ok(t, plan) -> bool:
    st = strip(t)
    j = 0
    for ch in plan:
        if ch == "f":
            j += 1
        elif ch in PROBE_CHARS:
            inn: list = []
            if not _expand_ok(inn, s_intrinsic(st, j, inn)):
                return False
    return True


def gen_prog(rng, prop):
    for _ in range(30):
        t = gen_prog_comp(rng)
        st = strip(t)
        if not s_valid(st) or nested_arrays(st):
            continue
        plan = gen_plan(rng, t)
        if not plan_ok(t, plan):
            continue
        resp, plan2 = None, ""
        if rng.random() < 0.4:  # a service: the response section starts from scratch after `---`
            resp = gen_prog_comp(rng)
            plan2 = gen_plan(rng, resp)
            if not s_valid(strip(resp)) or nested_arrays(strip(resp)) or not plan_ok(resp, plan2):
                continue
        case = make_queries(rng, t, prop)
        if case is None:
            continue
        case["qs"] = [q for q in case["qs"] if q[0] != "svc_intrinsic"][:8]
        # flag n: the composite members' own definitions evaluate `_offset_` too (nested builders, between two evaluations here)
        case["qs"].append(["prog", plan, resp, plan2, "n" if rng.random() < 0.5 else ""])
        return case
    return None


# --- pools of types that SHARE sub-objects, queried in a script (C02: a type's layout does not depend on history) ---


def resolve_refs(defs, t):
    k = t[0]
    if k == "ref":
        return resolve_refs(defs, defs[t[1]])
    if k in ("prim", "void"):
        return t
    if k in ("farr", "varr", "delim"):
        return [k, resolve_refs(defs, t[1]), t[2]]
    return [k, [resolve_refs(defs, f) for f in t[1]]] + list(t[2:])


def walk(t, path):
    """Member of the (resolved) type `t`: a field index descends into a composite, anything into an array's element."""
    for k in path:
        if t[0] in ("farr", "varr"):
            t = t[1]
        else:
            t = section_of(t)[1][k]
    return t


def pool_targets(rdefs):
    out = []
    for i, d in enumerate(rdefs):
        out.append([i])
        if d[0] in ("farr", "varr"):
            subs = [[i, 0]]
        else:
            subs = [[i, k] for k, f in enumerate(section_of(d)[1]) if f[0] != "void"][:4]
        for pth in subs:
            out.append(pth)
            m = walk(d, pth[1:])
            if m[0] in ("farr", "varr") and m[1][0] != "prim":
                out.append(pth + [0])
    return out


def gen_pool(rng, prop):
    dsdl = rng.random() < 0.35
    defs: list = []
    for i in range(rng.choice([2, 2, 3, 3, 4])):
        for _ in range(20):
            if dsdl or rng.random() < 0.75:
                t = gen_small_comp(rng, rng.choice([1, 2, 2, 3]), defs, dsdl, rng.choice(["struct", "struct", "union", "union", "delim"]),
                                   p_ref=0.5 if defs else 0.0, pad=0.1)
            else:
                t = gen_small(rng, 2, defs, dsdl, p_ref=0.5)
                if t[0] not in ("farr", "varr"):
                    continue
            st = strip(resolve_refs(defs, t))
            try:
                ok = s_valid(st) and not (dsdl and nested_arrays(st))
                nodes: list = []
                ok = ok and _cost(nodes, s_nodes(st, nodes), 8) <= MOD_BUDGET
            except Exception:
                ok = False
            if ok:
                defs.append(t)
                break
        else:
            return None
    rdefs = [resolve_refs(defs, d) for d in defs]
    targets = pool_targets(rdefs)
    info = {}
    for pth in targets:
        st = strip(walk(rdefs[pth[0]], pth[1:]))
        nodes = []
        root = s_nodes(st, nodes)
        info[tuple(pth)] = (st, nodes, root, _expand_ok(nodes, root))

    def rand_q(pth, numeric):
        st, nodes, root, xok = info[tuple(pth)]
        comp = st[0] in ("struct", "union", "delim")
        for _ in range(8):
            k = rng.choice(["expand", "expand", "expand", "xoffsets"] if numeric else
                           ["expand", "mod", "mod", "min", "max", "extent", "align", "fixed", "aligned", "offsets", "xoffsets", "asserts"])
            if k == "expand" and xok:
                return ["expand"]
            if k in ("mod", "aligned"):
                d = rng.choice([8, 8, 32, 1, 2, 3, 5, 7, 16, 64, rng.randint(1, 40)])
                if _cost(nodes, root, d) <= MOD_BUDGET:
                    return [k, d]
            if k in ("min", "max", "extent", "align", "fixed", "asserts"):
                return [k]
            if k in ("offsets", "xoffsets") and comp:
                base = dedup_list(gen_base(rng))
                divs = dedup_list([8, rng.choice([1, 2, 3, 7, 16, 32])])
                on: list = []
                offs = s_field_offsets(st, base, on)
                if k == "offsets" and all(_cost(on, o, d) <= MOD_BUDGET for o in offs for d in divs):
                    return ["offsets", base, divs]
                if k == "xoffsets" and len(offs) <= 6 and all(_expand_ok(on, o) for o in offs):
                    return ["xoffsets", base]
        return ["max"]

    aggs = [[i] for i in range(len(defs) - 1, -1, -1)]
    members = [p for p in targets if len(p) > 1]
    rng.shuffle(members)
    style = rng.choice(["aggregate-first", "aggregate-first", "member-first", "random"])
    script: list = []
    if style == "random":
        for _ in range(rng.randint(4, 12)):
            pth = rng.choice(targets)
            script.append([pth, rand_q(pth, rng.random() < 0.4)])
    else:
        first = aggs[: rng.randint(1, len(aggs))] if style == "aggregate-first" else members[:3]
        then = (members[:4] + aggs[::-1][:2]) if style == "aggregate-first" else aggs[: rng.randint(1, len(aggs))]
        for pth in first:
            script.append([pth, rand_q(pth, rng.random() < 0.7)])
            if rng.random() < 0.3:
                script.append([pth, rand_q(pth, False)])
        for pth in then:
            script.append([pth, rand_q(pth, rng.random() < 0.7)])
        # afterwards: everything not touched yet (in constructor mode these are types BUILT after the queries above),
        # then re-checks of what was asked before
        touched = {p[0] for p, _ in script}
        for i in range(len(defs)):
            if i not in touched:
                script.append([[i], rand_q([i], rng.random() < 0.6)])
        for _ in range(rng.randint(1, 3)):
            pth = rng.choice(targets)
            script.append([pth, rand_q(pth, rng.random() < 0.5)])
    script = script[:16]
    probe = []
    if dsdl:
        for i, d in enumerate(rdefs):
            inn: list = []
            st = strip(d)
            if rng.random() < 0.5 and _expand_ok(inn, s_intrinsic(st, len(section_of(st)[1]), inn)):
                probe.append(i)
    return {"ty": rdefs[-1], "qs": [["align"], ["max"]],
            "pool": {"mode": "dsdl" if dsdl else "ctor", "style": style, "defs": defs, "probe": probe, "script": script}}


# --- images of type objects (pickle / copy / deepcopy), before and after first queries ---------------------------------

IMG_OPS = ["pickle", "pickle", "pickle", "pickle0", "pickle1", "pickle2", "pickle3", "pickle4", "pickle5", "copy", "copy", "deepcopy", "deepcopy"]


def gen_img_ops(rng):
    return [rng.choice(IMG_OPS) for _ in range(rng.choice([1, 1, 1, 2]))]


def image(obj, ops):
    """The image of a (graph of) type object(s) under a chain of pickle round trips / copies."""
    for op in ops:
        if op.startswith("pickle"):
            obj = pickle.loads(pickle.dumps(obj, protocol=int(op[6:]) if op[6:] else pickle.DEFAULT_PROTOCOL))
        elif op == "copy":
            obj = copy.copy(obj)
        elif op == "deepcopy":
            obj = copy.deepcopy(obj)
        else:
            raise ValueError(op)
    return obj


def add_image(rng, case):
    """Turn a plain case into an image case: the queries are answered by an image of the built type."""
    if not case.get("qs") or "pool" in case:
        return case
    case["img"] = {"ops": gen_img_ops(rng), "warm": rng.random() < 0.4}
    return case


def add_pool_images(rng, case):
    pool = case["pool"]
    n = len(pool["defs"])
    img: dict = {}
    if pool["mode"] == "dsdl" and rng.random() < 0.5:
        img["whole"] = gen_img_ops(rng)          # the namespace model as a whole (shared members stay shared)
    else:
        each = {str(i): gen_img_ops(rng) for i in range(n) if rng.random() < 0.6}
        if not each:
            each = {str(rng.randrange(n)): gen_img_ops(rng)}
        img["each"] = each                       # type by type (constructor mode: when the definition is built)
    pool["img"] = img
    script = list(pool["script"])
    for _ in range(rng.choice([0, 1, 1, 2])):    # a definition replaced by its image between two queries
        script.insert(rng.randint(1, len(script)) if script else 0, [[rng.randrange(n)], ["reimage", gen_img_ops(rng)]])
    pool["script"] = script
    return case


IMG_SHARE = {"C08": 0.22, "C02": 0.15}
IMG_POOL_SHARE = 0.45


def gen_case(rng, prop):
    c = gen_case0(rng, prop)
    if "pool" in c:
        if rng.random() < IMG_POOL_SHARE:
            add_pool_images(rng, c)
    elif rng.random() < IMG_SHARE.get(prop, 0.1):
        add_image(rng, c)
    return c


def gen_case0(rng, prop):
    x = rng.random()
    if x < 0.06:
        c = gen_lookalike_warm(rng, prop)
        if c is not None:
            return c
    elif x < 0.06 + (0.16 if prop == "C02" else 0.08):
        c = gen_pool(rng, prop)
        if c is not None:
            return c
    elif x < 0.22 + (0.16 if prop == "C08" else 0.08):
        c = gen_prog(rng, prop)
        if c is not None:
            return c
    for _ in range(50):
        t = gen_ty(rng, rng.choice([1, 2, 2, 3, 3, 4]), top=True)
        case = make_queries(rng, t, prop)
        if case is not None:
            return case
    return make_queries(rng, ["struct", [["prim", 8, "uintsat"]]], prop)


def dedup_list(l):
    out = []
    for x in l:
        if x not in out:
            out.append(x)
    return out


def make_queries(rng, t, prop):
    st = strip(t)
    if not s_valid(st):
        return {"ty": t, "qs": []}
    nodes: list = []
    try:
        root = s_nodes(st, nodes)
    except Exception:
        return None
    qs: typing.List[list] = [["align"], ["extent"], ["min"], ["max"], ["fixed"], ["asserts"]]
    for d in dedup_list([8, 32, rng.choice([1, 2, 3, 5, 7, 16, 64, 12, rng.randint(1, 40)])]):
        if _cost(nodes, root, d) <= MOD_BUDGET:
            qs.append([rng.choice(["mod", "mod", "aligned"]), d])
    if _expand_ok(nodes, root) and rng.random() < 0.6:
        qs.append(["expand"])
    if st[0] == "varr":
        qs.append(["lenbits"])
    if st[0] == "union" or (st[0] == "delim" and st[1][0] == "union"):
        qs.append(["tagbits"])
    if st[0] == "delim":
        qs.append(["hdrbits"])
    if st[0] in ("struct", "union", "delim") and len((st[1] if st[0] != "delim" else st[1][1])) <= 12:
        for _ in range(rng.choice([1, 2])):
            base = dedup_list(gen_base(rng))
            divs = dedup_list([8, rng.choice([1, 2, 3, 7, 16, 32])])
            on: list = []
            offs = s_field_offsets(st, base, on)
            if all(_cost(on, o, d) <= MOD_BUDGET for o in offs for d in divs):
                qs.append(["offsets", base, divs])
        nf = len(st[1] if st[0] != "delim" else st[1][1])
        for j in dedup_list([rng.randint(0, nf), nf]):
            inn: list = []
            i = s_intrinsic(st, j, inn)
            if _expand_ok(inn, i) and _expand_ok(nodes, root) and not nested_arrays(st):
                qs.append(["intrinsic", j])
    inner0 = st[1] if st[0] == "delim" else st
    if inner0[0] == "struct" and not nested_arrays(st) and _expand_ok(nodes, root) and rng.random() < 0.35:
        # a service: `_offset_` queried after the same number of fields in the request and in the response
        resp = ["struct", [gen_prim_field(rng) for _ in range(rng.randint(1, 3))]]
        j = rng.randint(0, min(len(inner0[1]), len(resp[1])))
        ia: list = []
        ib: list = []
        if _expand_ok(ia, s_intrinsic(st, j, ia)) and _expand_ok(ib, s_intrinsic(strip(resp), j, ib)):
            qs.append(["svc_intrinsic", j, resp])
    if st[0] == "farr" and st[2] <= 12:
        base = dedup_list(gen_base(rng))
        divs = [8, rng.choice([1, 3, 16, 32])]
        on = []
        offs = s_elem_offsets(st, base, on)
        if all(_cost(on, o, d) <= MOD_BUDGET for o in offs for d in divs):
            qs.append(["elemoffsets", base, divs])
    return {"ty": t, "qs": qs}


# ------------------------------------------------------------------------------- implementation side


class _Names:
    def __init__(self):
        self.n = 0

    def fresh(self):
        self.n += 1
        return "T%d" % self.n


def build_impl(pydsdl, t, names: _Names, refs=None):
    """`refs(i)`: the (already built, shared) object of pool definition i for ["ref", i]."""
    k = t[0]
    CM = pydsdl.PrimitiveType.CastMode
    if k == "ref":
        return refs(t[1])
    if k == "prim":
        kind = t[2]
        cm = CM.TRUNCATED if kind.endswith("trunc") else CM.SATURATED
        if kind == "bool":
            return pydsdl.BooleanType()
        if kind == "byte":
            return pydsdl.ByteType()
        if kind == "utf8":
            return pydsdl.UTF8Type()
        if kind.startswith("float"):
            return pydsdl.FloatType(t[1], cm)
        if kind.startswith("int"):
            return pydsdl.SignedIntegerType(t[1], CM.SATURATED)
        return pydsdl.UnsignedIntegerType(t[1], cm)
    if k == "void":
        return pydsdl.VoidType(t[1])
    if k == "farr":
        return pydsdl.FixedLengthArrayType(build_impl(pydsdl, t[1], names, refs), t[2])
    if k == "varr":
        return pydsdl.VariableLengthArrayType(build_impl(pydsdl, t[1], names, refs), t[2])
    if k in ("struct", "union"):
        attrs = []
        for i, f in enumerate(t[1]):
            ft = build_impl(pydsdl, f, names, refs)
            if f[0] == "void":
                attrs.append(pydsdl.PaddingField(ft))
            else:
                attrs.append(pydsdl.Field(ft, "f%d" % i))
        for ci in range(t[2] if len(t) > 2 else 0):
            attrs.append(pydsdl.Constant(pydsdl.UnsignedIntegerType(8, CM.SATURATED), "C%d" % ci, pydsdl.Rational(ci % 256)))
        cls = pydsdl.StructureType if k == "struct" else pydsdl.UnionType
        return cls(name="ns." + names.fresh(), version=pydsdl.Version(1, 0), attributes=attrs, deprecated=False,
                   fixed_port_id=None, source_file_path=Path("/nonexistent/ns/X.1.0.dsdl"), has_parent_service=False)
    if k == "delim":
        return pydsdl.DelimitedType(build_impl(pydsdl, t[1], names, refs), t[2])
    raise ValueError(k)


def summarize(b, divs):
    return {"min": b.min, "max": b.max, "mods": [sorted(b % d) for d in divs]}


def dsdl_type_text(t, deps: dict, names: _Names, dep_eval: bool = False) -> str:
    """DSDL spelling of a type; composites become dependency files ns/<Name>.1.0.dsdl collected in `deps`.
    `dep_eval`: the dependencies evaluate `_offset_` themselves (silently, in an always-true @assert) - they are parsed
    when first referred to, i.e. in the middle of the referring definition."""
    k = t[0]
    if k == "ref":
        return "ns.D%d.1.0" % t[1]
    if k == "prim":
        kind = t[2]
        if kind in ("bool", "byte", "utf8"):
            return kind
        cm = "truncated " if kind.endswith("trunc") else "saturated "
        base = "float" if kind.startswith("float") else "int" if kind.startswith("int") else "uint"
        return cm + base + str(t[1])
    if k == "void":
        return "void%d" % t[1]
    if k == "farr":
        return "%s[%d]" % (dsdl_type_text(t[1], deps, names, dep_eval), t[2])
    if k == "varr":
        return "%s[<=%d]" % (dsdl_type_text(t[1], deps, names, dep_eval), t[2])
    name = names.fresh()
    deps[name] = dsdl_def_text(t, deps, names, [], dep_eval)
    return "ns.%s.1.0" % name


def dsdl_def_text(t, deps, names, probes, dep_eval: bool = False) -> str:
    ext = None
    if t[0] == "delim":
        ext = t[2]
        t = t[1]
    lines = []
    if t[0] == "union":
        lines.append("@union")
    for i, f in enumerate(t[1]):
        if i in probes:
            lines.append("@print _offset_")
        ft = dsdl_type_text(f, deps, names, dep_eval)
        lines.append(ft if f[0] == "void" else "%s f%d" % (ft, i))
    if len(t[1]) in probes:
        lines.append("@print _offset_")
    if dep_eval and not probes:
        inn: list = []
        if _expand_ok(inn, s_intrinsic(strip(t), len(t[1]), inn)):
            lines.append("@assert _offset_ % 1 == {0}")
    for ci in range(t[2] if len(t) > 2 else 0):
        lines.append("uint8 C%d = %d" % (ci, ci % 256))
    lines.append("@sealed" if ext is None else "@extent %d" % ext)
    return "\n".join(lines) + "\n"


def intrinsic_impl(pydsdl, t, js) -> dict:
    """`_offset_` at the requested positions plus `_bit_length_` / `_extent_` of the type, through DSDL text."""
    names = _Names()
    deps: dict = {}
    inner = t[1] if t[0] == "delim" else t
    if inner[0] == "union":
        # `_offset_` may only be evaluated after the last variant of a union: one file per probe position
        pass
    d = Path(tempfile.mkdtemp(prefix="verif_layout_"))
    try:
        out = {}
        (d / "ns").mkdir()
        for j in js:
            sub = t
            if inner[0] == "union" and j < len(inner[1]):
                # evaluating `_offset_` before the last variant and then adding variants is rejected by design:
                # probe a union made of the first j variants instead (the spec value is the same)
                continue
            prints: list = []
            tn = "Top%d" % j
            text = dsdl_def_text(sub, deps, names, [j])
            for n, tx in deps.items():
                (d / "ns" / ("%s.1.0.dsdl" % n)).write_text(tx)
            probe = ("ns.%s.1.0 x\n@print ns.%s.1.0._bit_length_\n@print ns.%s.1.0._extent_\n@sealed\n" % (tn, tn, tn))
            (d / "ns" / ("%s.1.0.dsdl" % tn)).write_text(text)
            (d / "ns" / ("Probe%d.1.0.dsdl" % j)).write_text(probe)
            pydsdl.read_files([d / "ns" / ("Probe%d.1.0.dsdl" % j)], [d / "ns"], [],
                              print_output_handler=lambda p, l, s: prints.append((Path(p).name, l, s)))
            out[j] = prints
        return out
    finally:
        shutil.rmtree(d, ignore_errors=True)


def svc_intrinsic_impl(pydsdl, t, j, resp):
    """A service whose request is `t` and whose response is `resp`, `@print _offset_` after j fields in both."""
    names = _Names()
    deps: dict = {}
    d = Path(tempfile.mkdtemp(prefix="verif_layout_"))
    try:
        (d / "ns").mkdir()
        req_text = dsdl_def_text(t, deps, names, [j])
        resp_text = dsdl_def_text(resp, deps, names, [j])
        for n, tx in deps.items():
            (d / "ns" / ("%s.1.0.dsdl" % n)).write_text(tx)
        (d / "ns" / "Svc.1.0.dsdl").write_text(req_text + "---\n" + resp_text)
        prints: list = []
        pydsdl.read_files([d / "ns" / "Svc.1.0.dsdl"], [d / "ns"], [], print_output_handler=lambda p, l, s: prints.append(s))
        if len(prints) != 2:
            return "prints:%r" % (prints,)
        return [parse_set(prints[0]), parse_set(prints[1])]
    finally:
        shutil.rmtree(d, ignore_errors=True)


def prog_def_text(t, plan, deps, names, dep_eval=False) -> str:
    """One definition section with the statements of `plan` (see gen_plan) around the fields of `t`."""
    ext = None
    if t[0] == "delim":
        ext = t[2]
        t = t[1]
    lines = []
    if t[0] == "union":
        lines.append("@union")
    i = ci = 0
    for ch in plan:
        if ch == "f":
            f = t[1][i]
            ft = dsdl_type_text(f, deps, names, dep_eval)
            lines.append(ft if f[0] == "void" else "%s f%d" % (ft, i))
            i += 1
        elif ch == "c":
            lines.append("uint8 C%d = %d" % (ci, ci % 256))
            ci += 1
        elif ch == "p":
            lines.append("@print _offset_")
        elif ch == "u":
            lines.append("@print _offset_ | _offset_")
        elif ch == "d":
            lines.append("# note")
        else:
            lines.append("")
    assert i == len(t[1]), "plan does not place every field"
    lines.append("@sealed" if ext is None else "@extent %d" % ext)
    return "\n".join(lines) + "\n"


def prog_impl(pydsdl, t, plan, resp, plan2, flags=""):
    """Every `_offset_` evaluation of a definition program, in order: [request section values, response section values]."""
    names = _Names()
    deps: dict = {}
    d = Path(tempfile.mkdtemp(prefix="verif_layout_"))
    try:
        (d / "ns").mkdir()
        text = prog_def_text(t, plan, deps, names, "n" in flags)
        if resp is not None:
            text += "---\n" + prog_def_text(resp, plan2, deps, names, "n" in flags)
        for n, tx in deps.items():
            (d / "ns" / ("%s.1.0.dsdl" % n)).write_text(tx)
        (d / "ns" / "Prog.1.0.dsdl").write_text(text)
        prints: list = []
        pydsdl.read_files([d / "ns" / "Prog.1.0.dsdl"], [d / "ns"], [], print_output_handler=lambda p, l, s: prints.append(s))
        n1 = sum(plan.count(c) for c in PROBE_CHARS)
        n2 = sum(plan2.count(c) for c in PROBE_CHARS) if resp is not None else 0
        if len(prints) != n1 + n2:
            return "prints:%r" % (prints,)
        vals = [parse_set(x) for x in prints]
        return [vals[:n1], vals[n1:]]
    finally:
        shutil.rmtree(d, ignore_errors=True)


def walk_impl(obj, t, path):
    for k in path:
        if t[0] in ("farr", "varr"):
            obj, t = obj.element_type, t[1]
        else:
            obj, t = obj.fields[k].data_type, section_of(t)[1][k]
    return obj


def pool_impl(suite, pydsdl, pool) -> list:
    """Run the script of a pool: one answer per step, then (DSDL mode) the `_offset_` printed at the end of the probed
    definitions.  Constructor mode builds a definition at its first use (so later steps build NEW types on top of objects
    that were already queried); DSDL mode reads the whole namespace first (nested composites are shared objects)."""
    defs = pool["defs"]
    rdefs = [resolve_refs(defs, x) for x in defs]
    tail: list = []
    pimg = pool.get("img") or {}
    if pool["mode"] == "ctor":
        names = _Names()
        built: dict = {}

        def get(i):
            if i not in built:
                built[i] = _image_or_self(build_impl(pydsdl, defs[i], names, get), pimg.get("each", {}).get(str(i)))
            return built[i]
    else:
        names = _Names()
        deps: dict = {}
        d = Path(tempfile.mkdtemp(prefix="verif_layout_"))
        try:
            (d / "ns").mkdir()
            for i, t in enumerate(defs):
                nf = len(section_of(t)[1])
                deps["D%d" % i] = dsdl_def_text(t, deps, names, [nf] if i in pool["probe"] else [])
            for n, tx in deps.items():
                (d / "ns" / ("%s.1.0.dsdl" % n)).write_text(tx)
            prints: dict = {}
            try:
                types = {x.short_name: x for x in pydsdl.read_namespace(d / "ns", [], print_output_handler=lambda p, l, s: prints.__setitem__(Path(p).name.split(".")[0], s))}
            except Exception as ex:
                raise RuntimeError("reading the namespace raised %s: %s" % (type(ex).__name__, str(ex)[:200])) from None
            for i in pool["probe"]:
                try:
                    tail.append(parse_set(prints["D%d" % i]))
                except Exception as ex:
                    tail.append("exc:%s" % type(ex).__name__)
        finally:
            shutil.rmtree(d, ignore_errors=True)

        if pimg.get("whole"):
            types = _image_or_self(types, pimg["whole"])
        for k_, ops in sorted(pimg.get("each", {}).items()):
            types["D%s" % k_] = _image_or_self(types["D%s" % k_], ops)
        built = types

        def get(i):
            return types["D%d" % i]
    out: list = []
    for pth, q in pool["script"]:
        if q[0] == "reimage":  # no answer: definition pth[0] is replaced by its image from here on
            try:
                key = pth[0] if pool["mode"] == "ctor" else "D%d" % pth[0]
                built[key] = _image_or_self(get(pth[0]), q[1])
            except Exception:
                pass
            continue
        try:
            obj = walk_impl(get(pth[0]), rdefs[pth[0]], pth[1:])
            out.append(suite.ask(pydsdl, obj, None, q, {}))
        except pydsdl.InvalidDefinitionError as ex:
            out.append("rejected:%s" % type(ex).__name__)
        except Exception as ex:
            out.append("exc:%s" % type(ex).__name__)
    return out + tail


def _image_or_self(obj, ops):
    """The image of `obj`; the object itself when there is nothing to do or the image cannot be made (that a model can be
    pickled / copied at all is not the subject of the layout properties)."""
    if not ops:
        return obj
    try:
        return image(obj, ops)
    except Exception:
        return obj


def pool_steps(pool) -> list:
    """(description, stripped resolved type, query) of every answer pool_impl gives, in the same order."""
    rdefs = [resolve_refs(pool["defs"], x) for x in pool["defs"]]
    steps = [("definition %d member path %s" % (pth[0], pth[1:]), strip(walk(rdefs[pth[0]], pth[1:])), q) for pth, q in pool["script"]
             if q[0] != "reimage"]
    for i in pool["probe"]:
        st = strip(rdefs[i])
        steps.append(("`_offset_` at the end of definition %d" % i, st, ["intrinsic", len(section_of(st)[1])]))
    return steps


def pool_oracle(pool, impl) -> typing.Optional[str]:
    """A type's layout is a function of the type alone: whatever was built or queried before (other types sharing
    sub-objects with it, in any order), every answer must be the Specification's."""
    sout = impl.get("sout")
    steps = pool_steps(pool)
    if isinstance(sout, str):
        return "history: the pool of valid definitions could not be built / read (%s)" % sout
    if not isinstance(sout, list) or len(sout) != len(steps):
        return "history: outcome has %s answers for %d steps" % (None if not isinstance(sout, list) else len(sout), len(steps))
    ctxs: dict = {}
    for n, ((what, st, q), a) in enumerate(zip(steps, sout)):
        known, exp = spec_answer(st, q, ctxs.setdefault(json.dumps(st), {}))
        if known and a != exp:
            imgs = ""
            if pool.get("img") or any(q_[0] == "reimage" for _, q_ in pool["script"]):
                imgs = "; definitions replaced by their pickle / copy images: %s, reimage steps: %s" % (
                    json.dumps(pool.get("img") or {}, sort_keys=True), [[p_[0], q_[1]] for p_, q_ in pool["script"] if q_[0] == "reimage"])
            return "history step %d (query '%s' %s on %s, %s, after %d earlier steps on types sharing sub-objects%s): implementation answered %s, the Specification's layout gives %s" % (
                n, q[0], q[1:], what, B._short(st), n, imgs, B._short(a), B._short(exp))
    return None


def parse_set(s: str) -> typing.List[int]:
    s = s.strip()
    assert s.startswith("{") and s.endswith("}"), s
    return sorted(int(x) for x in s[1:-1].split(",") if x.strip())


TEXT_QUERIES = ("intrinsic", "prog", "svc_intrinsic")  # answered by a definition rendered as DSDL text, not by the built object


class LayoutSuite(common.Suite):
    name = "layout"

    def generate(self, rng, n, prop, tier):
        return [gen_case(rng, prop) for _ in range(n)]

    def corpus(self, prop):
        u8 = ["prim", 8, "uintsat"]
        return [
            {"ty": ["struct", [["prim", 3, "uintsat"], ["varr", ["struct", [u8]], 300], ["void", 5]]],
             "qs": [["align"], ["extent"], ["min"], ["max"], ["mod", 32], ["offsets", [0, 4], [8, 32]], ["intrinsic", 2], ["intrinsic", 3], ["asserts"]]},
            {"ty": ["varr", u8, 255], "qs": [["lenbits"], ["max"]]},
            {"ty": ["varr", u8, 256], "qs": [["lenbits"], ["max"]]},
            {"ty": ["varr", u8, 65535], "qs": [["lenbits"]]},
            {"ty": ["varr", u8, 65536], "qs": [["lenbits"]]},
            {"ty": ["varr", u8, 2**32 - 1], "qs": [["lenbits"]]},
            {"ty": ["varr", u8, 2**32], "qs": [["lenbits"], ["max"], ["mod", 32]]},
            {"ty": ["varr", u8, 2**64 - 1], "qs": [["lenbits"], ["max"]]},
            {"ty": ["varr", u8, 2**64], "qs": []},
            {"ty": ["union", [u8] * 256], "qs": [["tagbits"], ["max"]]},
            {"ty": ["union", [u8] * 257], "qs": [["tagbits"], ["max"]]},
            {"ty": ["delim", ["struct", [["farr", ["prim", 32, "uintsat"], 2]]], 64], "qs": [["hdrbits"], ["expand"], ["extent"], ["offsets", [0], [8]]]},
            {"ty": ["union", [["varr", ["prim", 64, "uintsat"], 2], ["varr", ["prim", 32, "uintsat"], 4]]], "qs": [["expand"], ["intrinsic", 2], ["mod", 32]]},
            {"ty": ["struct", [["varr", ["prim", 12, "uintsat"], 2], ["struct", [u8]], ["prim", 4, "uintsat"]]], "qs": [["expand"], ["offsets", [0], [8]], ["intrinsic", 3]]},
            {"ty": ["struct", [["prim", 1, "bool"], ["farr", ["struct", [u8, u8]], 2], u8]], "qs": [["expand"], ["offsets", [0], [8]], ["offsets", [1], [8]]]},
        ]

    def exhaustive(self, prop, part, parts):
        """Small scope, complete (thorough tier): every type tree of depth <= 2 over the primitive alphabet
        {bool, uint3, uint8, uint64}, capacities {1, 2, 255, 256}, structures / unions of one or two members,
        delimited wrappers with the minimal extent and one byte more."""
        prims = [["prim", 1, "bool"], ["prim", 3, "uintsat"], ["prim", 8, "uintsat"], ["prim", 64, "uintsat"]]
        caps = [1, 2, 255, 256]

        def arrays(xs):
            return [[k, x, c] for x in xs for k in ("farr", "varr") for c in caps]

        def ext_of(inner, extra):
            nodes: list = []
            mx = B.o_max(nodes, s_nodes(strip(inner), nodes))
            return -(-mx // 8) * 8 + extra

        l1_comp = [["struct", [p]] for p in prims] + [["struct", [p, q]] for p in prims for q in prims] + [["union", [p, q]] for p in prims for q in prims]
        l1 = arrays(prims) + l1_comp
        l2 = arrays(l1_comp) + arrays(arrays(prims[:2])[:8])
        l2 += [["struct", [x, prims[1]]] for x in l1] + [["struct", [prims[1], x]] for x in l1] + [["union", [x, prims[2]]] for x in l1]
        l2 += [["delim", x, ext_of(x, e)] for x in l1_comp for e in (0, 8)]
        l2 += [["struct", [prims[0], ["delim", x, ext_of(x, 0)], prims[1]]] for x in l1_comp[:12]]
        trees = l1 + l2
        rng = random.Random(12345)
        out = []
        for idx, t in enumerate(trees):
            c = make_queries(rng, t, prop)  # consumes the PRNG for every tree so that all parts see the same queries
            if idx % parts != part or c is None:
                continue
            out.append(c)
        return out

    def run_impl(self, case):
        pydsdl = common.import_pydsdl()
        t = case["ty"]
        if case.get("warm") is not None:
            try:
                wt = build_impl(pydsdl, case["warm"], _Names())
                sorted(wt.bit_length_set % 32)
                hash(wt)
            except Exception:
                pass
        try:
            ty = build_impl(pydsdl, t, _Names())
        except pydsdl.InvalidDefinitionError as ex:
            return {"res": "rejected", "soft_cls": type(ex).__name__}
        except Exception as ex:
            return {"res": "exc:" + type(ex).__name__, "soft_msg": str(ex)[:200]}
        out: list = []
        intr = [q[1] for q in case["qs"] if q[0] == "intrinsic"]
        intr_res: dict = {}
        if intr:
            try:
                intr_res = intrinsic_impl(pydsdl, t, intr)
            except Exception as ex:
                intr_res = {"error": "%s: %s" % (type(ex).__name__, str(ex)[:300])}

        def answers(obj, qs):
            o: list = []
            for q in qs:
                try:
                    o.append(self.ask(pydsdl, obj, t, q, intr_res))
                except Exception as ex:
                    o.append("exc:%s" % type(ex).__name__)
            return o

        img = case.get("img")
        ty0 = ty
        soft_img = None
        if img:
            direct = [q for q in case["qs"] if q[0] not in TEXT_QUERIES]
            if img.get("warm"):
                answers(ty0, direct)
            try:
                ty = image(ty0, img["ops"])
            except Exception as ex:  # not a layout matter: the original is queried instead
                soft_img = "failed:%s" % type(ex).__name__
        out = answers(ty, case["qs"])
        res = {"res": "ok", "out": out}
        if img:
            res["orig"] = answers(ty0, direct)  # the original, after its image was taken and queried
            if soft_img:
                res["soft_img"] = soft_img
        if "pool" in case:
            try:
                res["sout"] = pool_impl(self, pydsdl, case["pool"])
            except Exception as ex:
                res["sout"] = "exc:%s: %s" % (type(ex).__name__, str(ex)[:200])
        return res

    def ask(self, pydsdl, ty, t, q, intr_res):
        k = q[0]
        b = ty.bit_length_set
        if k == "align":
            return ty.alignment_requirement
        if k == "extent":
            return ty.extent if isinstance(ty, pydsdl.CompositeType) else b.max
        if k == "min":
            return b.min
        if k == "max":
            return b.max
        if k == "fixed":
            return bool(b.fixed_length)
        if k == "mod":
            return sorted(b % q[1])
        if k == "aligned":
            return bool(b.is_aligned_at(q[1]))
        if k == "expand":
            return sorted(b)
        if k == "lenbits":
            return ty.length_field_type.bit_length
        if k == "tagbits":
            return (ty.inner_type if isinstance(ty, pydsdl.DelimitedType) else ty).tag_field_type.bit_length
        if k == "hdrbits":
            return ty.delimiter_header_type.bit_length
        if k == "asserts":
            return True  # constructing the type ran the constructor asserts
        if k == "offsets":
            base = pydsdl.BitLengthSet(q[1])
            res = []
            fields = []
            for f, o in ty.iterate_fields_with_offsets(base):
                fields.append(f)
                res.append(summarize(o, q[2]))
            if [f.name for f in fields] != [f.name for f in ty.fields]:
                return "fields-not-in-order"
            return res
        if k == "elemoffsets":
            base = pydsdl.BitLengthSet(q[1])
            res = []
            idx = []
            for i, o in ty.enumerate_elements_with_offsets(base):
                idx.append(i)
                res.append(summarize(o, q[2]))
            if idx != list(range(ty.capacity)):
                return "elements-not-in-order"
            return res
        if k == "xoffsets":
            return [sorted(o) for _, o in ty.iterate_fields_with_offsets(pydsdl.BitLengthSet(q[1]))]
        if k == "prog":
            return prog_impl(pydsdl, t, q[1], q[2], q[3], q[4] if len(q) > 4 else "")
        if k == "svc_intrinsic":
            return svc_intrinsic_impl(pydsdl, t, q[1], q[2])
        if k == "intrinsic":
            if "error" in intr_res:
                return "exc:" + intr_res["error"]
            j = q[1]
            if j not in intr_res:
                return "skipped"
            prints = intr_res[j]
            off = [s for (_, _, s) in prints[:1]]
            rest = [s for (_, _, s) in prints[1:]]
            if len(prints) != 3:
                return "prints:%r" % (prints,)
            if parse_set(rest[0]) != sorted(ty.bit_length_set) or int(rest[1]) != ty.extent:
                return "intrinsic-mismatch: _bit_length_=%s _extent_=%s api=%s/%s" % (rest[0][:80], rest[1], sorted(ty.bit_length_set)[:12], ty.extent)
            return parse_set(off[0])
        raise ValueError(k)

    def model_case(self, case):
        qs = [[q[0], q[1], strip(q[2])] if q[0] == "svc_intrinsic" else q for q in case["qs"]]
        qs = [[q[0], q[1], None if q[2] is None else strip(q[2])] + q[3:] if q[0] == "prog" else q for q in qs]
        mc = {"id": case["id"], "ty": strip(case["ty"]), "qs": qs}
        if "pool" in case:
            mc["script"] = [[st, q] for _, st, q in pool_steps(case["pool"])]
        return mc

    def compare(self, case, impl, model, prop):
        if impl.get("res") != model.get("res"):
            return "impl res=%s model res=%s" % (impl.get("res"), model.get("res"))
        if impl.get("res") != "ok":
            return None
        for q, a, b in zip(case["qs"], impl["out"], model["out"]):
            if a == "skipped":
                continue
            if a != b:
                return "query %s: impl=%s model=%s" % (q, B._short(a), B._short(b))
        if "pool" in case:
            if impl.get("sout") != model.get("sout"):
                return "history answers: impl=%s model=%s" % (B._short(impl.get("sout")), B._short(model.get("sout")))
        return None

    def oracle(self, case, impl, prop):
        st = strip(case["ty"])
        valid = s_valid(st)
        if impl.get("res", "").startswith("exc:"):
            return "constructor raised %s (%s) instead of accepting / rejecting with InvalidDefinitionError" % (impl["res"], impl.get("soft_msg"))
        if not valid:
            return None if impl["res"] == "rejected" else "type violating the layout rules was accepted: %s" % (st,)
        if impl["res"] != "ok":
            return "valid type rejected (%s): %s" % (impl.get("soft_cls"), st)
        ctx: dict = {}
        if len(impl.get("out", [])) != len(case["qs"]):
            return "implementation outcome has %d answers for %d queries" % (len(impl.get("out", [])), len(case["qs"]))
        for q, a in zip(case["qs"], impl["out"]):
            if a == "skipped":
                continue
            known, exp = spec_answer(st, q, ctx)
            if known and a != exp:
                return "query %s on %s%s: implementation answered %s, the Specification's layout gives %s" % (
                    q, B._short(st), _img_text(case), B._short(a), B._short(exp))
        if case.get("img"):
            direct = [q for q in case["qs"] if q[0] not in TEXT_QUERIES]
            orig = impl.get("orig")
            if not isinstance(orig, list) or len(orig) != len(direct):
                return "implementation outcome has no answers of the original object of an image case"
            for q, a in zip(direct, orig):
                known, exp = spec_answer(st, q, ctx)
                if known and a != exp:
                    return "query %s on %s (the ORIGINAL object, after its image under %s was taken and queried): implementation answered %s, the Specification's layout gives %s" % (
                        q, B._short(st), "+".join(case["img"]["ops"]), B._short(a), B._short(exp))
        if "pool" in case:
            return pool_oracle(case["pool"], impl)
        return None

    def signature(self, case, desc, prop):
        if desc.startswith("query"):
            return "layout/wrong-answer/" + desc.split("'")[1]
        if desc.startswith("history step"):
            return "layout/history/" + desc.split("'")[1]
        if desc.startswith("history:"):
            return "layout/history/pool-not-built"
        return "layout/" + desc.split(":")[0].split("(")[0].strip()[:50]

    def shrink(self, case):
        t = case["ty"]
        qs = case["qs"]
        if "pool" in case:
            pool = case["pool"]
            sc = pool["script"]
            pimg = pool.get("img")
            if pimg:
                yield {"ty": t, "qs": qs, "pool": {k: v for k, v in pool.items() if k != "img"}}
                for k_ in sorted(pimg.get("each", {})):
                    yield {"ty": t, "qs": qs, "pool": dict(pool, img=dict(pimg, each={a: b for a, b in pimg["each"].items() if a != k_}))}
                for k_, ops in sorted(pimg.get("each", {}).items()):
                    if len(ops) > 1:
                        yield {"ty": t, "qs": qs, "pool": dict(pool, img=dict(pimg, each=dict(pimg["each"], **{k_: ops[:1]})))}
            for i in range(len(sc)):
                if len(sc) > 1:
                    yield {"ty": t, "qs": qs, "pool": dict(pool, script=sc[:i] + sc[i + 1:])}
            for i in pool["probe"]:
                yield {"ty": t, "qs": qs, "pool": dict(pool, probe=[x for x in pool["probe"] if x != i])}
            last = len(pool["defs"]) - 1
            if last > 0 and last not in pool["probe"] and all(p[0] != last for p, _ in sc):
                defs2 = pool["defs"][:last]
                yield {"ty": resolve_refs(defs2, defs2[-1]), "qs": qs, "pool": dict(pool, defs=defs2)}
            return
        extra = {k: case[k] for k in ("img",) if k in case}
        if "img" in case:
            img = case["img"]
            yield {k: v for k, v in case.items() if k not in ("img", "id")}
            if img.get("warm"):
                yield dict(case, img=dict(img, warm=False))
            if len(img["ops"]) > 1:
                for j in range(len(img["ops"])):
                    yield dict(case, img=dict(img, ops=img["ops"][:j] + img["ops"][j + 1:]))
        for i in range(len(qs)):
            if len(qs) > 1:
                yield dict({"ty": t, "qs": qs[:i] + qs[i + 1:]}, **extra)
        for t2 in (shrink_ty(t) if extra else []):
            c = make_queries_for_shrunk(t2, qs)
            if c is not None:
                yield dict(c, **extra)
        if extra:
            return
        for i, q in enumerate(qs):
            if q[0] != "prog":
                continue
            if q[2] is not None:
                yield {"ty": t, "qs": qs[:i] + [["prog", q[1], None, ""] + q[4:]] + qs[i + 1:]}
            if len(q) > 4 and q[4]:
                yield {"ty": t, "qs": qs[:i] + [q[:4] + [""]] + qs[i + 1:]}
            for which in (1, 3):
                plan = q[which]
                for c in range(len(plan)):
                    if plan[c] != "f":
                        q2 = list(q)
                        q2[which] = plan[:c] + plan[c + 1:]
                        yield {"ty": t, "qs": qs[:i] + [q2] + qs[i + 1:]}
        for t2 in shrink_ty(t):
            c = make_queries_for_shrunk(t2, qs)
            if c is not None:
                yield c

    def features(self, case, impl):
        yield "res:" + str(impl.get("res"))
        yield "top:" + case["ty"][0]
        for k in kinds(case["ty"]):
            yield "has:" + k
        for q in case["qs"]:
            yield "q:" + q[0]
            if q[0] == "prog":
                yield from prog_features(case["ty"], q)
        yield "depth:%d" % tdepth(case["ty"])
        if "warm" in case:
            yield "class:lookalike-warm"
        if case.get("img"):
            yield from img_features(case["img"])
        if "pool" in case:
            yield from pool_features(case["pool"])
            if case["pool"].get("img"):
                yield from img_features(case["pool"]["img"], case["pool"])

    def nontrivial(self, case, impl):
        return impl.get("res") == "ok" and len(case["qs"]) > 0 and tdepth(case["ty"]) >= 1


def _img_text(case) -> str:
    img = case.get("img")
    if not img:
        return ""
    return " (asked of the IMAGE of the built type under %s%s)" % ("+".join(img["ops"]), ", original queried before" if img.get("warm") else "")


def img_features(img, pool=None):
    def ops_f(ops):
        for op in ops:
            yield "img:op=" + ("pickle" if op.startswith("pickle") else op)
        if len(ops) > 1:
            yield "img:chain"
    if pool is None:
        yield "class:image"
        yield "img:original-queried-first" if img.get("warm") else "img:original-untouched"
        yield from ops_f(img["ops"])
        return
    yield "class:pool-images"
    if img.get("whole"):
        yield "img:pool-whole-model"
        yield from ops_f(img["whole"])
    for _, ops in sorted(img.get("each", {}).items()):
        yield "img:pool-definition-imaged-" + ("when-built" if pool["mode"] == "ctor" else "after-reading")
        yield from ops_f(ops)
    for _, q in pool["script"]:
        if q[0] == "reimage":
            yield "img:pool-reimage-between-queries"
            yield from ops_f(q[1])


def prog_features(t, q):
    """Which `_offset_` evaluation patterns a definition program contains."""
    sections = [(t, q[1])] + ([(q[2], q[3])] if q[2] is not None else [])
    yield "prog:service" if q[2] is not None else "prog:message"
    if len(q) > 4 and "n" in q[4] and any(k in ("struct", "union", "delim") for f in section_of(t)[1] for k in kinds(f)):
        yield "prog:members-evaluate-offset-too"
    for sec, plan in sections:
        is_union, fs = section_of(sec)
        n = sum(plan.count(c) for c in PROBE_CHARS)
        yield "prog:section-union" if is_union else "prog:section-struct"
        yield "prog:evaluations=%s" % (n if n < 4 else "4+")
        if plan and plan[0] in PROBE_CHARS:
            yield "prog:probe-at-start"
        if plan and plan[-1] in PROBE_CHARS:
            yield "prog:probe-at-end"
        if "u" in plan:
            yield "prog:two-evaluations-in-one-expression"
        # what lies between two consecutive evaluations
        i = 0
        last = None
        between: typing.List[str] = []
        for ch in plan:
            if ch in PROBE_CHARS:
                if last is not None:
                    kinds_ = set(between)
                    if not kinds_:
                        yield "prog:between=nothing"
                    elif kinds_ <= {"void"}:
                        yield "prog:between=padding-only"
                    elif kinds_ <= {"c", "d", "b"}:
                        yield "prog:between=constants/comments-only"
                    elif "field" in kinds_ and "void" in kinds_:
                        yield "prog:between=fields+padding"
                    elif "field" in kinds_:
                        yield "prog:between=fields"
                    else:
                        yield "prog:between=padding+constants"
                last = ch
                between = []
            elif ch == "f":
                between.append("void" if fs[i][0] == "void" else "field")
                i += 1
            else:
                between.append(ch)


def pool_features(pool):
    yield "class:pool-" + pool["mode"]
    yield "pool:style=" + pool["style"]
    yield "pool:defs=%d" % len(pool["defs"])
    yield "pool:steps=%s" % (len(pool["script"]) // 4 * 4)
    if pool["probe"]:
        yield "pool:offset-printed-in-definition"
    defs = pool["defs"]

    def refs_in(t):
        if t[0] == "ref":
            yield t[1]
        elif t[0] in ("farr", "varr", "delim"):
            yield from refs_in(t[1])
        elif t[0] in ("struct", "union"):
            for f in t[1]:
                yield from refs_in(f)
    users: dict = {}
    for i, d in enumerate(defs):
        for r in set(refs_in(d)):
            users.setdefault(r, set()).add(i)
    if any(len(u) >= 2 for u in users.values()):
        yield "pool:object-shared-by-2+-definitions"
    if users:
        yield "pool:has-shared-object"
    seen_expanded: set = set()
    first_touch: dict = {}
    for n, (pth, q) in enumerate(pool["script"]):
        yield "sq:" + q[0]
        yield "target:" + ("definition" if len(pth) == 1 else "member")
        first_touch.setdefault(pth[0], n)
        if q[0] in ("expand", "xoffsets"):
            # a member / used definition expanded after one of its users was expanded
            if len(pth) > 1 and (pth[0],) in seen_expanded:
                yield "pool:member-expanded-after-aggregate"
            if len(pth) == 1 and any((u,) in seen_expanded for u in users.get(pth[0], ())):
                yield "pool:used-definition-expanded-after-user"
            if len(pth) == 1 and any(tuple(p) in seen_expanded for p, _ in pool["script"][:n] if len(p) > 1 and p[0] == pth[0]):
                yield "pool:aggregate-expanded-after-member"
            seen_expanded.add(tuple(pth))
    if pool["mode"] == "ctor" and any(n > 0 and any(r in first_touch and first_touch[r] < n for r in set(refs_in(defs[i]))) for i, n in first_touch.items()):
        yield "pool:type-built-on-already-queried-object"


def nested_arrays(t) -> bool:
    """Arrays of arrays cannot be spelled in DSDL text (only through the constructors)."""
    k = t[0]
    if k in ("farr", "varr"):
        return t[1][0] in ("farr", "varr") or nested_arrays(t[1])
    if k == "delim":
        return nested_arrays(t[1])
    if k in ("struct", "union"):
        return any(nested_arrays(f) for f in t[1])
    return False


def kinds(t):
    k = t[0]
    yield k
    if k == "prim":
        return
    if k in ("farr", "varr", "delim"):
        if k != "delim" and t[2] >= 2**16:
            yield "huge-capacity"
        yield from kinds(t[1])
    elif k in ("struct", "union"):
        for f in t[1]:
            yield from kinds(f)


def tdepth(t):
    k = t[0]
    if k in ("prim", "void"):
        return 0
    if k in ("farr", "varr", "delim"):
        return 1 + tdepth(t[1])
    return 1 + max([tdepth(f) for f in t[1]] + [0])


def shrink_ty(t):
    k = t[0]
    if k in ("farr", "varr"):
        yield t[1] if t[1][0] in ("struct", "union", "delim") else ["struct", [t[1]]]
        if t[2] > 1:
            yield [k, t[1], t[2] // 2]
            yield [k, t[1], t[2] - 1]
        for e in shrink_ty(t[1]):
            yield [k, e, t[2]]
    elif k in ("struct", "union"):
        fs = t[1]
        for i in range(len(fs)):
            yield [k, fs[:i] + fs[i + 1:]]
        for i, f in enumerate(fs):
            for f2 in shrink_ty(f):
                yield [k, fs[:i] + [f2] + fs[i + 1:]]
    elif k == "delim":
        yield t[1]
        for i2 in shrink_ty(t[1]):
            yield ["delim", i2, t[2]]
    elif k == "prim" and t[1] > 1 and t[2].startswith("uint"):
        yield ["prim", 8, "uintsat"]


def make_queries_for_shrunk(t, qs):
    st = strip(t)
    try:
        if not s_valid(st):
            return {"ty": t, "qs": []}
    except Exception:
        return None
    keep = []
    nf = len(st[1] if st[0] in ("struct", "union") else (st[1][1] if st[0] == "delim" else []))
    for q in qs:
        k = q[0]
        if k == "lenbits" and st[0] != "varr":
            continue
        if k == "tagbits" and not (st[0] == "union" or (st[0] == "delim" and st[1][0] == "union")):
            continue
        if k == "hdrbits" and st[0] != "delim":
            continue
        if k == "offsets" and st[0] not in ("struct", "union", "delim"):
            continue
        if k == "elemoffsets" and (st[0] != "farr" or st[2] > 12):
            continue
        if k == "intrinsic":
            if st[0] not in ("struct", "union", "delim") or q[1] > nf:
                continue
        if k == "prog":
            if st[0] not in ("struct", "union", "delim") or nested_arrays(st):
                continue
            is_union, fs1 = section_of(st)
            if q[1].count("f") != len(fs1):
                # keep the statements, re-place the (fewer) fields: drop the surplus field statements from the end
                plan, surplus = list(q[1]), q[1].count("f") - len(fs1)
                if surplus < 0:
                    continue
                for c in range(len(plan) - 1, -1, -1):
                    if surplus and plan[c] == "f":
                        del plan[c]
                        surplus -= 1
                q = ["prog", "".join(plan)] + q[2:]
            if is_union and "f" in q[1][min([q[1].index(c) for c in PROBE_CHARS if c in q[1]] or [len(q[1])]):]:
                continue
        if k == "svc_intrinsic":
            inner1 = st[1] if st[0] == "delim" else st
            if inner1[0] != "struct" or q[1] > len(inner1[1]) or nested_arrays(st):
                continue
        keep.append(q)
    return {"ty": t, "qs": keep} if keep else None


SUITE = LayoutSuite()
