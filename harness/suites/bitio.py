"""
Suite `bitio` (C06, C07): operation sequences on the private `_BitWriter` / `_BitReader` of pydsdl/_serdes.py —
writes of every width at every offset (aligned fast path, bit-wise slow path, values wider than the field),
alignment, reads of every width over random data, bounded sub-readers (nested, with limits before / at / beyond the
end of the data), remaining_bits.

Case: {"wops": [["w", value, n] | ["align", a] | ["finish"]], "data": [bytes], "rops": [["r", n] | ["align", a] |
       ["remaining"] | ["sub", k, [rops]]]}
Oracle: plain bit lists — a writer appends the n low bits (LSB first), the result is the bits zero-padded to a
byte; a reader delivers the next n bits of the data truncated at the innermost limit and extended with zeros.
"""
from __future__ import annotations

import importlib
import random

import common


def gen_wops(rng):
    ops = []
    for _ in range(rng.randint(1, 12)):
        x = rng.random()
        if x < 0.75:
            n = rng.choice([1, 1, 2, 3, 5, 7, 8, 8, 9, 12, 15, 16, 17, 24, 31, 32, 33, 40, 63, 64, 64, rng.randint(0, 80), 100])
            v = rng.getrandbits(n) if n else 0
            if rng.random() < 0.15:
                v = rng.getrandbits(n + 7)  # wider than the field: only the low bits are written
            if rng.random() < 0.1:
                v = (1 << n) - 1 if n else 0
            ops.append(["w", v, n])
        else:
            ops.append(["align", rng.choice([0, 1, 2, 8, 8, 8, 16, 32, 64, 3])])
    ops.append(["finish"])
    return ops


def gen_rops(rng, depth=0):
    ops = []
    for _ in range(rng.randint(1, 8 if depth == 0 else 4)):
        x = rng.random()
        if x < 0.6:
            ops.append(["r", rng.choice([0, 1, 1, 2, 3, 7, 8, 8, 9, 12, 16, 17, 24, 32, 33, 40, 64, 64, rng.randint(0, 80)])])
        elif x < 0.72:
            ops.append(["align", rng.choice([0, 1, 8, 8, 16, 32, 64])])
        elif x < 0.82:
            ops.append(["remaining"])
        elif depth < 3:
            ops.append(["sub", rng.choice([0, 1, 5, 8, 8, 13, 16, 24, 32, 64, 100, rng.randint(0, 200)]), gen_rops(rng, depth + 1)])
        else:
            ops.append(["r", 8])
    return ops


# ------------------------------------------------------------------------------- oracle (bit lists)

def o_writer(ops):
    bits: list = []
    out = []
    for op in ops:
        if op[0] == "w":
            bits += [(op[1] >> i) & 1 for i in range(op[2])]
            out.append(len(bits))
        elif op[0] == "align":
            a = op[1]
            if a > 0 and len(bits) % a:
                bits += [0] * (a - len(bits) % a)
            out.append(len(bits))
        else:
            padded = bits + [0] * (-len(bits) % 8)
            out.append([sum(b << i for i, b in enumerate(padded[k:k + 8])) for k in range(0, len(padded), 8)])
    return out


class OReader:
    def __init__(self, bits, off, end):
        self.bits, self.off, self.end = bits, off, end  # `end`: absolute position where zero extension sets in

    def run(self, ops):
        out = []
        for op in ops:
            if op[0] == "r":
                n = op[1]
                v = 0
                for i in range(n):
                    p = self.off + i
                    if p < self.end and p < len(self.bits):
                        v |= self.bits[p] << i
                self.off += n
                out.append([v, self.off])
            elif op[0] == "align":
                a = op[1]
                if a > 0 and self.off % a:
                    self.off += a - self.off % a
                out.append(self.off)
            elif op[0] == "remaining":
                out.append(max(0, self.end - self.off))
            else:
                k = op[1]
                # the sub-reader sees k bits from here; data beyond ITS limit reads as zero. (The library's sub-reader
                # reads the parent's underlying buffer, not the parent's window: a nested limit is not clipped by
                # the outer one. The wire decoder never asks for more than remaining_bits, see _serdes.py.)
                sub = OReader(self.bits, self.off, self.off + k)
                sub.is_sub = True
                out.append(sub.run(op[2]))
                self.off += k
        return out


def o_reader(data, ops):
    bits = [(b >> i) & 1 for b in data for i in range(8)]
    r = OReader(bits, 0, len(bits))
    return r.run(ops)


def o_remaining_fix(data, ops):
    return o_reader(data, ops)


# ------------------------------------------------------------------------------- implementation side

def run_reader(reader, ops):
    out = []
    for op in ops:
        if op[0] == "r":
            v = reader.read_bits(op[1])
            out.append([v, reader.bit_offset])
        elif op[0] == "align":
            reader.align_to(op[1])
            out.append(reader.bit_offset)
        elif op[0] == "remaining":
            out.append(reader.remaining_bits)
        else:
            sub = reader.bounded_subreader(op[1])
            out.append(run_reader(sub, op[2]))
    return out


class BitIOSuite(common.Suite):
    name = "bitio"

    def generate(self, rng, n, prop, tier):
        out = []
        for _ in range(n):
            data = [rng.getrandbits(8) for _ in range(rng.choice([0, 1, 2, 3, 4, 8, 9, 16, rng.randint(0, 24)]))]
            if rng.random() < 0.15:
                data = [rng.choice([0, 255]) for _ in data]
            out.append({"wops": gen_wops(rng), "data": data, "rops": gen_rops(rng)})
        return out

    def corpus(self, prop):
        return [
            {"wops": [["w", 5, 3], ["w", 43981, 16], ["align", 8], ["w", 255, 8], ["finish"]], "data": [171, 205, 1],
             "rops": [["r", 3], ["r", 16], ["remaining"], ["sub", 5, [["r", 3], ["r", 8], ["remaining"]]], ["r", 8]]},
            {"wops": [["w", 1, 1], ["w", (1 << 40) - 1, 40], ["finish"]], "data": [255] * 6,
             "rops": [["r", 1], ["r", 40], ["r", 40]]},
            {"wops": [["w", 2**64 - 1, 64], ["w", 1, 1], ["align", 8], ["w", 0xABCD, 16], ["finish"]], "data": [1, 2, 3, 4, 5, 6, 7, 8, 9],
             "rops": [["sub", 16, [["r", 8], ["sub", 8, [["r", 16], ["remaining"]]], ["r", 8]]], ["r", 64]]},
            {"wops": [["finish"]], "data": [], "rops": [["r", 8], ["remaining"], ["sub", 0, [["r", 9]]], ["r", 0]]},
        ]

    def run_impl(self, case):
        common.import_pydsdl()
        sd = importlib.import_module("pydsdl._serdes")
        try:
            w = sd._BitWriter()
            wout = []
            for op in case["wops"]:
                if op[0] == "w":
                    w.write_bits(op[1], op[2])
                    wout.append(w.bit_offset)
                elif op[0] == "align":
                    w.align_to(op[1])
                    wout.append(w.bit_offset)
                else:
                    wout.append(list(w.finish()))
            r = sd._BitReader(bytes(case["data"]))
            rout = run_reader(r, case["rops"])
        except Exception as ex:
            return {"exc": type(ex).__name__, "soft": str(ex)[:200]}
        return {"w": wout, "r": rout}

    def compare(self, case, impl, model, prop):
        if "exc" in impl:
            return "implementation raised %s" % impl["exc"]
        if impl["w"] != model["w"]:
            return "writer: impl=%s model=%s" % (str(impl["w"])[:300], str(model["w"])[:300])
        if impl["r"] != model["r"]:
            return "reader: impl=%s model=%s" % (str(impl["r"])[:300], str(model["r"])[:300])
        if not model.get("wok"):
            return "writer invariant (buffer = written bits padded to a byte) does not hold in the model"
        return None

    def oracle(self, case, impl, prop):
        if "exc" in impl:
            return "bit I/O raised %s: %s" % (impl["exc"], impl.get("soft"))
        ew = o_writer(case["wops"])
        if impl["w"] != ew:
            return "writer: offsets / bytes %s, appending the low bits gives %s" % (str(impl["w"])[:300], str(ew)[:300])
        er = o_reader(case["data"], case["rops"])
        if impl["r"] != er:
            return "reader: %s, the zero-extended limit-truncated stream gives %s" % (str(impl["r"])[:300], str(er)[:300])
        return None

    def signature(self, case, desc, prop):
        return "bitio/" + desc.split(":")[0]

    def shrink(self, case):
        for key in ("wops", "rops"):
            ops = case[key]
            for i in range(len(ops)):
                if ops[i][0] == "finish":
                    continue
                c = dict(case)
                c[key] = ops[:i] + ops[i + 1:]
                yield c
        if case["data"]:
            c = dict(case)
            c["data"] = case["data"][:-1]
            yield c

    def features(self, case, impl):
        off = 0
        for op in case["wops"]:
            if op[0] == "w":
                yield "w:" + ("fast" if off % 8 == 0 and op[2] >= 8 else "slow")
                off += op[2]
            elif op[0] == "align" and op[1] > 0 and off % op[1]:
                off += op[1] - off % op[1]
        for op in case["rops"]:
            yield "r:" + op[0]

    def nontrivial(self, case, impl):
        return len(case["wops"]) > 1 and len(case["rops"]) > 0


SUITE = BitIOSuite()
