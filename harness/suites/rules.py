"""
Suite `rules` (C05): a valid skeleton definition (message or service, structure or union, with dependencies) plus
0..n rule violations placed anywhere, both sides of every numeric boundary.

Case
  {"header": {"ns": [root, sub...], "short": name, "major": n, "minor": n, "port": n|null, "allow": bool},
   "stmts": [STMT...]}
STMT  ["field", TY, name] | ["padding", w] | ["const", TY, name] | ["union"] | ["deprecated"] | ["sealed"] |
      ["extent", e] | ["marker"]
TY    ["s", SC] | ["fa", SC, cap] | ["va", SC, cap]           (fixed / variable-length array, cap = capacity)
SC    ["bool"] | ["byte"] | ["utf8"] | ["uint", w, "s"|"t"] | ["int", w, c] | ["float", w, c] | ["void", w] |
      ["comp", deprecated, service, max bits]                 (a referenced definition of the lookup namespace `dep`)
ARG   an argument position (the extent `e`, an array capacity `cap`, or a second element of ["sealed"|"union"|"deprecated", ARG],
      directives that take no expression) holds either a plain integer or a constant expression of ANY kind of value:
      ["x", kind, payload, spelling(, "lt")]   kind = "int" (payload n: an integer written in an unusual way, e.g. `24 * 8 / 3`, `64.0`,
      `0x40`), "q" ([p, q]: the non-integer rational p/q, written `p / q`, as a decimal real, with `** -1` ...), "bool", "str", "set"
      ([n...]), "type" (a type expression); "lt" renders a variable-length capacity as `[<EXPR]` (capacity = value - 1)

   optional "history": [{"header": ..., "stmts": ...}...]  definitions read EARLIER IN THE SAME PROCESS (each from a namespace
   directory of its own), in this order, before the definition of the case itself; "seq": how the sequence was built

   optional "route": "ctor" - the definition is not written to a file but built through the PUBLIC CONSTRUCTORS of the model classes
   (Field / PaddingField / Constant, StructureType / UnionType / DelimitedType / ServiceType), the way a tool that synthesises types
   does; every name then reaches the library exactly as given (an attribute name with a line feed in it cannot be written in DSDL
   text, a file or directory name with one can exist); optional "entry": "files" - read with `read_files` instead of `read_namespace`

Outcome {"res": "ok" | "invalid" | "internal" | "foreign:<cls>", "soft_cls": ..., "history": [res of every earlier read]}

The case is rendered to files (target root namespace directory named after header.ns[0]; referenced definitions are
written to a second root namespace `dep`) and read with `pydsdl.read_namespace`.
Oracle: the static rules of the property text evaluated on the abstract definition (`rules_ok` below), independent of
the Lean model and of the library.  The rules speak about one definition: the verdict on every definition of a sequence
must be what it is in a fresh process, whatever was accepted or rejected before (near-identical twins in both orders:
the valid skeleton and its mutant, a name and its look-alike - other letter case, a non-ASCII character that lower(),
upper(), casefold(), NFKC/NFKD or int() turn into the ASCII character, an invisible or blank character added).
"""
from __future__ import annotations

import copy
import random
import shutil
import tempfile
import typing
from pathlib import Path

import common

RESERVED_WORDS = ["truncated", "saturated", "true", "false", "bool", "optional", "aligned", "const", "struct", "super", "template",
                  "enum", "self", "and", "or", "not", "auto", "type", "con", "prn", "aux", "nul"]
KELVIN = "K"

# ------------------------------------------------------------------------------------------------- declarative rules (oracle)

ASCII_LETTERS = "abcdefghijklmnopqrstuvwxyzABCDEFGHIJKLMNOPQRSTUVWXYZ"
DIGITS = "0123456789"


def _digits(s: str) -> bool:
    return all(c in DIGITS for c in s)


def reserved(name: str) -> bool:
    """Reserved words and patterns, case-insensitively (ASCII)."""
    n = "".join(chr(ord(c) + 32) if "A" <= c <= "Z" else c for c in name)
    if n in RESERVED_WORDS:
        return True
    for pre in ("void", "uint", "int", "float"):
        if n.startswith(pre) and _digits(n[len(pre):]):
            return True
    for pre in ("uq", "q"):
        if n.startswith(pre):
            a, sep, b = n[len(pre):].partition("_")
            if sep and a and b and _digits(a) and _digits(b):
                return True
    for pre in ("com", "lpt"):
        if n.startswith(pre) and len(n) == len(pre) + 1 and n[-1] in DIGITS:
            return True
    if len(n) >= 2 and n[0] == "_" and n[-1] == "_":
        return True
    return False


def name_ok(name: str) -> bool:
    if not name or name[0] not in ASCII_LETTERS + "_":
        return False
    if any(c not in ASCII_LETTERS + DIGITS + "_" for c in name):
        return False
    return not reserved(name)


# An argument position holds a plain integer or ["x", kind, payload, spelling(, "lt")]: a constant expression of any kind of value.
TYPE_EXPRS = ["uint8", "float32", "bool", "uint8[2]", "truncated uint3", "int8[<=8]", "saturated float64", "byte[4]"]


def is_x(v) -> bool:
    return isinstance(v, list)


def x_int(v) -> typing.Optional[int]:
    """The integer an argument denotes; None when its value is not an integer (a non-integer rational, a boolean, a string,
    a set, a type)."""
    if not is_x(v):
        return v
    return v[2] if v[1] == "int" else None


def x_kind(v) -> str:
    if not is_x(v):
        return "plain"
    if v[1] == "int":
        return "int-spelled-%d" % (v[3] % 8)
    return v[1]


def _decimal(p: int, q: int) -> typing.Optional[str]:
    """p/q as a finite decimal real literal (q > 1, p >= 0), if it has one of at most 12 fractional digits."""
    for k in range(1, 13):
        if (10 ** k) % q == 0:
            n = p * (10 ** k // q)
            digits = str(n).rjust(k + 1, "0")
            return digits[:-k] + "." + digits[-k:]
    return None


def x_text(v) -> str:
    """The DSDL expression text of an argument (its value is the payload by construction of the spellings)."""
    if not is_x(v):
        return str(v)
    kind, pl, sp = v[1], v[2], v[3]
    if kind == "int":
        n = pl
        a = abs(n)
        sign = "-" if n < 0 else ""
        forms = [str(n), sign + hex(a), "(%d)" % n if n >= 0 else "(-%d)" % a, "%d * 1" % n, "%d / 2" % (2 * n), sign + "%d.0" % a,
                 "%d / 3" % (3 * n), "%d + 1 - 1" % n, sign + "0b" + bin(a)[2:], "%d * 8 / 8" % n, sign + "%de0" % a, "%d / 7 * 7" % n]
        return forms[sp % len(forms)]
    if kind == "q":
        p, q = pl
        forms = ["%d / %d" % (p, q), "%d * %d ** -1" % (p, q), "(%d) / (%d)" % (p, q), "%d / %d + 0" % (p, q), "%d / %d" % (3 * p, 3 * q),
                 "1 / %d * (%d)" % (q, p)]
        dec = _decimal(abs(p), q)
        if dec is not None:
            forms += [("-" if p < 0 else "") + dec] * 3
        if abs(p) == 1 and q & (q - 1) == 0:
            forms += [("-(2 ** -%d)" if p < 0 else "2 ** -%d") % (q.bit_length() - 1)] * 2
        return forms[sp % len(forms)]
    if kind == "bool":
        return (["true", "1 < 2", "!false", "true || false"] if pl else ["false", "2 < 1", "!true", "true && false"])[sp % 4]
    if kind == "str":
        return ("'%s'" if sp % 2 else '"%s"') % pl
    if kind == "set":
        return "{" + ", ".join(str(n) for n in pl) + "}"
    if kind == "type":
        return pl
    raise ValueError(kind)


def cap_of(t: list) -> typing.Optional[int]:
    """The capacity an array type denotes (None: the capacity expression does not denote an integer)."""
    n = x_int(t[2])
    if n is not None and is_x(t[2]) and len(t[2]) > 4 and t[0] == "va":
        n -= 1  # written `[<EXPR]`
    return n


def g_arg(rng, around: int, step: int, huge_ok: bool = True) -> list:
    """A constant expression of a random kind of value for an argument position whose interesting integer values lie around
    `around` (in multiples of `step`)."""
    sp = rng.randrange(1 << 16)
    k = rng.choice(["int", "int", "q", "q", "q", "huge", "neg", "zero", "bool", "str", "set", "type"])
    if k == "int":
        return ["x", "int", max(0, around + step * rng.choice([-1, 0, 0, 1, 2])), sp]
    if k == "q":
        q = rng.choice([2, 2, 3, 7, 8, 10, 16, 1000])
        r = rng.choice([0, 1, 1, 5, 1000])
        base = rng.choice([around, around, around + step, 0, 8 * r, -around - step])
        p = base * q + rng.randint(1, q - 1)  # never a multiple of q: the value is not an integer
        g = _gcd(abs(p), q)
        return ["x", "q", [p // g, q // g], sp]
    if k == "huge":
        if not huge_ok:
            return ["x", "int", around + step * rng.choice([3, 100]), sp]
        return ["x", "int", rng.choice([around + step * 2 ** rng.choice([60, 61, 64, 100, 200]), 2 ** rng.choice([63, 64, 65, 128]) + rng.choice([0, 1, -1]),
                                        10 ** rng.choice([19, 20, 30])]), sp]
    if k == "neg":
        return ["x", "int", -rng.choice([1, step, around + step, 8, 64]), sp]
    if k == "zero":
        return ["x", "int", 0, sp] if rng.random() < 0.7 else ["x", "q", [rng.choice([1, -1]), rng.choice([2, 8, 1024])], sp]
    if k == "bool":
        return ["x", "bool", rng.random() < 0.5, sp]
    if k == "str":
        return ["x", "str", rng.choice(["", "a", "8", "64", "abc", " "]), sp]
    if k == "set":
        return ["x", "set", rng.choice([[8], [around], [1, 2], [8, 16], [0]]), sp]
    return ["x", "type", rng.choice(TYPE_EXPRS), sp]


def _gcd(a: int, b: int) -> int:
    while b:
        a, b = b, a % b
    return a or 1


def scalar_ok(sc: list) -> bool:
    k = sc[0]
    if k in ("bool", "byte", "utf8", "comp"):
        return True
    w = sc[1]
    if k == "uint":
        return 1 <= w <= 64
    if k == "int":
        return 2 <= w <= 64 and sc[2] == "s"
    if k == "float":
        return w in (16, 32, 64)
    if k == "void":
        return 1 <= w <= 64
    raise ValueError(k)


def type_ok(t: list) -> bool:
    if t[0] == "s":
        return scalar_ok(t[1])
    cap = cap_of(t)
    if cap is None or cap < 1:
        return False  # the capacity is an integer >= 1
    if t[0] == "va" and cap >= 1 << 64:
        return False  # the implicit length field is an unsigned integer of a legal width (at most 64 bits)
    return scalar_ok(t[1])


def sc_bits(sc: list) -> int:
    k = sc[0]
    if k == "bool":
        return 1
    if k in ("byte", "utf8"):
        return 8
    if k == "comp":
        return sc[3]
    return sc[1]


def ty_align(t: list) -> int:
    return 8 if t[1][0] == "comp" else 1


def ty_bits(t: list) -> int:
    if t[0] == "s":
        return sc_bits(t[1])
    if t[0] == "fa":
        return sc_bits(t[1]) * max(0, cap_of(t) or 0)
    cap = max(0, cap_of(t) or 0)
    bl = cap.bit_length()
    prefix = 8 if bl <= 8 else 16 if bl <= 16 else 32 if bl <= 32 else 64
    return max(prefix, ty_align(t)) + sc_bits(t[1]) * cap


def pad(a: int, x: int) -> int:
    return -(-x // a) * a


def longest(fields: typing.List[list], union: bool) -> int:
    if union:
        n = len(fields)
        bl = max(0, n - 1).bit_length()
        tag = 8 if bl <= 8 else 16 if bl <= 16 else 32 if bl <= 32 else 64
        tag = max([tag] + [ty_align(t) for t in fields])
        return pad(8, tag + max([ty_bits(t) for t in fields] + [0]))
    off = 0
    for t in fields:
        off = pad(ty_align(t), off) + ty_bits(t)
    return pad(8, off)


def placement_ok(t: list, union: bool, deprecated: bool) -> bool:
    """void only as structure padding; utf8 only as element of variable-length arrays; byte only as array element;
    a deprecated type only inside a deprecated one (also through arrays)."""
    sc = t[1]
    if sc[0] == "void" and (t[0] != "s" or union):
        return False
    if sc[0] == "utf8" and t[0] != "va":
        return False
    if sc[0] == "byte" and t[0] == "s":
        return False
    if sc[0] == "comp" and sc[1] and not deprecated:
        return False
    return True


def split_schemas(stmts: list) -> typing.List[list]:
    out: typing.List[list] = [[]]
    for s in stmts:
        if s[0] == "marker":
            out.append([])
        else:
            out[-1].append(s)
    return out


def is_attr(s: list) -> bool:
    return s[0] in ("field", "padding", "const")


def attr_type(s: list) -> list:
    return ["s", ["void", s[1]]] if s[0] == "padding" else s[1]


def uses_service(case: dict) -> bool:
    return any(is_attr(s) and attr_type(s)[1][0] == "comp" and attr_type(s)[1][2] for s in case["stmts"])


def rules_ok(case: dict) -> typing.Tuple[bool, str]:
    """(valid, first violated rule) — the conjunction of the rules in the property text."""
    h = case["header"]
    stmts = case["stmts"]
    schemas = split_schemas(stmts)
    if len(schemas) > 2:
        return False, "more than one service response marker"
    service = len(schemas) == 2
    if any(s[0] in ("sealed", "union", "deprecated") and len(s) > 1 for s in stmts):
        return False, "expression given to a directive that takes none"
    # version
    if not (0 <= h["major"] <= 255 and 0 <= h["minor"] <= 255 and (h["major"], h["minor"]) != (0, 0)):
        return False, "version"
    # names of the type
    comps = h["ns"] + [h["short"]]
    if not all(name_ok(c) for c in comps):
        return False, "type name / namespace component"
    longest_name = ".".join(comps) + (".Response" if service else "")
    if len(longest_name) > 255:
        return False, "name length"
    # port-ID
    if h["port"] is not None:
        p = h["port"]
        if not (0 <= p <= (511 if service else 8191)):
            return False, "port-ID range"
        if not h["allow"]:
            std = h["ns"][0] in ("uavcan", "cyphal")
            lo, hi = ((384, 511) if std else (256, 383)) if service else ((7168, 8191) if std else (6144, 7167))
            if not (lo <= p <= hi):
                return False, "regulated port-ID range"
    # @deprecated: once, in the first schema, before the first attribute
    dep_pos = [i for i, s in enumerate(stmts) if s[0] == "deprecated"]
    if len(dep_pos) > 1:
        return False, "duplicated @deprecated"
    deprecated = bool(dep_pos)
    if deprecated and any(is_attr(s) or s[0] == "marker" for s in stmts[: dep_pos[0]]):
        return False, "misplaced @deprecated"
    for sc in schemas:
        upos = [i for i, s in enumerate(sc) if s[0] == "union"]
        if len(upos) > 1:
            return False, "duplicated @union"
        union = bool(upos)
        if union and any(is_attr(s) for s in sc[: upos[0]]):
            return False, "misplaced @union"
        modes = [i for i, s in enumerate(sc) if s[0] in ("sealed", "extent")]
        if len(modes) != 1:
            return False, "not exactly one of @sealed / @extent"
        m = sc[modes[0]]
        if m[0] == "extent" and any(is_attr(s) for s in sc[modes[0] + 1:]):
            return False, "attribute after @extent"
        attrs = [s for s in sc if is_attr(s)]
        for a in attrs:
            t = attr_type(a)
            if not type_ok(t):
                return False, "bit width / capacity"
            if a[0] == "field" and t == ["s", t[1]] and t[1][0] == "void":
                return False, "named void field"
            if a[0] != "padding" and not name_ok(a[2]):
                return False, "attribute name"
            if a[0] == "const" and not (t[0] == "s" and t[1][0] in ("bool", "byte", "utf8", "uint", "int", "float")):
                return False, "constant type"
            if not placement_ok(t, union, deprecated):
                return False, "void/utf8/byte placement or deprecated dependency"
        names = [a[2] for a in attrs if a[0] != "padding"]
        if len(names) != len(set(names)):
            return False, "attribute name collision"
        fields = [attr_type(a) for a in attrs if a[0] != "const"]
        if union and len(fields) < 2:
            return False, "union with fewer than two variants"
        if m[0] == "extent":
            e = x_int(m[1])
            if e is None:
                return False, "extent (not an integer number of bits)"
            if e % 8 != 0 or e < longest(fields, union):
                return False, "extent"
    if uses_service(case):
        return False, "service type used as a field type"
    return True, ""


# ------------------------------------------------------------------------------------------------- rendering


def dep_name(sc: list) -> str:
    return "D%s%s%d" % ("d" if sc[1] else "n", "s" if sc[2] else "m", sc[3])


def dep_text(sc: list) -> str:
    dp = "@deprecated\n" if sc[1] else ""
    if sc[2]:
        return dp + "@sealed\n---\n@sealed\n"
    assert sc[3] % 8 == 0
    return dp + ("uint8[%d] payload\n" % (sc[3] // 8) if sc[3] else "") + "@sealed\n"


def dep_ns(h: dict) -> str:
    """The name of the lookup root namespace that holds the referenced definitions ("dep" unless the header says otherwise)."""
    return h.get("depns") or "dep"


def sc_text(sc: list, depns: str = "dep") -> str:
    k = sc[0]
    if k in ("bool", "byte", "utf8"):
        return k
    if k == "void":
        return "void%d" % sc[1]
    if k == "comp":
        return "%s.%s.1.0" % (depns, dep_name(sc))
    return ("truncated " if sc[2] == "t" else "saturated ") + "%s%d" % (k, sc[1])


def ty_text(t: list, depns: str = "dep") -> str:
    if t[0] == "s":
        return sc_text(t[1], depns)
    if is_x(t[2]):
        bound = "" if t[0] == "fa" else "<" if len(t[2]) > 4 else "<="
        return "%s[%s%s]" % (sc_text(t[1], depns), bound, x_text(t[2]))
    if t[0] == "fa":
        return "%s[%d]" % (sc_text(t[1], depns), t[2])
    return "%s[<=%d]" % (sc_text(t[1], depns), t[2]) if t[2] % 2 else "%s[<%d]" % (sc_text(t[1], depns), t[2] + 1)


def stmt_text(s: list, depns: str = "dep") -> str:
    k = s[0]
    if k == "field":
        return "%s %s" % (ty_text(s[1], depns), s[2])
    if k == "padding":
        return "void%d" % s[1]
    if k == "const":
        zero = "false" if s[1] == ["s", ["bool"]] else "0"
        return "%s %s = %s" % (ty_text(s[1], depns), s[2], zero)
    if k == "marker":
        return "---"
    if k == "extent":
        return "@extent " + x_text(s[1])
    return "@" + k + (" " + x_text(s[1]) if len(s) > 1 else "")


def file_relpath(h: dict) -> str:
    base = "%s.%d.%d.dsdl" % (h["short"], h["major"], h["minor"])
    if h["port"] is not None:
        base = "%d.%s" % (h["port"], base)
    return "/".join(h["ns"] + [base])


def all_deps(case: dict) -> typing.List[list]:
    out = []
    for s in case["stmts"]:
        if is_attr(s):
            sc = attr_type(s)[1]
            if sc[0] == "comp" and sc not in out:
                out.append(sc)
    return out


def fs_safe(case: dict) -> bool:
    h = case["header"]
    return all(c and "/" not in c and "." not in c and len(c.encode()) <= 200 and c not in ("dep", dep_ns(h)) for c in h["ns"] + [h["short"]])


# ------------------------------------------------------------------------------------------------- generator

# Legal identifiers that BEGIN with / CONTAIN / are ALL BUT A SUFFIX of a word of the grammar (primitive type names, cast modes, boolean
# literals, directive names): only the exact words and patterns are reserved.  They are used as attribute names, type short names, nested
# and root namespace names of the definition (whose full name is written out as an absolute reference when it is read as a dependency),
# and as the name of the lookup root namespace, so that every composite type reference of the text may begin like a keyword
# (`boolean_.Dnm8.1.0 x`, `uint8_ext.Dnm0.1.0[<=3] y`).
KEYWORD_LIKE_NAMES = ["boolean", "bool_", "bytes", "byte_", "utf8_", "utf8text", "uint8_", "uint8_t", "int16s", "integer", "float32x", "floating", "void1x", "voided",
                      "truncated_", "saturated8", "true_", "truely", "falsey", "false0", "sealed", "union", "extent", "deprecated_", "assert", "print", "is_true", "a_uint8"]
KEYWORD_LIKE_ROOTS = ["boolean", "bool_", "bytes", "utf8_", "uint8_t", "int16s", "float32x", "void1s", "truncated_", "saturatedx", "true_", "falsey", "sealed", "print"]
KEYWORD_LIKE_SUBS = ["bool1", "byte_", "utf8x", "uint8s", "int8_", "float64_", "void8x", "truncated1", "saturated_", "truely", "false_", "union", "extent"]
KEYWORD_LIKE_SHORTS = ["Boolean", "bool_", "byte_t", "utf8string", "uint8x4", "int16s", "float32x3", "void1s", "Truncated_", "saturatedX", "true_", "Falsey", "sealed", "Print_"]
KEYWORD_LIKE_DEP_ROOTS = ["boolean_", "bytecraft", "byte_", "utf8tools", "uint8_ext", "int16x", "float32x3", "void1_", "truncated_dep", "saturatedly", "true_dep", "falsehood"]
GRAMMAR_WORDS = ["truncated", "saturated", "deprecated", "bool", "byte", "utf8", "uint", "int", "float", "void", "true", "false", "union", "sealed", "extent", "assert", "print"]


def keyword_like(name: str) -> typing.Optional[str]:
    n = name.lower()
    for how, test in (("is", lambda w: n == w), ("begins", lambda w: n.startswith(w)), ("contains", lambda w: w in n)):
        for w in GRAMMAR_WORDS:
            if test(w):
                return how + ":" + w
    return None


GOOD_NAMES = ["a", "b", "value", "x1", "my_field", "f_", "_g", "abc123", "q", "data", "com10", "lpt", "q1", "uq_1", "voidx", "int_", "floaty",
              "Bool1", "con1", "_", "TRUEE", "u", "i8", "q1_", "_1", "a_"] + KEYWORD_LIKE_NAMES
BAD_NAMES = ["bool", "Bool", "BOOL", "true", "False", "truncated", "Saturated", "optional", "aligned", "const", "struct", "super", "template", "enum",
             "self", "SELF", "and", "or", "not", "auto", "type", "Type", "con", "prn", "aux", "nul", "NUL", "void", "void3", "Void33", "uint", "uint8", "uInt7",
             "int", "INT16", "int999", "q1_2", "uq16_8", "Q1_2", "UQ0_0", "float", "float16", "Float1", "com1", "COM9", "lpt0", "LPT7", "_a_", "__", "_A1_", "___"]


# Characters that are no name characters but that careless validation lets through at the edges of a name: line terminators (what
# `$`, `str.splitlines`, `str.strip`, text-mode file reading treat specially), blanks, other control characters.
LINE_TERMINATORS = ["\n", "\r", "\r\n", "\x0b", "\x0c", "\x1c", "\x1d", "\x1e", "\x85", "\u2028", "\u2029"]
BLANKS = [" ", "\t", "\u00a0", "\u2003"]
CONTROLS = ["\x00", "\x01", "\x1b", "\x1f", "\x7f", "\u200b", "\ufeff"]
HOSTILE_BASES = ["value", "a", "T", "sub", "Msg", "x1", "_g", "node", "Abc", "true", "optional", "uint8", "q1_2"]  # the last four: reserved without the addition


def hostile_class(ch: str) -> str:
    return "line-terminator" if ch in "".join(LINE_TERMINATORS) else "blank" if ch in "".join(BLANKS) else "control"


def g_hostile_name(rng, base: typing.Optional[str] = None, fs: bool = True) -> str:
    """A name that is well-formed except for control / blank / line-terminator characters at its edge (or inside)."""
    base = base if base is not None and rng.random() < 0.5 else rng.choice(HOSTILE_BASES)
    h = rng.choice(LINE_TERMINATORS * 3 + BLANKS + CONTROLS)
    if fs and "\x00" in h:
        h = "\n"  # no file name holds a NUL
    pos = rng.choice(["trailing", "trailing", "trailing", "trailing", "leading", "embedded", "trailing-twice", "both-ends"])
    if pos == "trailing":
        return base + h
    if pos == "leading":
        return h + base
    if pos == "embedded":
        at = rng.randint(1, max(1, len(base) - 1))
        return base[:at] + h + base[at:]
    if pos == "trailing-twice":
        return base + h + rng.choice([h, "\n", h])
    return h + base + h


def hostile_features(name: str) -> typing.Iterator[str]:
    odd = [i for i, ch in enumerate(name) if ch not in ASCII_LETTERS + DIGITS + "_" and (ord(ch) < 0x21 or ch in "".join(LINE_TERMINATORS + BLANKS + CONTROLS))]
    if not odd:
        return
    core = [i for i in range(len(name)) if i not in odd]
    for i in odd:
        where = "only" if not core else "leading" if i < core[0] else "trailing" if i > core[-1] else "embedded"
        if where == "trailing" and len([j for j in odd if j > core[-1]]) == 1:
            where = "trailing-single"
        yield "%s:%s:%s" % (hostile_class(name[i]), "U+%04X" % ord(name[i]), where)


def g_scalar(rng, allow_comp=True) -> list:
    r = rng.random()
    if r < 0.1:
        return ["bool"]
    if r < 0.4:
        return ["uint", rng.choice([1, 2, 7, 8, 16, 32, 63, 64, rng.randint(1, 64)]), rng.choice(["s", "s", "t"])]
    if r < 0.55:
        return ["int", rng.choice([2, 3, 8, 16, 64, rng.randint(2, 64)]), "s"]
    if r < 0.7:
        return ["float", rng.choice([16, 32, 64]), rng.choice(["s", "t"])]
    if r < 0.85 and allow_comp:
        return ["comp", False, False, rng.choice([0, 8, 16, 64, 256])]
    return ["uint", 8, "s"]


def g_type(rng, deprecated: bool) -> list:
    r = rng.random()
    if r < 0.5:
        sc = g_scalar(rng)
        if sc[0] == "comp" and deprecated and rng.random() < 0.5:
            sc[1] = True
        return ["s", sc]
    if r < 0.6:
        return [rng.choice(["fa", "va"]), ["byte"], rng.choice([1, 2, 3, 255, 256])]
    if r < 0.7:
        return ["va", ["utf8"], rng.choice([1, 2, 10, 255, 256, 65535, 65536])]
    sc = g_scalar(rng)
    if sc[0] == "comp" and deprecated and rng.random() < 0.5:
        sc[1] = True
    return [rng.choice(["fa", "va"]), sc, rng.choice([1, 1, 2, 3, 17, 255, 256, 1000])]


def g_schema(rng, deprecated: bool, with_deprecated_directive: bool) -> list:
    union = rng.random() < 0.3
    names = rng.sample(GOOD_NAMES, len(GOOD_NAMES))
    attrs = []
    for _ in range(rng.randint(2, 4) if union else rng.choice([0, 1, 2, 3, 5])):
        attrs.append(["field", g_type(rng, deprecated), names.pop()])
    for _ in range(rng.choice([0, 0, 1, 2])):
        attrs.append(["const", ["s", rng.choice([["bool"], ["uint", 8, "s"], ["int", 16, "s"], ["float", 32, "s"], ["uint", 64, "t"]])], names.pop()])
    if not union:
        for _ in range(rng.choice([0, 0, 1, 2])):
            attrs.append(["padding", rng.choice([1, 7, 8, 64, rng.randint(1, 64)])])
    rng.shuffle(attrs)
    pre = []
    if union:
        pre.append(["union"])
    if with_deprecated_directive:
        pre.append(["deprecated"])
    rng.shuffle(pre)
    out = pre + attrs
    fields = [attr_type(a) for a in attrs if a[0] != "const"]
    if rng.random() < 0.5:
        out.insert(rng.randint(0, len(out)), ["sealed"])
    else:
        need = longest(fields, union)
        out.append(["extent", need + 8 * rng.choice([0, 0, 1, 2, 100])])
    return out


def g_valid(rng) -> dict:
    kw = rng.random() < 0.3  # keyword-like identifiers at every position of the definition's identity and of its references
    root = rng.choice(KEYWORD_LIKE_ROOTS) if kw and rng.random() < 0.6 else rng.choice(["vendor", "vendor", "uavcan", "cyphal", "Zubax", "ns_1", "_ns", "regulated"])
    ns = [root] + [rng.choice(KEYWORD_LIKE_SUBS) if kw and rng.random() < 0.6 else rng.choice(["sub", "node", "a1", "B", "x_y"]) for _ in range(rng.choice([0, 0, 1, 2]))]
    service = rng.random() < 0.3
    deprecated = rng.random() < 0.25
    stmts = g_schema(rng, deprecated, deprecated)
    if service:
        stmts = stmts + [["marker"]] + g_schema(rng, deprecated, False)
    port = None
    allow = rng.random() < 0.3
    if rng.random() < 0.5:
        std = root in ("uavcan", "cyphal")
        lo, hi = ((384, 511) if std else (256, 383)) if service else ((7168, 8191) if std else (6144, 7167))
        port = rng.choice([lo, hi, rng.randint(lo, hi)])
        if allow and rng.random() < 0.6:
            port = rng.choice([0, 1, 255, 256, 383, 384, 511] if service else [0, 1, 6143, 6144, 7167, 7168, 8191])
    major, minor = rng.choice([(1, 0), (0, 1), (255, 255), (255, 0), (0, 255), (rng.randint(0, 255), rng.randint(1, 255))])
    short = rng.choice(KEYWORD_LIKE_SHORTS) if kw and rng.random() < 0.6 else rng.choice(["Alpha", "Msg", "T1", "a", "Heartbeat", "Q1", "Com10"])
    out = {"header": {"ns": ns, "short": short, "major": major, "minor": minor, "port": port, "allow": allow}, "stmts": stmts}
    if kw and rng.random() < 0.7:
        out["header"]["depns"] = rng.choice(KEYWORD_LIKE_DEP_ROOTS)
    return out


def _attr_idx(case, kinds=("field", "const", "padding")):
    return [i for i, s in enumerate(case["stmts"]) if s[0] in kinds]


def violate(rng, case: dict) -> str:
    """Apply one random rule violation or boundary move to the abstract definition (the oracle re-evaluates the rules on the
    result, so a mutator does not have to know whether the result is invalid)."""
    return violate_with(rng, case, rng.choice(["width", "width", "capacity", "attr-name", "attr-name", "dup-name", "named-void", "union-arity", "pad-in-union", "void-array",
                    "utf8-place", "byte-place", "deprecated-dep", "mode-both", "mode-none", "mode-twice", "extent-early", "union-late", "union-twice",
                    "deprecated-late", "deprecated-twice", "deprecated-response", "two-markers", "extent-odd", "extent-boundary", "extent-boundary",
                    "version", "version", "port", "port", "port-regulated", "port-regulated", "long-name", "type-name", "ns-name", "service-field",
                    "const-type", "kelvin", "extent-value", "extent-value", "extent-value", "capacity-value", "capacity-value", "directive-arg",
                    "capacity-boundary", "capacity-boundary", "capacity-boundary", "ctl-name", "ctl-name", "ctl-name"]))


def violate_with(rng, case: dict, k: str) -> str:
    h = case["header"]
    st = case["stmts"]
    schemas = split_schemas(st)
    service = len(schemas) == 2
    fidx = _attr_idx(case, ("field",))
    aidx = _attr_idx(case)
    if k == "width" and fidx:
        i = rng.choice(fidx)
        t = st[i][1]
        kind = rng.choice(["uint", "int", "float", "void"])
        if kind == "void":
            st[i] = ["padding", rng.choice([0, 1, 64, 65, 100])]
        else:
            w = {"uint": [0, 1, 64, 65, 128], "int": [0, 1, 2, 64, 65], "float": [8, 15, 16, 17, 31, 32, 33, 63, 64, 65, 128]}[kind]
            t[1] = [kind, rng.choice(w), rng.choice(["s", "t"]) if kind != "int" else rng.choice(["s", "s", "t"])]
    elif k == "capacity" and fidx:
        i = rng.choice(fidx)
        sc = st[i][1][1]
        if sc[0] in ("utf8",):
            st[i][1] = ["va", sc, rng.choice([-1, 0, 1, 2])]
        else:
            st[i][1] = [rng.choice(["fa", "va"]), sc, rng.choice([-5, -1, 0, 1, 2])]
    elif k == "attr-name" and [i for i in aidx if st[i][0] != "padding"]:
        i = rng.choice([i for i in aidx if st[i][0] != "padding"])
        st[i][2] = rng.choice(BAD_NAMES + GOOD_NAMES[10:])
    elif k == "dup-name" and [i for i in aidx if st[i][0] != "padding"]:
        i = rng.choice([i for i in aidx if st[i][0] != "padding"])
        new = ["field", ["s", ["uint", 8, "s"]], st[i][2]] if rng.random() < 0.5 else ["const", ["s", ["uint", 8, "s"]], st[i][2]]
        st.insert(rng.randint(0, len(st)), new)
    elif k == "named-void" and fidx:
        st[rng.choice(fidx)][1] = ["s", ["void", rng.choice([1, 8, 64])]]
    elif k == "union-arity":
        for n, sc in enumerate(schemas):
            if any(s[0] == "union" for s in sc):
                keep = rng.choice([0, 1, 2])
                seen = 0
                out = []
                for s in sc:
                    if s[0] == "field":
                        seen += 1
                        if seen > keep:
                            continue
                    out.append(s)
                schemas[n] = out
        case["stmts"] = _join(schemas)
    elif k == "pad-in-union":
        st.insert(rng.randint(0, len(st)), ["padding", 8])
    elif k == "void-array" and fidx:
        st[rng.choice(fidx)][1] = [rng.choice(["fa", "va"]), ["void", 8], 2]
    elif k == "utf8-place" and fidx:
        st[rng.choice(fidx)][1] = rng.choice([["s", ["utf8"]], ["fa", ["utf8"], 3], ["va", ["utf8"], 3]])
    elif k == "byte-place" and fidx:
        st[rng.choice(fidx)][1] = rng.choice([["s", ["byte"]], ["fa", ["byte"], 3], ["va", ["byte"], 3]])
    elif k == "deprecated-dep" and fidx:
        i = rng.choice(fidx)
        sc = ["comp", True, False, rng.choice([0, 8, 64])]
        st[i][1] = rng.choice([["s", sc], ["fa", sc, 2], ["va", sc, 2]])
    elif k == "mode-both":
        st.insert(rng.randint(0, len(st)), rng.choice([["sealed"], ["extent", 8 * rng.randint(0, 4000)]]))
    elif k == "mode-none":
        ms = [i for i, s in enumerate(st) if s[0] in ("sealed", "extent")]
        if ms:
            del st[rng.choice(ms)]
    elif k == "mode-twice":
        ms = [i for i, s in enumerate(st) if s[0] in ("sealed", "extent")]
        if ms:
            st.insert(rng.randint(0, len(st)), copy.deepcopy(st[rng.choice(ms)]))
    elif k == "extent-early":
        es = [i for i, s in enumerate(st) if s[0] == "extent"]
        if es:
            e = st.pop(rng.choice(es))
            st.insert(rng.randint(0, len(st)), e)
        else:
            st.insert(rng.randint(0, len(st)), ["field", ["s", ["uint", 8, "s"]], "late"])
    elif k == "union-late":
        us = [i for i, s in enumerate(st) if s[0] == "union"]
        if us:
            st.pop(us[0])
        st.insert(rng.randint(0, len(st)), ["union"])
    elif k == "union-twice":
        st.insert(rng.randint(0, len(st)), ["union"])
    elif k in ("deprecated-late", "deprecated-twice"):
        st.insert(rng.randint(0, len(st)), ["deprecated"])
    elif k == "deprecated-response":
        st.append(["deprecated"])
    elif k == "two-markers":
        st.insert(rng.randint(0, len(st)), ["marker"])
        if rng.random() < 0.5:
            st.append(["sealed"])
    elif k in ("extent-odd", "extent-boundary"):
        for n, sc in enumerate(schemas):
            ms = [i for i, s in enumerate(sc) if s[0] in ("sealed", "extent")]
            if len(ms) == 1 and rng.random() < 0.7:
                union = any(s[0] == "union" for s in sc)
                fields = [attr_type(a) for a in sc if is_attr(a) and a[0] != "const"]
                need = longest(fields, union)
                e = need + (rng.choice([-8, -1, 0, 1, 4, 7, 8, 9]) if k == "extent-boundary" else rng.choice([1, 3, 4, 7, 12]))
                del sc[ms[0]]
                sc.append(["extent", e])
        case["stmts"] = _join(schemas)
    elif k == "version":
        h["major"], h["minor"] = rng.choice([(0, 0), (0, 1), (1, 0), (255, 255), (256, 0), (0, 256), (256, 256), (255, 0), (1000, 1)])
    elif k == "port":
        h["port"] = rng.choice([0, 1, 255, 256, 383, 384, 511, 512, 513, 6143, 6144, 7167, 7168, 8191, 8192, 8193, 65535])
        h["allow"] = rng.random() < 0.7
    elif k == "port-regulated":
        std = h["ns"][0] in ("uavcan", "cyphal")
        lo, hi = ((384, 511) if std else (256, 383)) if service else ((7168, 8191) if std else (6144, 7167))
        h["port"] = rng.choice([lo - 1, lo, lo + 1, hi - 1, hi, hi + 1])
        h["allow"] = rng.random() < 0.3
    elif k == "long-name":
        target = rng.choice([254, 255, 256, 257]) - (len(".Response") if service and rng.random() < 0.7 else 0) + rng.choice([0, 0, 1, -1])
        cur = len(".".join(h["ns"] + [h["short"]]))
        extra = target - cur
        if extra > 0:
            parts = []
            while extra > 0:
                n = min(extra - 1, 120) if extra > 1 else 0
                if n <= 0:
                    break
                parts.append("n" + "x" * (n - 1))
                extra -= n + 1
            h["ns"] = h["ns"] + parts
            if extra > 0:
                h["short"] = h["short"] + "y" * extra
    elif k == "type-name":
        h["short"] = rng.choice(BAD_NAMES + ["Good1", "x", "9x", "a-b", "na me"])
    elif k == "ns-name":
        j = rng.randrange(len(h["ns"]) + 1)
        nm = rng.choice(BAD_NAMES + ["ok_ns", "a-b", "1st"])
        if j == len(h["ns"]):
            h["ns"].append(nm)
        else:
            h["ns"][j] = nm
    elif k == "service-field" and fidx:
        i = rng.choice(fidx)
        sc = ["comp", False, True, 0]
        st[i][1] = rng.choice([["s", sc], ["fa", sc, 2], ["va", sc, 2]])
    elif k == "const-type":
        cs = _attr_idx(case, ("const",))
        t = rng.choice([["fa", ["uint", 8, "s"], 2], ["s", ["comp", False, False, 8]], ["s", ["byte"]], ["s", ["utf8"]], ["s", ["void", 8]], ["va", ["utf8"], 4]])
        if cs:
            st[rng.choice(cs)][1] = t
        else:
            st.insert(0, ["const", t, "KC"])
    elif k == "kelvin":
        if rng.random() < 0.5:
            h["short"] = rng.choice([KELVIN, "A" + KELVIN, KELVIN + "1"])
        else:
            h["ns"].append(rng.choice([KELVIN, "x" + KELVIN]))
    elif k == "extent-value":
        # the extent given by a constant expression of any kind of value (integer written in an unusual way, non-integer
        # rational, huge, negative, zero, boolean, string, set, type), around the smallest legal extent of the schema
        for n, sc in enumerate(schemas):
            ms = [i for i, s in enumerate(sc) if s[0] in ("sealed", "extent")]
            if len(ms) == 1 and (rng.random() < 0.7 or len(schemas) == 1):
                union = any(s[0] == "union" for s in sc)
                fields = [attr_type(a) for a in sc if is_attr(a) and a[0] != "const"]
                del sc[ms[0]]
                sc.append(["extent", g_arg(rng, longest(fields, union), 8)])
        case["stmts"] = _join(schemas)
    elif k == "capacity-value" and fidx:
        # an array capacity given by a constant expression of any kind of value
        i = rng.choice(fidx)
        sc = st[i][1][1]
        kind = "va" if sc[0] == "utf8" else rng.choice(["fa", "va", "va"])
        v = g_arg(rng, rng.choice([1, 1, 2, 255, 256]), 1)
        if kind == "va":
            if rng.random() < 0.4:
                v.append("lt")
                if x_int(v) is not None and rng.random() < 0.7:
                    v[2] += 1  # `[<n+1]` is `[<=n]`
        st[i][1] = [kind, sc, v]
    elif k == "capacity-boundary" and fidx:
        # capacities at the ends of the ranges of the implicit length field (8/16/32/64 bits) and beyond the widest one; a
        # variable-length array needs a length field of a legal width (capacity < 2**64), a fixed-length array has none
        i = rng.choice(fidx)
        sc = st[i][1][1]
        kind = "va" if sc[0] == "utf8" else rng.choice(["fa", "fa", "va", "va", "va"])
        b = rng.choice([8, 16, 32, 64, 64, 64])
        n = rng.choice([(1 << b) - 1, 1 << b, (1 << b) + 1, (1 << b) - 2] + ([(1 << 64) + 1, 1 << 70, 1 << 65, 1 << 128] if b == 64 else []))
        if rng.random() < 0.5:
            st[i][1] = [kind, sc, n]  # plain decimal; `[<=n]` for odd n, `[<n+1]` for even n
        else:
            v = ["x", "int", n, rng.choice([0, 0, 1, 2, 7, 8])]
            if kind == "va" and rng.random() < 0.5:
                v[2] += 1
                v.append("lt")
            st[i][1] = [kind, sc, v]
        if rng.random() < 0.8:
            # keep the rest legal: an @extent of the schema is moved to (or just above) the new longest representation
            schemas = split_schemas(st)
            for sch in schemas:
                ms = [j for j, x in enumerate(sch) if x[0] == "extent"]
                if len(ms) == 1 and any(x is st[i] for x in sch):
                    union = any(x[0] == "union" for x in sch)
                    fields = [attr_type(a) for a in sch if is_attr(a) and a[0] != "const"]
                    sch[ms[0]] = ["extent", longest(fields, union) + 8 * rng.choice([0, 0, 1])]
            case["stmts"] = _join(schemas)
    elif k == "ctl-name":
        # a name that is well-formed except for a line terminator / blank / control character at its edge or inside, in a position
        # whose characters reach the library as they are: the file name (type name), a directory name (root or nested namespace) -
        # and, when the definition is built through the constructors, an attribute name as well
        ctor = case.get("route") == "ctor"
        named = [i for i in aidx if st[i][0] != "padding"]
        pos = rng.choice(["short", "short", "sub", "sub", "root"] + (["attr", "attr", "attr"] if ctor and named else []))
        if pos == "attr":
            i = rng.choice(named)
            st[i][2] = g_hostile_name(rng, st[i][2], fs=False)
        elif pos == "short":
            h["short"] = g_hostile_name(rng, h["short"], fs=not ctor)
        elif pos == "root":
            h["ns"][0] = g_hostile_name(rng, h["ns"][0], fs=not ctor)
        else:
            j = rng.randrange(1, len(h["ns"]) + 1)
            nm = g_hostile_name(rng, h["ns"][j] if j < len(h["ns"]) else None, fs=not ctor)
            if j == len(h["ns"]) or rng.random() < 0.3:
                h["ns"].insert(j, nm)
            else:
                h["ns"][j] = nm
    elif k == "directive-arg":
        # @sealed / @union / @deprecated take no expression, whatever its value
        ds = [i for i, s in enumerate(st) if s[0] in ("sealed", "union", "deprecated") and len(s) == 1]
        if ds:
            st[rng.choice(ds)].append(g_arg(rng, rng.choice([0, 1, 8, 64]), 8))
    return k


# ------------------------------------------------------------------------------------------------- histories (sequences)

NAME_CHARS = ASCII_LETTERS + DIGITS + "_"
_CONFUSABLE: typing.Dict[str, typing.List[typing.List[str]]] = {}
HOMOGLYPHS = [["\u0430", "a"], ["\u0435", "e"], ["\u043e", "o"], ["\u0440", "p"], ["\u0441", "c"], ["\u0445", "x"], ["\u0391", "A"], ["\u0392", "B"],
              ["\u0395", "E"], ["\u039a", "K"], ["\u039c", "M"], ["\u03a4", "T"], ["\u0405", "S"], ["\u0406", "I"], ["\u0458", "j"]]
INVISIBLE = ["\u200b", "\u200d", "\u00ad", "\ufeff", "\u00a0", "\u2060", "\u0301", " "]


def confusables() -> typing.Dict[str, typing.List[typing.List[str]]]:
    """{normalisation: [[non-ASCII character, the ASCII name character the normalisation turns it into]...]}, computed from the
    Unicode database of the interpreter (BMP up to U+2FFF, fullwidth forms, mathematical alphanumerics)."""
    if not _CONFUSABLE:
        import unicodedata

        hows = [("lower", str.lower), ("upper", str.upper), ("casefold", str.casefold),
                ("nfkc", lambda x: unicodedata.normalize("NFKC", x)), ("nfkd", lambda x: unicodedata.normalize("NFKD", x)),
                ("int", lambda x: str(int(x)) if x.isdecimal() else "")]
        for lo, hi in [(0x80, 0x3000), (0xFF00, 0xFFF0), (0x1D400, 0x1D800)]:
            for cp in range(lo, hi):
                ch = chr(cp)
                for how, f in hows:
                    t = f(ch)
                    if len(t) == 1 and t in NAME_CHARS:
                        _CONFUSABLE.setdefault(how, []).append([ch, t])
        _CONFUSABLE["visual"] = HOMOGLYPHS
    return _CONFUSABLE


FRAGMENTS = ["", "", "a", "x", "el", "vin", "thermo_", "bul", "Node", "_", "m1", "Port", "ab_c", "Z"]


def g_twin_names(rng) -> typing.Tuple[str, str, str]:
    """(a valid name, a look-alike of it, how the look-alike was made)"""
    for _ in range(50):
        pre = rng.choice(FRAGMENTS) + "".join(rng.choice("abcdefghijklmnopqrstuvwxyz") for _ in range(rng.choice([0, 1, 2])))
        suf = "".join(rng.choice("abcdefghijklmnopqrstuvwxyz") for _ in range(rng.choice([0, 1, 2]))) + rng.choice(FRAGMENTS)
        how = rng.choice(["lower", "upper", "casefold", "nfkc", "nfkd", "int", "visual", "case", "case", "reserved-case", "invisible"])
        if how == "case":
            base = pre + rng.choice(["k", "S", "value", "Alpha", "i"]) + suf
            twin = rng.choice([base.upper(), base.lower(), base.swapcase(), base.title()])
        elif how == "reserved-case":
            w = rng.choice(BAD_NAMES)
            base = w + rng.choice(["_", "x", "1x", "_1"]) if rng.random() < 0.5 else rng.choice(["x", "_", "a_"]) + w
            twin = rng.choice([w, w.upper(), w.lower(), w.title(), w.swapcase()])
        elif how == "invisible":
            base = pre + rng.choice(["k", "Value", "n1"]) + suf
            z = rng.choice(INVISIBLE + ["\n", "\n", "\r", "\t", "\x0c", "\x85", "\u2028"])  # ... or a line terminator / control character
            twin = rng.choice([base + z, z + base, base[:1] + z + base[1:]])
        else:
            ch, t = rng.choice(confusables()[how])
            mid = t.swapcase() if how in ("lower", "upper", "casefold") and rng.random() < 0.5 else t
            base = pre + mid + suf
            twin = pre + ch + suf
        if name_ok(base) and twin != base and len(twin.encode()) <= 60:
            return base, twin, how
    return "Kelvin", KELVIN + "elvin", "lower"


U8 = ["s", ["uint", 8, "s"]]


def place_name(rng, case: dict, name: str, pos: str) -> None:
    """Use `name` as type name / root namespace / nested namespace / attribute name of the definition."""
    h = case["header"]
    if pos == "short":
        h["short"] = name
    elif pos == "root":
        h["ns"][0] = name
    elif pos == "sub":
        h["ns"].insert(rng.randint(1, len(h["ns"])), name)
    else:
        named = [i for i, st in enumerate(case["stmts"]) if st[0] in ("field", "const")]
        if named and rng.random() < 0.6:
            case["stmts"][rng.choice(named)][2] = name
        else:
            first = split_schemas(case["stmts"])[0]
            at = max([i + 1 for i, st in enumerate(first) if st[0] in ("union", "deprecated")] + [0])
            case["stmts"].insert(at, ["field", copy.deepcopy(U8), name] if rng.random() < 0.6 else ["const", copy.deepcopy(U8), name])


def mini_definition(rng, name: str, pos: str) -> dict:
    c = {"header": {"ns": [rng.choice(["vendor", "hist", "ns_h"])], "short": rng.choice(["T", "Msg", "H1"]), "major": 1, "minor": 0, "port": None, "allow": False},
         "stmts": [["sealed"]]}
    place_name(rng, c, name, pos)
    return c


def text_safe(name: str) -> bool:
    """An attribute name that keeps its characters when written into the text (a blank would be mere white space there)."""
    return not any(ch in " \t\r\n#" for ch in name)


def kept_out(case: dict) -> bool:
    """Nothing is kept out any more: the input class that used to be excluded here (a short name ending with white space,
    `vendor/Abc .1.0.dsdl`, accepted as `vendor.Abc` because CompositeType.__init__ stripped the name before check_name saw
    it) was a genuine defect of pydsdl, repaired in /repo by 5ca71ff and recorded in known_findings.json."""
    return False


def g_sequence(rng) -> dict:
    """A case with a history: near-identical definitions read one after the other in one process."""
    positions = ["short", "short", "root", "sub", "attr"]
    if rng.random() < 0.6:
        base, twin, how = g_twin_names(rng)
        order = rng.choice(["valid-first", "valid-first", "lookalike-first", "both-first"])
        last, earlier = (twin, [base]) if order == "valid-first" else (base, [twin]) if order == "lookalike-first" else (rng.choice([base, twin]), rng.sample([base, twin], 2))
        if rng.random() < 0.3:
            earlier.insert(rng.randint(0, len(earlier)), rng.choice([base.lower(), base.upper(), base.swapcase()]))
        c = g_valid(rng)
        c["violations"] = []
        pos = rng.choice([p for p in positions if p != "attr" or text_safe(last)])
        place_name(rng, c, last, pos)
        c["history"] = [mini_definition(rng, nm, rng.choice([p for p in positions if p != "attr" or text_safe(nm)])) for nm in earlier]
        c["seq"] = "name-twin/%s/%s/%s" % (how, order, pos)
        return c
    # the valid skeleton and its mutant, in either order
    a = g_valid(rng)
    b = copy.deepcopy(a)
    b["violations"] = [violate(rng, b) for _ in range(rng.choice([1, 1, 2]))]
    a["violations"] = []
    if rng.random() < 0.5:
        main, hist, order = b, [a], "skeleton-first"
    else:
        main, hist, order = a, [b], "mutant-first"
    if rng.random() < 0.25:
        hist = hist + [copy.deepcopy(main)]  # ... and the very same definition once more
        order += "+repeat"
    main["history"] = [{"header": x["header"], "stmts": x["stmts"]} for x in hist]
    main["seq"] = "mutant-twin/" + order
    return main


def _join(schemas):
    out = []
    for n, sc in enumerate(schemas):
        if n:
            out.append(["marker"])
        out += sc
    return out


# ------------------------------------------------------------------------------------------------- constructor route

CTOR_MUTATORS = ["ctl-name", "ctl-name", "ctl-name", "ctl-name", "attr-name", "attr-name", "type-name", "ns-name", "kelvin", "dup-name", "version", "long-name"]


def ctor_normalise(case: dict) -> None:
    """Bring the statements into the one order the constructors can express (flags first, serialization mode last) and drop what they
    cannot (references to other definitions); the rules about statement ORDER are the business of the text route."""
    schemas = split_schemas(case["stmts"])[:2]
    out = []
    deprecated = any(s[0] == "deprecated" for s in case["stmts"])
    for n, sc in enumerate(schemas):
        attrs = [s for s in sc if is_attr(s)]
        for a in attrs:
            t = attr_type(a)
            if t[1][0] == "comp":
                a[1] = ["s", ["uint", 8, "s"]]
        modes = [s for s in sc if s[0] in ("sealed", "extent")][:1] or [["sealed"]]
        if modes[0][0] == "extent":
            union = any(s[0] == "union" for s in sc)
            need = longest([attr_type(a) for a in attrs if a[0] != "const"], union)
            if not isinstance(modes[0][1], int) or modes[0][1] < need:
                modes = [["extent", need]]
        out.append(([["deprecated"]] if deprecated and n == 0 else []) + ([["union"]] if any(s[0] == "union" for s in sc) else []) + attrs + modes)
    case["stmts"] = _join(out)


def ctor_expressible(case: dict) -> bool:
    c = {"header": case["header"], "stmts": copy.deepcopy(case["stmts"])}
    ctor_normalise(c)
    return c["stmts"] == case["stmts"] and not any(is_attr(s) and s[0] != "padding" and s[1][0] != "s" and not isinstance(s[1][2], int) for s in case["stmts"])


def g_ctor_case(rng) -> dict:
    c = g_valid(rng)
    c["route"] = "ctor"
    c["violations"] = []
    h = c["header"]
    if h["port"] is not None:
        h["allow"] = True  # the regulated ranges are a rule of the front end; the constructors know the full port-ID range only
    ctor_normalise(c)
    for _ in range(rng.choice([0, 1, 1, 1, 2])):
        c["violations"].append(violate_with(rng, c, rng.choice(CTOR_MUTATORS)))
    ctor_normalise(c)
    return c


def build_by_constructors(pydsdl, case: dict):
    """The definition built through the public constructors, the way DataTypeBuilder does it."""
    h = case["header"]
    cm = {"s": pydsdl.PrimitiveType.CastMode.SATURATED, "t": pydsdl.PrimitiveType.CastMode.TRUNCATED}

    def scalar(sc):
        k = sc[0]
        if k == "bool":
            return pydsdl.BooleanType()
        if k == "byte":
            return pydsdl.ByteType()
        if k == "utf8":
            return pydsdl.UTF8Type()
        if k == "void":
            return pydsdl.VoidType(sc[1])
        cls = {"uint": pydsdl.UnsignedIntegerType, "int": pydsdl.SignedIntegerType, "float": pydsdl.FloatType}[k]
        return cls(sc[1], cm[sc[2]])

    def ty(t):
        if t[0] == "s":
            return scalar(t[1])
        return (pydsdl.FixedLengthArrayType if t[0] == "fa" else pydsdl.VariableLengthArrayType)(scalar(t[1]), t[2])

    full = ".".join(h["ns"] + [h["short"]])
    path = Path("/".join(h["ns"])) / ("%s.%d.%d.dsdl" % (h["short"], h["major"], h["minor"]))
    version = pydsdl.Version(h["major"], h["minor"])
    schemas = split_schemas(case["stmts"])
    service = len(schemas) == 2
    deprecated = any(s[0] == "deprecated" for s in case["stmts"])

    def composite(sc, name, port, parent):
        attrs = []
        for s in sc:
            if s[0] == "field":
                attrs.append(pydsdl.Field(ty(s[1]), s[2]))
            elif s[0] == "padding":
                attrs.append(pydsdl.PaddingField(pydsdl.VoidType(s[1])))
            elif s[0] == "const":
                attrs.append(pydsdl.Constant(ty(s[1]), s[2], pydsdl.Boolean(False) if s[1] == ["s", ["bool"]] else pydsdl.Rational(0)))
        cls = pydsdl.UnionType if any(s[0] == "union" for s in sc) else pydsdl.StructureType
        inner = cls(name=name, version=version, attributes=attrs, deprecated=deprecated, fixed_port_id=port, source_file_path=path, has_parent_service=parent)
        mode = next(s for s in sc if s[0] in ("sealed", "extent"))
        return pydsdl.DelimitedType(inner, extent=mode[1]) if mode[0] == "extent" else inner

    if not service:
        return composite(schemas[0], full, h["port"], False)
    return pydsdl.ServiceType(request=composite(schemas[0], full + ".Request", None, True), response=composite(schemas[1], full + ".Response", None, True),
                              fixed_port_id=h["port"])


# ------------------------------------------------------------------------------------------------- the suite

ALWAYS_REJECTED = ["extent", 1]  # the model's stand-in for a statement whose argument no handler accepts (1 bit is never a legal extent)


def model_stmt(s: list) -> list:
    """The Lean model speaks about integer arguments only.  An argument given as a constant expression is replaced by the integer
    it denotes; where it denotes none (non-integer rational, boolean, string, set, type) an extent becomes 1 bit and a capacity 0,
    i.e. values the same rule of the model rejects; an expression behind @sealed / @union / @deprecated makes the statement one that
    the model always rejects."""
    if s[0] in ("sealed", "union", "deprecated") and len(s) > 1:
        return list(ALWAYS_REJECTED)
    if s[0] == "extent" and is_x(s[1]):
        e = x_int(s[1])
        return ["extent", e] if e is not None else list(ALWAYS_REJECTED)
    if s[0] in ("field", "const") and s[1][0] in ("fa", "va") and is_x(s[1][2]):
        cap = cap_of(s[1])
        return [s[0], [s[1][0], s[1][1], cap if cap is not None else 0], s[2]]
    return s


def arg_positions(case: dict) -> typing.Iterator[typing.Tuple[str, list]]:
    for s in case["stmts"]:
        if s[0] in ("sealed", "union", "deprecated") and len(s) > 1:
            yield "@" + s[0], s[1]
        elif s[0] == "extent" and is_x(s[1]):
            yield "@extent", s[1]
        elif s[0] in ("field", "const") and s[1][0] in ("fa", "va") and is_x(s[1][2]):
            yield "capacity" + {"fa": "", "va": "<="}[s[1][0]].replace("<=", "<" if len(s[1][2]) > 4 else "<="), s[1][2]


def _ident(case: dict) -> str:
    h = case["header"]
    names = [st[2] for st in case["stmts"] if st[0] in ("field", "const") and not (st[2].isascii() and st[2] in GOOD_NAMES)]
    return ascii(".".join(h["ns"] + [h["short"]])) + (" with attribute(s) %s" % ascii(names) if names else "")


class RulesSuite(common.Suite):
    name = "rules"

    def generate(self, rng, n, prop, tier):
        out = []
        while len(out) < n:
            if rng.random() < 0.15:
                c = g_sequence(rng)
                if fs_safe(c) and all(fs_safe(x) for x in c["history"]) and not kept_out(c):
                    out.append(c)
                continue
            if rng.random() < 0.12:
                c = g_ctor_case(rng)
                if ctor_expressible(c) and not any("." in x for x in c["header"]["ns"] + [c["header"]["short"]]):
                    out.append(c)
                continue
            c = g_valid(rng)
            c["violations"] = []
            for _ in range(rng.choice([0, 0, 1, 1, 1, 2, 3])):
                c["violations"].append(violate(rng, c))
            if rng.random() < 0.15:
                c["entry"] = "files"
            if fs_safe(c):
                out.append(c)
        return out

    def corpus(self, prop):
        base = {"ns": ["vendor"], "short": "A", "major": 1, "minor": 0, "port": None, "allow": False}
        u8 = ["s", ["uint", 8, "s"]]
        svc = ["comp", False, True, 0]
        return [
            {"header": dict(base), "stmts": [["field", u8, "a"], ["sealed"]], "violations": []},
            {"header": dict(base), "stmts": [["field", ["s", svc], "x"], ["sealed"]], "violations": ["service-field"]},
            {"header": dict(base), "stmts": [["field", ["fa", svc, 2], "x"], ["sealed"]], "violations": ["service-field"]},
            {"header": dict(base), "stmts": [["union"], ["field", ["s", svc], "x"], ["field", u8, "y"], ["sealed"]], "violations": ["service-field"]},
            {"header": dict(base, short=KELVIN), "stmts": [["sealed"]], "violations": ["kelvin"]},
            {"header": dict(base), "stmts": [["field", u8, "uInt7"], ["sealed"]], "violations": ["attr-name"]},
            {"header": dict(base, major=0, minor=0), "stmts": [["sealed"]], "violations": ["version"]},
            {"header": dict(base, port=7168), "stmts": [["sealed"]], "violations": ["port-regulated"]},
            {"header": dict(base), "stmts": [["field", u8, "a"], ["field", ["va", ["uint", 16, "s"], 3], "b"], ["extent", 64]], "violations": []},
            {"header": dict(base), "stmts": [["field", u8, "a"], ["field", ["va", ["uint", 16, "s"], 3], "b"], ["extent", 56]], "violations": ["extent-boundary"]},
        ] + [
            # sequences in one process: a name, then its look-alike (and the other way round), at several positions
            {"header": dict(base, ns=list(a_ns), short=a_short), "stmts": list(a_st), "violations": [], "seq": seq,
             "history": [{"header": dict(base, ns=list(b_ns), short=b_short), "stmts": list(b_st)} for b_ns, b_short, b_st in hist]}
            for seq, (a_ns, a_short, a_st), hist in [
                ("name-twin/lower/valid-first/short", (["vendor"], KELVIN + "elvin", [["sealed"]]), [(["hist"], "Kelvin", [["sealed"]])]),
                ("name-twin/lower/lookalike-first/short", (["vendor"], "Kelvin", [["sealed"]]), [(["hist"], KELVIN + "elvin", [["sealed"]])]),
                ("name-twin/lower/valid-first/sub", (["vendor", "bul" + KELVIN], "T", [["sealed"]]), [(["hist"], "T", [["field", u8, "bulk"], ["sealed"]])]),
                ("name-twin/upper/valid-first/root", (["\u017ftore"], "T", [["sealed"]]), [(["Store"], "T", [["sealed"]]), (["store"], "T", [["sealed"]])]),
                ("name-twin/nfkc/both-first/short", (["vendor"], "\uff21bc", [["sealed"]]), [(["vendor"], "Abc", [["sealed"]]), (["vendor"], "\uff21bc", [["sealed"]])]),
                ("name-twin/reserved-case/lookalike-first/attr", (["vendor"], "T", [["field", u8, "bool_"], ["sealed"]]), [(["vendor"], "T", [["field", u8, "BOOL"], ["sealed"]])]),
                ("mutant-twin/skeleton-first", (["vendor"], "T", [["field", ["s", ["uint", 65, "s"]], "a"], ["sealed"]]), [(["vendor"], "T", [["field", ["s", ["uint", 64, "s"]], "a"], ["sealed"]])]),
            ]
        ]

    def run_impl(self, case):
        pydsdl = common.import_pydsdl()
        # the definitions read earlier in this process, oldest first; then the definition of the case itself
        earlier = [self.read_one(pydsdl, step, False).get("res") for step in case.get("history") or []]
        out = self.read_one(pydsdl, case, True)
        if earlier:
            out["history"] = earlier
        return out

    def read_ctor(self, pydsdl, case):
        if not ctor_expressible(case):
            return {"res": "foreign:harness:not-expressible-by-constructors"}
        try:
            t = build_by_constructors(pydsdl, case)
            h = case["header"]
            if t.full_name != ".".join(h["ns"] + [h["short"]]):
                return {"res": "foreign:other-name", "soft_msg": ascii(t.full_name)[:200]}
            return {"res": "ok"}
        except pydsdl.InvalidDefinitionError as ex:
            return {"res": "invalid", "soft_cls": type(ex).__name__, "soft_msg": str(ex.text)[:160]}
        except pydsdl.InternalError as ex:
            return {"res": "internal", "soft_msg": str(ex)[:160]}
        except Exception as ex:  # pylint: disable=broad-except
            return {"res": "foreign:" + type(ex).__name__, "soft_msg": str(ex)[:200]}

    def read_one(self, pydsdl, case, also_as_dependency):
        if case.get("route") == "ctor":
            return self.read_ctor(pydsdl, case)
        tmp = Path(tempfile.mkdtemp(prefix="vrules"))
        try:
            h = case["header"]
            p = tmp / file_relpath(h)
            p.parent.mkdir(parents=True, exist_ok=True)
            depns = dep_ns(h)
            p.write_text("".join(stmt_text(s, depns) + "\n" for s in case["stmts"]), encoding="utf8")
            (tmp / depns).mkdir(exist_ok=True)
            for sc in all_deps(case):
                (tmp / depns / (dep_name(sc) + ".1.0.dsdl")).write_text(dep_text(sc))
            def read_once() -> dict:
                try:
                    if case.get("entry") == "files":
                        r, _transitive = pydsdl.read_files([p], [tmp / h["ns"][0]], [tmp / depns], allow_unregulated_fixed_port_id=bool(h["allow"]))
                    else:
                        r = pydsdl.read_namespace(tmp / h["ns"][0], [tmp / depns], allow_unregulated_fixed_port_id=bool(h["allow"]))
                    full = ".".join(h["ns"] + [h["short"]])
                    if not any(t.full_name == full and (t.version.major, t.version.minor) == (h["major"], h["minor"]) and t.fixed_port_id == h["port"] for t in r):
                        return {"res": "foreign:not-in-result", "soft_msg": str([str(t) for t in r])[:200]}
                    return {"res": "ok"}
                except pydsdl.InvalidDefinitionError as ex:
                    return {"res": "invalid", "soft_cls": type(ex).__name__, "soft_msg": str(ex.text)[:160]}
                except pydsdl.InternalError as ex:
                    return {"res": "internal", "soft_msg": str(ex)[:160]}
                except Exception as ex:  # pylint: disable=broad-except
                    return {"res": "foreign:" + type(ex).__name__, "soft_msg": str(ex)[:200]}

            out = read_once()
            # The same definition, but FIRST REACHED AS A DEPENDENCY: a sibling that sorts before it refers to it.
            # The rules apply to the definition whichever way it is reached, so the verdict must not change.
            # (Only for message types with a plain ASCII identity; a service cannot be a field type.)
            service = any(s[0] == "marker" for s in case["stmts"])
            ident = h["ns"] + [h["short"]]
            if also_as_dependency and case.get("entry") != "files" and out["res"] in ("ok", "invalid") and not service and all(c.isascii() and c.isidentifier() for c in ident) and len(h["ns"]) >= 1:
                deprecated = any(s[0] == "deprecated" for s in case["stmts"])
                ref = tmp / "/".join(h["ns"] + ["A0a.1.0.dsdl"])
                if not ref.exists() and h["short"] > "A0a" and len(".".join(h["ns"] + ["A0a"])) <= 255:
                    ref.write_text("%s%s.%d.%d r\n@sealed\n" % ("@deprecated\n" if deprecated else "", ".".join(ident), h["major"], h["minor"]))
                    again = read_once()
                    ref.unlink()
                    if again["res"] != out["res"]:
                        out["via_dependency"] = again["res"]
            return out
        finally:
            shutil.rmtree(tmp, ignore_errors=True)

    def model_case(self, case):
        return {"id": case.get("id"), "header": {k: v for k, v in case["header"].items() if k != "depns"}, "stmts": [model_stmt(s) for s in case["stmts"]]}

    def compare(self, case, impl, model, prop):
        if "err" in model:
            return "model driver error: %s" % model["err"]
        return None if impl.get("res") == model.get("res") else "impl=%s (%s) model=%s" % (impl.get("res"), impl.get("soft_cls") or impl.get("soft_msg"), model.get("res"))

    def oracle(self, case, impl, prop):
        hist = case.get("history") or []
        got = impl.get("history") or []
        # every definition of the sequence is judged on its own: the rules know nothing about what the process has seen before
        for i, step in enumerate(hist):
            if i < len(got):
                v = self.judge(step, {"res": got[i]})
                if v is not None:
                    return "%s [definition %d of %d read one after the other in one process: %s]" % (v, i + 1, len(hist) + 1, _ident(step))
        v = self.judge(case, impl)
        if v is not None and hist:
            v += " [read after %s in the same process, which gave %s]" % ([_ident(x) for x in hist], got)
        return v

    def judge(self, case, impl):
        ok, why = rules_ok(case)
        res = impl.get("res")
        if str(res).startswith("foreign:harness"):
            return None
        if "via_dependency" in impl:
            return "verdict-depends-on-reach: read on its own the definition is %s, first reached as a dependency of a sibling it is %s" % (res, impl["via_dependency"])
        if ok and res != "ok":
            return "valid-rejected: a definition that obeys every static rule is not accepted: %s %s" % (res, impl.get("soft_cls") or impl.get("soft_msg"))
        if not ok and res == "ok":
            odd = [c for c in case["header"]["ns"] + [case["header"]["short"]] if not c.isascii()]
            if odd and why == "type name / namespace component":
                return "non-ascii-name-accepted: a type name / namespace component with a character outside ASCII is accepted: %s" % ascii(odd[0])
            names = case["header"]["ns"] + [case["header"]["short"]] + [st[2] for st in case["stmts"] if st[0] in ("field", "const")]
            ctl = [f for nm in names for f in hostile_features(nm)]
            if ctl and why in ("type name / namespace component", "attribute name"):
                return "control-character-name-accepted: a name with a character that is no letter, digit or underscore (%s) is accepted (%s): %s" % (
                    ctl[0], "built through the constructors" if case.get("route") == "ctor" else "read_files" if case.get("entry") == "files" else "read_namespace", why)
            return "invalid-accepted: accepted although this rule is violated: " + why
        if not ok and res != "invalid":
            if uses_service(case) and res == "internal":
                return "service-field-internal-error: a service type used as a field type raises InternalError instead of InvalidDefinitionError"
            return "not-invalid-definition-error: rule '%s' violated, outcome %s %s" % (why, res, impl.get("soft_msg"))
        return None

    def signature(self, case, desc, prop):
        return "%s/%s" % (prop, desc.split(":")[0][:50])

    def shrink(self, case):
        for c in self.shrink_all(case):
            if c.get("route") != "ctor" or ctor_expressible(c):
                yield c
        if case.get("entry") == "files":
            c = copy.deepcopy(case)
            del c["entry"]
            yield c

    def shrink_all(self, case):
        st = case["stmts"]
        if case.get("history"):
            c = copy.deepcopy(case)
            del c["history"]
            c.pop("seq", None)
            yield c
        for i in range(len(st)):
            c = copy.deepcopy(case)
            del c["stmts"][i]
            yield c
        h = case["header"]
        if len(h["ns"]) > 1:
            c = copy.deepcopy(case)
            c["header"]["ns"] = h["ns"][:1]
            yield c
        if h["port"] is not None:
            c = copy.deepcopy(case)
            c["header"]["port"] = None
            yield c
        if (h["major"], h["minor"]) != (1, 0):
            c = copy.deepcopy(case)
            c["header"]["major"], c["header"]["minor"] = 1, 0
            yield c
        for i, s in enumerate(st):
            if s[0] in ("field", "const") and s[1] != ["s", ["uint", 8, "s"]]:
                c = copy.deepcopy(case)
                c["stmts"][i][1] = ["s", ["uint", 8, "s"]]
                yield c
        for i, s in enumerate(st):
            if s[0] in ("sealed", "union", "deprecated") and len(s) > 1:
                c = copy.deepcopy(case)
                del c["stmts"][i][1:]
                yield c
            v = s[1] if s[0] == "extent" else s[1][2] if s[0] in ("field", "const") and s[1][0] in ("fa", "va") else None
            if is_x(v) and v[3] != 0:
                c = copy.deepcopy(case)
                w = c["stmts"][i][1] if s[0] == "extent" else c["stmts"][i][1][2]
                w[3] = 0  # the plainest spelling of the same value
                yield c

    def features(self, case, impl):
        ok, why = rules_ok(case)
        yield "expected:" + ("valid" if ok else "invalid")
        if not ok:
            yield "rule:" + why
        yield "res:" + str(impl.get("res"))
        if impl.get("res") == "invalid":
            yield "error:" + str(impl.get("soft_cls"))
        for v in case.get("violations") or []:
            yield "mutator:" + v
        route = "constructors" if case.get("route") == "ctor" else "read_files" if case.get("entry") == "files" else "read_namespace"
        yield "route:" + route
        hh = case["header"]
        for pos, nm in [("root", hh["ns"][0])] + [("nested", x) for x in hh["ns"][1:]] + [("type", hh["short"])] + [("attribute", st[2]) for st in case["stmts"] if st[0] in ("field", "const")]:
            for f in hostile_features(nm):
                yield "odd-character-name:%s:%s" % (pos, f.split(":")[0] + ":" + f.split(":")[2])
                yield "odd-character:%s" % f.split(":")[1]
                yield "odd-character-route:%s:%s" % (route, pos)
        for pos, nm in [("root", hh["ns"][0])] + [("nested", x) for x in hh["ns"][1:]] + [("type", hh["short"])] + [("attribute", st[2]) for st in case["stmts"] if st[0] in ("field", "const")]:
            if nm.isascii() and name_ok(nm) and keyword_like(nm):
                yield "keyword-like-name:%s:%s" % (pos, keyword_like(nm).split(":")[0])
                yield "keyword-like-word:" + keyword_like(nm).split(":")[1]
        if keyword_like(dep_ns(hh)) and all_deps(case):
            yield "keyword-like-name:referenced-root-namespace:%s" % keyword_like(dep_ns(hh)).split(":")[0]
            yield "keyword-like-word:" + keyword_like(dep_ns(hh)).split(":")[1]
        for st in case["stmts"]:
            if st[0] == "field" and st[1][0] in ("fa", "va"):
                cap = cap_of(st[1])
                if cap is not None and cap >= 254:
                    near = [(b, cap - (1 << b)) for b in (8, 16, 32, 64) if abs(cap - (1 << b)) <= 2]
                    yield "capacity-at:%s:%s" % (st[1][0], "2^%d%+d" % near[0] if near else "beyond-2^64" if cap > 1 << 64 else "other")
        for pos, v in arg_positions(case):
            n = x_int(v)
            yield "arg:%s:%s" % (pos, v[1] if v[1] != "int" else "huge" if abs(n) >= 1 << 60 else "negative" if n < 0 else "zero" if n == 0 else "integer")
            if v[1] in ("int", "q"):
                yield "arg-spelling:%s:%d" % (v[1], v[3] % 12)
        if case.get("history"):
            yield "history:%d" % len(case["history"])
            seq = str(case.get("seq") or "?").split("/")
            yield "seq:" + "/".join(seq[:1] + seq[2:3])
            if seq[0] == "name-twin":
                yield "lookalike:" + seq[1]
                yield "lookalike-at:" + seq[-1]
            for step, r in zip(case["history"], impl.get("history") or []):
                yield "earlier:%s-then-%s" % ("valid" if rules_ok(step)[0] else "invalid", "valid" if ok else "invalid")
        yield "kind:" + ("service" if any(s[0] == "marker" for s in case["stmts"]) else "message")
        if any(s[0] == "union" for s in case["stmts"]):
            yield "union"
        if case["header"]["port"] is not None:
            yield "fixed-port"

    def nontrivial(self, case, impl):
        return True


SUITE = RulesSuite()
