"""Registry entries of the text group (reader/builder automaton: C03, C17; static rules: C05)."""

_RULE = ("namespaces of 1-4 generated definitions (messages and services, structures and unions, fields of every primitive/array/"
         "composite kind, paddings, constants, @print/@assert/@deprecated/@union/@sealed/@extent, references up to depth 3) x "
         "formatting decorations (blank/tab runs, trailing blanks, LF/CRLF/mixed, final newline or not, empty / blank-only / "
         "comment-only lines anywhere, raw or newline-translated reading); a case is non-trivial if it has at least one statement")

REG = {
    "C03": {
        "module": "Props.C03",
        "suites": [("text", (3000, 40000))],
        "rule": _RULE + "; every case is a valid namespace, 70% carry a second rendering with other decorations and inserted lines",
        "technique": "Lean 4 theorems over an executable line/event model of the parser visitor and the builder (all documents, all line shapes) + differential correspondence with read_namespace/read_files + independent line-based reference, metamorphic renderings and canonical re-rendering",
        "level_text": "For the modelled reader (visitor call sequence of _parser.py, attribute queue/flush and directives of DataTypeBuilder/DataSchemaBuilder, finalize) it is proved in Lean 4 for all documents that an accepted definition yields exactly its field/padding statements in source order and its constant statements in source order, each once, with name, type, value, the flags and the request/response split as written, that the attached doc comments are the forward comment runs, and that a final empty line, blank/comment lines and the line-ending style change nothing (up to doc strings); the model is tied to /repo on every run by differential runs on generated definition texts.",
        "level_note": "Trusted: Lean kernel, standard axioms; the hand-written reader model is validated against the code by differential testing only; the character level (PEG engine, regexes, the Python renderer that turns abstract lines into text) is covered by the correspondence and the oracles, not by a theorem; types and expression values are opaque strings in the model.",
        "partial": ["character-level grammar (parsimonious, regular expressions) and the renderer: correspondence only",
                    "type normalisation and expression values are opaque in the reader model (checked by the independent reference and by C04/C05/C12)",
                    "canonical re-rendering (str(attribute) read again): oracle on the implementation only"],
        "assumptions": ["the Lean model Model/Reader.lean mirrors _parser.py/_data_type_builder.py/_data_schema_builder.py (validated by the text correspondence on every run)"],
    },
    "C17": {
        "module": "Props.C17",
        "suites": [("text", (5000, 50000))],
        "rule": _RULE + "; 70% of the cases carry one injected fault, 10% two (24 categories: syntax, bad type, undefined type/identifier, bad expression, "
                        "every directive misuse, bad names, bad constants, duplicate names, union arity, extent, aggregation, deprecation) at a random "
                        "position of a random definition (target or dependency at depth 1-3), 20% none (@print delivery only); 6% of the namespaces "
                        "contain string literals with raw line breaks (one statement on two physical lines); 30% of the definitions carry a regulated fixed "
                        "port-ID (file name prefix); faults of the definition's identity that are only detected when the finished composite is checked "
                        "(unregulated / out-of-range fixed port-ID, reserved type name, full name longer than 255 characters incl. .Response) are placed "
                        "like every other category, i.e. also in dependencies that are first reached through a reference (depth 1-3)",
        "technique": "Lean 4 theorems over the reader model with line numbers and the location-injection rules + differential correspondence on (path, line, @print deliveries) + independent oracle from the rendered text",
        "level_text": "For the modelled reader it is proved in Lean 4, for all documents and all line shapes, that a failed read reports either the untouched error of a referenced definition, or the own path without a line (finalize), or the own path with the number of a line that holds a statement (never a blank/comment line, also behind statements that span several physical lines); that an error raised while a lazily queued attribute is committed carries the line of the attribute's own statement; that at any dependency depth the definition at the reported path fails on its own with exactly the reported error; and that every @print of definitions without references is delivered exactly once with its own path and line. The statement that is false for the real code (@print in dependencies) is kept as *_statement with a decided counterexample; the model is tied to /repo by differential runs on generated faulty definitions.",
        "level_note": "Trusted: Lean kernel, standard axioms; the hand-written reader model is validated against the code by differential testing only; which Python statement raises first inside one DSDL statement is abstracted to a phase marker supplied by the generator.",
        "partial": ["@print in a referenced definition is delivered with the referrer's path, and twice when the definition is also an earlier target: false for the code (known findings), C17.print_counterexample; proved only for definitions without references",
                    "the phase of a fault inside a statement (before / after the first identifier, in the handler, at commit) is supplied by the generator, not derived from the text",
                    "@print deliveries that precede an error are compared by the correspondence only"],
        "assumptions": ["the Lean model Model/Reader.lean mirrors _parser.py/_error.py/_dsdl_definition.py/_namespace_reader.py (validated by the text correspondence on every run)"],
    },
    "C05": {
        "module": ["Props.C05", "Props.C05Gen"],
        "suites": [("rules", (6000, 120000))],
        "rule": "a valid skeleton (message or service, structure or union, fields of every primitive/array/composite kind, constants, paddings, "
                "dependencies sealed/deprecated/service of several sizes, vendor and standard root namespaces, fixed port-IDs, versions) with 0-3 "
                "rule violations or boundary moves out of 38 mutators (widths 0/1/2/64/65, float 15..65, capacities -5..2, reserved names in "
                "every letter case and pattern, duplicate names, union arity 0/1/2, void/utf8/byte placement, deprecated dependencies through "
                "arrays, every @sealed/@extent/@union/@deprecated/--- misplacement and duplication, extent max-8..max+9, versions 0.0/255/256, "
                "port-IDs at every range end +-1 with and without allow_unregulated, full-name length 254..257 incl. the .Response suffix); "
                "15% of the cases are SEQUENCES read one after the other in one process (the verdict on each must be the fresh-process one): "
                "the valid skeleton and its mutant in either order (optionally repeated), or a name and its look-alike in either order at type / "
                "root namespace / nested namespace / attribute position - other letter case, reserved words in other cases, every non-ASCII "
                "character that lower(), upper(), casefold(), NFKC, NFKD or int() turn into the ASCII character (U+212A, U+017F, U+0131, "
                "fullwidth and mathematical letters and digits, non-ASCII decimal digits), homoglyphs, invisible / blank characters added; "
                "the oracle re-evaluates the declarative rules on the mutated abstract definition",
        "technique": "Lean 4 theorems over an executable model of the constructor / builder checks (accept = ok iff the declarative rule conjunction, per-rule kernel lemmas for all values) + differential correspondence with read_namespace on rendered definitions + independent Python rule evaluator",
        "level_text": "For the modelled checks (type constructors, check_name, attribute constructors, aggregation checks, directive/marker handlers, composite/union/delimited/service constructors, port-ID ranges) it is proved in Lean 4 that a definition is accepted exactly when the conjunction of the named static rules of the property holds and is rejected (InvalidDefinitionError) otherwise, with per-rule lemmas for all widths, capacities, names (reserved words and patterns in any letter case), versions, port-IDs, statement orders; the model is tied to /repo on every run by differential runs on generated definitions with violations at every boundary.",
        "level_note": "Trusted: Lean kernel, standard axioms; the hand-written model of the checks is validated against the code by differential testing only; regular expressions of _name.py are transcribed by hand into list functions; names are ASCII in the model; constant values and expressions are outside this model (C04/C12); the longest-representation function used by the extent rule is the one of the model (its agreement with the real layout is C02's claim).",
        "partial": ["names are ASCII in the model (any non-ASCII character fails the character-set rule, as in the code since 000d3f2)",
                    "grammar-level rejections (width 0, cast mode on bool) are rejected in the model by the same rule predicates, the grammar itself is not modelled here"],
        "assumptions": ["the Lean model Model/Rules.lean mirrors the constructor and builder checks (validated by the rules correspondence on every run)"],
    },
}
