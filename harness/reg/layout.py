"""Registry entries of the layout group (C02, C08, C14 layout half, C16, C18)."""

_NOTE = ("Trusted: Lean kernel, axioms propext/Classical.choice/Quot.sound, Mathlib; the hand-written model Model/Layout.lean is "
         "validated against the constructors of pydsdl/_serializable by differential testing on every run (not proved equal to the code); "
         "the Specification text is not available offline: Spec definitions are my formalisation of the property statement.")

REG = {
    "C02": {
        "module": "Props.C02",
        "suites": [("layout", (1200, 40000))],
        "rule": "random type trees (depth 1-4: every primitive width 1..64, voids, fixed/variable arrays with capacities at the 2**8/2**16/2**32/2**64 "
                "boundaries, structures, unions incl. 255..258 variants, delimited types with admissible and inadmissible extents) built through the "
                "public constructors; queries: alignment, extent, min/max/residues/expansion of bit_length_set, prefix/tag/header widths; "
                "non-trivial = accepted type of depth >= 1 with at least one query; distinct = distinct (type, queries)",
        "technique": "Lean 4 theorems over an executable layout model (structural induction over all type trees) + differential correspondence with the real constructors",
        "level_text": "For the modelled type constructors it is proved in Lean 4, for all type trees, that the bit length set expression built by the library denotes the "
                      "Specification's length set, that every length is a multiple of the alignment (composites: of 8), that prefix and tag widths are the smallest of 8/16/32/64 "
                      "that hold the capacity / variant index, that a sealed composite's extent is its longest representation and that a delimited composite's set is header + {0,8,..,extent}; "
                      "the model is tied to the code by running both on generated type trees on every run.",
        "level_note": _NOTE,
        "partial": [],
        "assumptions": ["Model/Layout.lean mirrors pydsdl/_serializable (validated by the layout correspondence on every run)"],
    },
}
