"""Registry entries of the layout group (C02, C08, C14 layout half, C16, C18)."""

_NOTE = ("Trusted: Lean kernel, axioms propext/Classical.choice/Quot.sound, Mathlib; the hand-written model Model/Layout.lean is "
         "validated against the constructors of pydsdl/_serializable by differential testing on every run (not proved equal to the code); "
         "the Specification text is not available offline: Spec definitions are my formalisation of the property statement."
         " Since round 3 the constructor code itself is also translated to Lean from /repo on every run (tools/py2lean.py -> lean/Gen/Layout.lean) and proved, in Bridge/Layout.lean, to return exactly the model's values without raising (theorems C0x.gen_*).")

REG = {
    "C02": {
        "module": ["Props.C02", "Props.C02Gen"],
        "suites": [("layout", (1200, 40000))],
        "rule": "random type trees (depth 1-4: every primitive width 1..64, voids, fixed/variable arrays with capacities at the 2**8/2**16/2**32/2**64 "
                "boundaries, structures, unions incl. 255..258 variants, delimited types with admissible and inadmissible extents) built through the "
                "public constructors; queries: alignment, extent, min/max/residues/expansion of bit_length_set, prefix/tag/header widths; "
                "plus pools of 2-4 definitions sharing sub-objects (one object handed to several constructors / one DSDL file referred to by several "
                "others, incl. definitions that print `_offset_`) with scripts of 4-16 queries on the definitions and their members in varied orders "
                "(aggregate first, member first, random; numerical expansion of sets and field offsets and analytical queries; types built on "
                "already-queried objects): every answer must be the Specification's value of that type alone; "
                "images: in about one case in six the queries are answered by the IMAGE of the built type under a chain of pickle round trips (every protocol) / copy.copy / copy.deepcopy, "
                "taken before or after the original was queried, and the original is queried again afterwards; in pools definitions are replaced by their images when built (later definitions "
                "are built on top of images), the whole namespace model or single types are imaged after reading, and definitions are re-imaged between two queries; "
                "non-trivial = accepted type of depth >= 1 with at least one query; distinct = distinct (type, queries)",
        "technique": "Lean 4 theorems over an executable layout model (structural induction over all type trees), re-checked on every run against Lean definitions translated from the constructors' Python source (py2lean + bridge theorems) + differential correspondence with the real constructors",
        "level_text": "For the modelled type constructors it is proved in Lean 4, for all type trees, that the bit length set expression built by the library denotes the "
                      "Specification's length set, that every length is a multiple of the alignment (composites: of 8), that prefix and tag widths are the smallest of 8/16/32/64 "
                      "that hold the capacity / variant index, that a sealed composite's extent is its longest representation and that a delimited composite's set is header + {0,8,..,extent}; "
                      "the model is tied to the code by running both on generated type trees on every run.",
        "level_note": _NOTE,
        "partial": [],
        "assumptions": ["Model/Layout.lean mirrors pydsdl/_serializable (validated by the layout correspondence on every run)"],
    },
    "C08": {
        "module": ["Props.C08", "Props.C08Gen"],
        "suites": [("layout", (1200, 40000))],
        "rule": "random composite types (as for C02) x 1-2 base offset sets each (aligned or not, single or multi-valued) x every field position; "
                "fixed-length arrays of <= 12 elements for element offsets; `_offset_` at a random position and after the last field, and "
                "`_bit_length_` / `_extent_`, evaluated by the real parser on rendered DSDL text; definition programs: one message / service "
                "definition (padding-rich structures, unions, sealed or delimited) in which `_offset_` is evaluated 2-8 times - at the very start, "
                "before and after padding fields, constants, comments, regular fields, on both sides of `---`, repeatedly after the last union "
                "variant, twice in one expression, with member definitions that evaluate `_offset_` themselves - each evaluation compared with the "
                "real position set at that point; the shared-object pools and the pickle / copy / deepcopy images of C02 (about one case in five: every layout observable - bit_length_set, extent, "
                "alignment, field and element offsets for the base offset sets, `_bit_length_` / `_extent_` printed by the parser against the image - on images taken before and after first queries, "
                "on the original afterwards, on types built on top of images and on re-imaged pool definitions, judged against the independent reference layout); non-trivial = accepted type of depth >= 1 with a query",
        "technique": "Lean 4 theorems over the executable offset model, re-checked on every run against Lean definitions translated from the iterate_fields_with_offsets generators' Python source (py2lean + bridge theorems) + differential correspondence with iterate_fields_with_offsets / DSDL intrinsics",
        "level_text": "Proved in Lean 4 for all composites, base offset sets and field positions: the offset expressions built by iterate_fields_with_offsets / "
                      "enumerate_elements_with_offsets denote exactly the specified start positions (previous start + any previous length, padded to the field's alignment), one per field in order; "
                      "union variants share base + tag; delimited types add the header; `_offset_` after j fields is the set of lengths of everything before and the API offset is its padding; "
                      "`_bit_length_` expands to the Specification's set. Model tied to the code by correspondence on every run.",
        "level_note": _NOTE + " That the specified start positions are the positions produced by serialization is the subject of C06 (wire model).",
        "partial": ["`T._extent_ = T.extent` and the delivery of intrinsic values through the expression evaluator are observed by correspondence only"],
        "assumptions": ["Model/Layout.lean mirrors the three iterate_fields_with_offsets, enumerate_elements_with_offsets and DataSchemaBuilder.offset"],
    },
    "C14": {
        "module": ["Props.C14Layout"],
        "suites": [("evolve", (600, 20000))],
        "rule": "pairs (D, D') of delimited structures/unions with equal extent where one field list is a prefix of the other, nested 1-3 levels deep as field, "
                "array element, union variant or inside a nested delimited container; all layout queries of C02/C08 on both containers must agree; distinct = distinct pair+queries",
        "technique": "Lean 4 congruence theorem (a container's layout factors through the erasure of its delimited members) + differential correspondence on container pairs",
        "level_text": "Proved in Lean 4 for all containers: bit length set expression, alignment, extent and all field offsets of a container are functions of the type with the contents of "
                      "every nested delimited member erased (only its extent kept), hence unchanged by any same-extent revision at any nesting position. Tied to the code by correspondence on generated container pairs.",
        "level_note": _NOTE,
        "partial": ["wire half (data written with one revision read with the other) is covered by the wire group"],
        "assumptions": ["Model/Layout.lean mirrors DelimitedType.__init__ (bit length set from extent and alignment only)"],
    },
    "C16": {
        "module": "Props.C16",
        "suites": [("cost", (500, 15000))],
        "rule": "random type shapes (depth 1-4: arrays of sub-byte and byte-aligned elements, structures, unions, delimited types) instantiated at two scales with capacities/extents "
                "congruent modulo 64: a few hundred, and 2**40..2**63; the property's query script (min/max/extent/fixed_length, byte alignment of the type and every field offset, ==, hash) "
                "is run on both with enumeration counters installed from the harness; one case in five renders the shape as a NAMESPACE of DSDL files "
                "(one file per composite, 1-3 minor versions of a type under one major version - fields renamed, a void turned into a field and back, constants, "
                "fields added / dropped under one extent -, v0.x and other-major versions with other layouts, a service in two minor versions referring to the types, "
                "@assert / @print directives that do not mention _offset_ / _bit_length_) which is read twice with read_namespace and queried type by type at four "
                "capacity scales (hundreds / tens of thousands with 16-bit prefixes, then 2**32.. / ..2**63 with 64-bit prefixes; within each pair the enumeration "
                "counters and the number of Python-level calls must coincide up to noise, and no expansion may happen); "
                "one case in six is a WIDE shape: 10-40 members side by side, most of them variable-length arrays of 1-bit / 8-bit / odd-width / multi-byte primitives "
                "(plus fixed arrays, scalars, voids), as a structure, a union, a delimited structure / union, a member or an array element of an outer structure, "
                "with composite-typed members cutting the run, or as a union of two wide structures; built through the constructors or rendered as a namespace "
                "(a service whose sections consist of the members themselves, a definition nesting the type in arrays, renamed minor versions); queried at the four "
                "capacity scales with the script above plus !=, dict / set lookup, bit_length_set % 8, ==/hash of members and their types, min/max/==/hash/% 8 of the "
                "offset of the first / middle / last member, the inner type of a delimited type and composites one level down; the counters give up (reported with "
                "the type and the query) beyond a budget that the oracle derives from the shape alone: 4 x the uncached work of the pairwise symbolic analysis of the "
                "Specification's expression at the smallest scale; "
                "non-trivial = accepted shape of depth >= 1; distinct = distinct pair",
        "technique": "Lean 4 bound on a cost model of the symbolic solver (independent of repetition counts) + measured enumeration counters of the real library compared with the model and across capacity scales",
        "level_text": "Cost is modelled as the number of integers passing through itertools.product / combinations_with_replacement and leaf iteration during residue queries. Proved in Lean 4 for all operator trees and "
                      "divisors: the cost is bounded by a function that never inspects repetition counts or leaf values, residue sets handed to enumeration never exceed the divisor, and for types of the same shape "
                      "(any capacities, extents, widths) the bound is identical. The real library's counters are compared with the model and across scales on every run.",
        "level_note": _NOTE + " Wall-clock time and memory are runtime notions: observed with generous thresholds only; memoisation is modelled as 'may only lower the cost'.",
        "partial": ["wall time and memory are not Lean notions (threshold check only)",
                    "the memoised cost is bounded by, not equal to, the modelled uncached cost"],
        "assumptions": ["Op.cost in Model/Bls.lean counts what _symbolic.py enumerates (validated by the counters on every run)"],
    },
    "C18": {
        "module": "Props.C18",
        "suites": [("values", (2500, 60000))],
        "rule": "pairs of objects of one class built independently from equal or mutated descriptions: bit length set expressions, types (primitives, voids, arrays, sealed / delimited "
                "structures and unions, incl. same-named composites with different contents nested in arrays), fields / padding / constants, expression values (rationals written "
                "differently, booleans, NFC / NFD strings, sets); every public list accessor of both objects is mutated and re-queried, both objects are pickled and compared, "
                "looked up in sets / dicts / lists keyed by the other; histories: every object on the way (element, field type, inner type, request / response section) may be hashed, "
                "compared, kept in a set / dict, pickled, copied, queried or wrapped into other objects BEFORE it is handed to the next public constructor (arrays, Field / PaddingField / "
                "Constant, StructureType, UnionType, DelimitedType, ServiceType), the result is compared member by member with a twin built without history; pairs of DIFFERENT kinds with "
                "one full name and version (service / structure / union / delimited, X vs array of X, padding vs nameless void field, rational vs boolean vs string vs set), both directions; "
                "non-trivial = objects built successfully; distinct = distinct pair",
        "technique": "Lean 4 theorems over the equality / hash keys of the model objects + differential correspondence and contract oracle on independently built object pairs",
        "level_text": "Proved in Lean 4 for all values of the key model (Model/Values.lean): BitLengthSet / type / attribute / expression-value equality is reflexive and symmetric, equal objects have equal "
                      "hash keys, objects differing in class, string form or (min, max, residues mod 32) are unequal, and BitLengthSet equality never separates two expressions that denote the same set. "
                      "The key model is tied to the real __eq__/__hash__ by correspondence on every run; accessor aliasing and pickling are checked on the real objects.",
        "level_note": _NOTE + " Object identity (aliasing of returned lists) and pickling are runtime notions: observed on the real objects only.",
        "partial": ["lists returned by accessors are copies / pickling round-trips: runtime notions, checked by the oracle on every generated object, no theorem",
                    "Python's hash() itself is not modelled: the theorem is about the tuple that is hashed"],
        "assumptions": ["Model/Values.lean lists exactly what the __eq__/__hash__ methods inspect (validated by the values correspondence)"],
    },
}
