"""Registry entries of the wire group (C06, C07) and the wire half of C14 (merged into the C14 entry by the coordinator)."""

_RULE_TYPES = ("random type trees built through pydsdl's public constructors (depth 1-4; every primitive width 1..64 and both "
               "cast modes; byte / utf8 arrays; padding; fixed and variable arrays with capacities incl. 255/256/65535/65536; "
               "unions of 2..6 and 255/256/257 variants; sealed and delimited composites with extent equal to / above the minimum; "
               "with and without the top-level delimiter header)")

_RULE_LOOKALIKE = ("; about 9% of the cases are HISTORIES within one process over 2-3 DIFFERENT types that share one full name and version "
                   "at every position of the tree and whose bit length sets pydsdl's approximate `==`/hash cannot tell apart (declaration order of "
                   "fields / variants permuted with or without the names, same-width leaves of another kind such as intN/uintN/floatN/bool[N]/void, "
                   "cast mode flipped, fields renamed, another body or another revision of a nested delimited type with the same extent), used one "
                   "after another and in alternation (3-8 steps; objects built up front or at first use): every step is judged as if it stood alone "
                   "and must equal the outcome on a freshly built, uniquely named structural twin")

_MODEL = "the Lean model Model/Wire.lean mirrors _serdes.py and the layout parameters of _serializable/*.py (validated by the wire correspondence on every run)"

_TRUST = ("Trusted: Lean kernel, axioms propext/Classical.choice/Quot.sound; the hand-written model is validated against the code by "
          "differential testing only (thousands of (type, value) / (type, bytes) pairs per run), not proved equal to it; "
          "IEEE-754 conversion of Python floats is struct.pack's and is checked against an exact rational reference by the oracle only.")

REG = {
    "C06": {
        "module": ["Props.C06", "Props.C06Complete", "Props.C06Relaxed", "Props.C06WireIO", "Props.C06Float", "Props.C06Gen"],
        "suites": [("wire", (8000, 150000)), ("floatconv", (3000, 60000))],
        "rule": _RULE_TYPES + " x values (boundary and out-of-range integers up to 2**70, bool-as-int, NaN/inf/subnormal/tie floats and huge "
                "ints for float fields, empty and full arrays, multi-byte UTF-8 as str and bytes, omitted fields, shuffled dict order), "
                "each as explicit dict, as relaxed positional / bare-value form, or with one shape violation; 2-5 values per type"
                + "; suite floatconv: (width, cast mode, finite float or int) with the number at / next to a representable value, a midpoint between two "
                "neighbours, the subnormal range, the largest finite value and the overflow threshold, ints up to 10**400 incl. ints that are not doubles"
                + _RULE_LOOKALIKE + " (steps: serialize plain / relaxed / with a shape violation, deserialize a reference encoding whose value is known, "
                "deserialize arbitrary bytes); non-trivial = every case; distinct = distinct (type, value, flags)",
        "technique": "Lean 4 theorems over an executable model of the codec (mutual structural induction over all types and values); the bit-level writer / reader classes are re-translated from the working tree on every run and proved equal to the two-path buffer model (py2lean_serdes: Gen.Serdes, Bridge.Serdes) and the serializer functions for float-free types in strict mode likewise (py2lean_codec: Gen.Codec, Bridge.CodecSer, Props.C06Gen: generated encoder = model encoder, round trip over generated encoder and decoder) + "
                     "differential correspondence with pydsdl.serialize/deserialize + independent reference encoder and exact-rational float oracle",
        "level_text": "For the modelled codec it is proved in Lean 4, for all well-formed types, all valid values, every aligned offset and any trailing "
                      "data, that decoding an encoding returns the value and stops at its end; that the encoding's bit length lies in a length set "
                      "defined by recursion over the type (multiple of the alignment, at most the maximum); that every input serialize accepts "
                      "(cast modes, omitted fields) becomes a valid value and round-trips; saturation/truncation formulas for every width; defaults "
                      "for omitted fields; that the length set has no spurious element (C06.length_complete / C06.length_set_exact: for types without "
                      "delimited members every element is the encoding length of a valid value; C06.length_complete_delimited: behind a delimiter header "
                      "every announced length is written by some conforming revision; C06.length_complete_reader: for all types every element is the exact "
                      "number of bits the type's decoder consumes on an accepted representation; C06.bit_length_set_exact ties this to the set denoted by the "
                      "library's bit_length_set expression); that relaxed input is its explicit form (C06.relaxed_explicit, C06.relaxed_idempotent, "
                      "C06.relaxed_positional, C06.relaxed_bare) and that relaxed mode is a conservative extension of strict mode (C06.relaxed_conservative); "
                      "that the codec written as a driver of the two-path _BitWriter / _BitReader model computes exactly the stream encoder / decoder "
                      "(C06.writer_refines_enc, C06.serialize_bytes, C07.reader_refines_dec, C07.deserialize_bytes, C06.bytes_roundtrip). The model is tied to _serdes.py by running both on generated (type, value) pairs on every run, and the real "
                      "output is compared with an independent reference encoding, the real bit_length_set and the explicit-form bytes.",
        "level_note": _TRUST,
        "partial": [
            "floats are carried as IEEE bit patterns in the codec model; the numeric conversion number -> pattern is WireFloat.roundBinary / roundInt "
            "(Model/Float.lean: exact fraction -> binary16/32/64, round half even, saturation to +-max, overflow to +-inf at the IEEE threshold; ints go "
            "through binary64 first as float(int) does) with theorems C06.float_exact / float_decode_round (exact on representable numbers), float_nearest / "
            "float_half_ulp (no finite pattern is closer), float_tie_even, float_saturate, float_overflow, float_finite_below, float_sign, float_monotone; "
            "its equality with struct.pack / _serialize_primitive is by correspondence (suite floatconv: finite floats and ints around every rounding boundary, "
            "subnormals, overflow thresholds, all widths and cast modes, judged by the exact-rational oracle float_bits); the codec model itself still "
            "receives the pattern (Inp.flt), i.e. roundBinary is not composed with Wire.coerce inside Lean; NaN payloads and infinities are passed through and not compared",
            "relaxed input: str/bytes leaves and float-for-int leaves are outside Wire.normalize (they are not touched by _normalize_relaxed_value); "
            "C06.relaxed_conservative assumes pairwise distinct dict keys (true of every Python dict; the model's dicts are association lists)",
            "C06.length_complete (encoder side, a VALID value for every element of the length set) is for types without delimited members; with delimited "
            "members an array of a delimited type has lengths that no single revision of the element type realises, so the general statement is the "
            "reader-side C06.length_complete_reader plus C06.length_complete_delimited for one delimited object",
            "bool/int fields given as Python floats (round()) are not generated",
            "membership of the length in the REAL bit_length_set is checked by the oracle (min/max, residues mod 8, expansion when small); the theorem "
            "C06.length is about the model's own length predicate HasLen (its equality with the library's BitLengthSet belongs to C02)",
            "both code paths of _BitWriter/_BitReader: Props/C06BitIO.lean + Props/C06WireIO.lean prove that the codec driven over the two-path byte-buffer "
            "model (Model/WireIO.lean: write_bits / align_to / finish / read_bits / remaining_bits / bounded_subreader in Python's call order) equals Wire.enc / "
            "Wire.dec; Model/BitIO.lean's writer is tied to the private class _BitWriter by TRANSLATION: Gen/Serdes.lean is re-generated from "
            "_serdes.py on every run (tools/py2lean_serdes.py; state-passing, byte buffers, write_bits' self-call with CPython's recursion limit as fuel) and "
            "Bridge/Serdes.lean proves that the generated write_bits / align_to / finish never raise and equal BitIO.writeBits / alignTo on the bit view of the "
            "byte buffer from every state whose position is not behind the end of its buffer - all three buffer cases of the aligned branch and the bit-wise "
            "loop (C06.gen_write_bits_is_model, C06.gen_write_bits_appends, C06.gen_align_to_pads, C06.gen_writer_history); trusted there: the translator and "
            "lean/PyLib.lean (meaning of divmod, shifts, masks, `x & ~m`, int.to_bytes / from_bytes, bytearray slice / item assignment, extend / append); "
            "what remains by correspondence only is the call order of Model/WireIO.lean (its results are proved equal to the validated Wire.enc / Wire.dec; a trace "
            "comparison is not implemented) and that write_bits is only called with non-negative values (the callers mask them)",
            "the SERIALIZER's call order and input handling are tied by TRANSLATION as well (float-free types, strict mode): serialize, "
            "_serialize_primitive, _serialize_array, _serialize_element, _serialize_composite, _serialize_field_value and _default_value are "
            "translated on every run (tools/py2lean_codec.py -> Gen/Codec.lean: Python values inspected dynamically, Python ints as Int incl. "
            "`&` on negative ints, the union search loop with break, _DEFAULT_SENTINEL, the temporary _BitWriter of delimited types) and "
            "Bridge/CodecSer.lean proves by recursion over the schema object graph that for every object graph as pydsdl's constructors build "
            "it (okT) WITHOUT FLOAT TYPES and with pairwise distinct field names (serOk), every writer state whose position is not behind its "
            "buffer and every plain Python value (no float objects; str = valid UTF-8) the generated code writes exactly what Wire.coerce "
            "followed by WireIO.encW writes, or raises the exception of the model's error class (gen_serialize_primitive, gen_ser_fixedArray, "
            "gen_ser_varArray, gen_ser_structure, gen_ser_union, gen_ser_delimited, sgood, gen_serialize; gen_default_value, defCo for "
            "_default_value); in particular write_bits is proved to be called with non-negative values only. Props/C06Gen.lean: "
            "C06.gen_sat_unsigned / gen_trunc_unsigned / gen_sat_signed (saturation and truncation formulas over the generated code), "
            "C06.gen_default_value, C06.gen_serialize_is_model (= Wire.serialize: same bytes or same error class) and C06.gen_roundtrip: the bytes "
            "the GENERATED serialize returns, followed by anything, are decoded by the GENERATED deserialize to the Python value of the canonical "
            "value the input denotes. Not covered by the serializer tie: float fields (the conversion region of _serialize_primitive - float(), "
            "saturation, struct.pack with OverflowError handling - is outside the translated fragment and appears as an uninterpreted function "
            "keyed by a hash of its text; float objects given to bool / int fields likewise), relaxed=True (_normalize_relaxed_value is an "
            "uninterpreted external function); for those the hand-written model and the wire / floatconv correspondences remain the tie",
        ],
        "assumptions": [_MODEL],
    },
    "C07": {
        "module": ["Props.C07", "Props.C06WireIO", "Props.C07Gen"],
        "suites": [("wire", (12000, 150000))],
        "rule": _RULE_TYPES + " x byte strings: random bytes (uniform, mostly-zero, constant), a valid representation (reference encoder) with junk "
                "suffixes, prefixes of valid representations (all prefixes for short ones), 1-2 bit flips, one length prefix / union tag / delimiter "
                "header overwritten with an illegal value (at any nesting depth); a delimited object (any depth, or the top-level one with header) "
                "whose header is lowered so that the payload ends early - preferably right behind the length prefix / inside an array - with the "
                "enclosing headers adjusted and everything behind it (sibling fields, further array elements; junk at the top level) kept, compared "
                "with the same payload filled up with explicit zeros; a quarter of the types are made for that (delimited structures / unions with "
                "byte, utf8, uint8 and other arrays, at the top level and nested as field, array element, union variant, nested delimited); "
                "every byte string also with 2-4 zero / junk suffixes" + _RULE_LOOKALIKE.replace("about 9%", "about 1%") + " (steps: deserialize); "
                "non-trivial = non-empty byte string; distinct = distinct (type, bytes, flags)",
        "technique": "Lean 4 theorems over the executable decoder model; _BitReader is re-translated from the working tree on every run and proved equal to the reader model (py2lean_serdes: Gen.Serdes, Bridge.Serdes) and so is the whole deserializer (py2lean_codec: Gen.Codec, Bridge.Codec, Props.C07Gen: generated deserialize = model, totality, zero extension, truncation) + differential correspondence with pydsdl.deserialize + metamorphic oracle on the real library",
        "level_text": "For the modelled decoder it is proved in Lean 4, for all types and all bit strings: totality with only the four decode error classes; "
                      "every returned value is valid and a fixed point of encode/decode; implicit truncation; stability of every decoding step under zero "
                      "extension of the window (including bounded sub-readers) and its converse up to DelimiterHeaderError; rejection of over-capacity lengths, out-of-range tags and oversized headers. "
                      "The model is tied to _serdes.py by running both on generated byte strings on every run; exception classes, fixed point, truncation, "
                      "zero extension and rejection are also checked directly on the real library.",
        "level_note": _TRUST,
        "partial": [
            "exception behaviour of CPython itself (RecursionError on very deep types, MemoryError) is outside the model",
            "'no dependence on data outside b' is purity of the Lean function; on the Python side it is observed only through determinism of the differential runs",
            "both read paths (aligned fast path, bit-wise slow path): C07.reader_refines_dec / C07.deserialize_bytes (Props/C06WireIO.lean) prove that the "
            "decoder driven over the two-path _BitReader model (limit logic, remaining_bits check, bounded sub-readers) returns exactly what Wire.dec "
            "returns, value or error class, for every well-formed type and every reader state satisfying the invariant RInv (start <= offset, limit within "
            "the data), which the initial reader satisfies and every step preserves; Model/BitIO.lean's reader is tied to the private class _BitReader by "
            "TRANSLATION (Gen/Serdes.lean re-generated from _serdes.py on every run; Bridge/Serdes.lean): for every reader state whose data are bytes and whose "
            "position is not before its start the generated read_bits (limit logic, aligned branch with zero padding, bit-wise loop, both self-calls), align_to, "
            "bounded_subreader, remaining_bits never raise and equal BitIO.readBits / Rd.alignTo / Rd.sub / Rd.remaining (C07.gen_read_bits_is_model, "
            "C07.gen_read_bits_window, C07.gen_reader_history, C07.gen_sub_reader_window, C07.gen_remaining_bits, C07.gen_reader_align_to); trusted there: the "
            "translator and lean/PyLib.lean",
            "the CALL ORDER of the decoder is no longer by correspondence only: the functions deserialize, _deserialize_primitive, _deserialize_array, "
            "_deserialize_element, _deserialize_composite, _deserialize_field_value are TRANSLATED on every run (tools/py2lean_codec.py -> Gen/Codec.lean: schema "
            "objects as Py.Obj with dynamic attribute access and isinstance along the class hierarchy, Python values as Py.Value, the _BitReader state threaded "
            "explicitly incl. the bounded sub-reader, one unit of fuel per Python frame, every raise with its exception class, messages evaluated for their "
            "effects) and Bridge/Codec.lean proves, by recursion over the schema object graph, that for every object graph as pydsdl's constructors build it "
            "(okT: length / tag / delimiter-header field types of the computed widths, byte-aligned composites, padding fields exactly on void types, a delimited "
            "type wraps a structure or union) with a well-formed descriptor, every reader state whose data are bytes and whose position is not before its start, "
            "and fuel >= nesting depth, the generated code returns exactly what Model/WireIO.lean's decR / deserializeR return - the Python value of the model's "
            "value (dict by field name without padding, one-entry dict for unions, str / bytes / list for arrays) and the same reader position, or the exception "
            "of the model's error class (gen_primitive, gen_fixedArray, gen_varArray, gen_structure, gen_union, gen_delimited, good, gen_deserialize); "
            "Props/C07Gen.lean restates C07 over the generated deserialize: C07.gen_deserialize_is_model (= Wire.deserialize), C07.gen_deserialize_total (a value "
            "or ArrayLengthError / UnionTagError / DelimiterHeaderError / ValueError - never IndexError, KeyError, TypeError, AttributeError, struct.error, "
            "AssertionError, RecursionError, which the generated code could raise), C07.gen_zero_ext, C07.gen_zero_ext_conv, C07.gen_truncation, C07.gen_fixed_point; "
            "hypothesis depth <= 1000 (CPython's recursion limit: deeper types raise RecursionError in Python as well); trusted there: the translator, "
            "lean/PyLib.lean and lean/PyLib/Codec.lean (meaning of attribute access / isinstance on schema objects, dict item assignment, bytes(list), "
            "bytes.decode('utf-8') = Wire.validUtf8, struct.unpack as bit pattern); what remains by correspondence only on the decoder side: that real schema "
            "objects satisfy okT with the descriptor the harness sends (layout attributes: C02 / Gen.Layout) and the float <-> bit pattern conversion of struct",
        ],
        "assumptions": [_MODEL],
    },
}

# wire half of C14; the coordinator merges this into the C14 entry (module list, suite list, partial notes)
C14_WIRE = {
    "module": ["Props.C14Wire", "Props.C14WireGeneral", "Props.C14Gen"],
    "suites": [("wire", (6000, 60000))],
    "rule": "pairs (D, D') of delimited structures with a common extent where one field list (0-4 random fields incl. nested composites, arrays, "
            "padding) is a proper prefix of the other (1-3 more fields), nested 1-3 levels deep as structure field (fields before and after), "
            "fixed / variable array element, union variant, or inside a further delimited structure; random values of the writer's type; both "
            "directions (fields appended / removed); 12% of the pairs are delimited UNIONS gaining / losing trailing variants (common variants must "
            "read alike, a variant unknown to the reader must be rejected, never decoded as something else); "
            "12% of the cases are histories of 2-6 write/read steps in one process with the two containers built under ONE full name and version "
            "(old and new checkout side by side; equal bit length sets, so pydsdl's `==`/hash cannot tell them apart) in every order: "
            "old -> new, new -> old, each its own data, each step also compared with freshly built uniquely named twins; "
            "distinct = distinct (writer type, reader type, value)",
    "partial": [
        "wire half: C14.wire (one nesting path) is generalised by C14.wire_general (Props/C14WireGeneral.lean) to ANY number of revised delimited "
        "structures at any positions at once, revised members inside revised structures included, and to unions gaining trailing variants "
        "(relation Wire.Evolves writer reader, adapted value Wire.adapt); not covered: a union LOSING variants (an old reader rejects an unknown tag "
        "with UnionTagError - C07.rejects_tag - never mis-decodes), and changes of array capacity or primitive types (not allowed by the Specification)",
        "the READER of the wire half is also the code generated from _serdes.py on every run (Gen/Codec.lean, Bridge/Codec.lean): C14.gen_reads_appended / "
        "C14.gen_reads_removed (Props/C14Gen.lean) state C14.wire_appended / wire_removed for the generated deserialize applied to two delimited structure "
        "objects whose field lists are fs and fs ++ gs - the new reader returns the old reader's dict extended by the added fields with default values, the old "
        "reader returns the dict of the fields it knows - at the top level with delimiter header; nested positions go through C14.wire_general on the model "
        "plus C07.gen_deserialize_is_model; the writer in these two theorems is the model's encoder Wire.enc",
    ],
    "assumptions": [_MODEL],
    "technique": "Lean 4 theorems over the executable codec model + differential correspondence with pydsdl.serialize/deserialize across revisions + structural adapt oracle",
    "level_text": "For the modelled codec it is proved in Lean 4 that a delimited structure written with field list fs is read with fs++gs (and vice versa) such that "
                  "common fields keep their values, new fields read as defaults, unknown fields are skipped, and the reader ends exactly where the writer's "
                  "representation ends, at any aligned offset with any trailing data, and that this lifts to every nesting position (structure field, union "
                  "variant, array element, nested sealed/delimited composites, any depth), so everything after the nested object is read correctly; the general form "
                  "(C14.wire_general) allows any number of revised delimited structures anywhere in the type at once. "
                  "The model is tied to _serdes.py by the wire correspondence.",
    "level_note": _TRUST,
}

