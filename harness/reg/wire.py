"""Registry entries of the wire group (C06, C07) and the wire half of C14 (merged into the C14 entry by the coordinator)."""

_RULE_TYPES = ("random type trees built through pydsdl's public constructors (depth 1-4; every primitive width 1..64 and both "
               "cast modes; byte / utf8 arrays; padding; fixed and variable arrays with capacities incl. 255/256/65535/65536; "
               "unions of 2..6 and 255/256/257 variants; sealed and delimited composites with extent equal to / above the minimum; "
               "with and without the top-level delimiter header)")

_RULE_LOOKALIKE = ("; about 9% of the cases are HISTORIES within one process over 2-3 DIFFERENT types that share one full name and version "
                   "at every position of the tree and whose bit length sets pydsdl's approximate `==`/hash cannot tell apart (declaration order of "
                   "fields / variants permuted with or without the names, same-width leaves of another kind such as intN/uintN/floatN/bool[N]/void, "
                   "cast mode flipped, fields renamed, another body or another revision of a nested delimited type with the same extent), used one "
                   "after another and in alternation (3-8 steps; objects built up front or at first use): every step is judged as if it stood alone "
                   "and must equal the outcome on a freshly built, uniquely named structural twin")

_MODEL = "the Lean model Model/Wire.lean mirrors _serdes.py and the layout parameters of _serializable/*.py (validated by the wire correspondence on every run)"

_TRUST = ("Trusted: Lean kernel, axioms propext/Classical.choice/Quot.sound; the hand-written model is validated against the code by "
          "differential testing only (thousands of (type, value) / (type, bytes) pairs per run), not proved equal to it; "
          "IEEE-754 conversion of Python floats is struct.pack's and is checked against an exact rational reference by the oracle only.")

REG = {
    "C06": {
        "module": ["Props.C06"],
        "suites": [("wire", (8000, 150000))],
        "rule": _RULE_TYPES + " x values (boundary and out-of-range integers up to 2**70, bool-as-int, NaN/inf/subnormal/tie floats and huge "
                "ints for float fields, empty and full arrays, multi-byte UTF-8 as str and bytes, omitted fields, shuffled dict order), "
                "each as explicit dict, as relaxed positional / bare-value form, or with one shape violation; 2-5 values per type"
                + _RULE_LOOKALIKE + " (steps: serialize plain / relaxed / with a shape violation, deserialize a reference encoding whose value is known, "
                "deserialize arbitrary bytes); non-trivial = every case; distinct = distinct (type, value, flags)",
        "technique": "Lean 4 theorems over an executable model of the codec (mutual structural induction over all types and values) + "
                     "differential correspondence with pydsdl.serialize/deserialize + independent reference encoder and exact-rational float oracle",
        "level_text": "For the modelled codec it is proved in Lean 4, for all well-formed types, all valid values, every aligned offset and any trailing "
                      "data, that decoding an encoding returns the value and stops at its end; that the encoding's bit length lies in a length set "
                      "defined by recursion over the type (multiple of the alignment, at most the maximum); that every input serialize accepts "
                      "(cast modes, omitted fields) becomes a valid value and round-trips; saturation/truncation formulas for every width; defaults "
                      "for omitted fields. The model is tied to _serdes.py by running both on generated (type, value) pairs on every run, and the real "
                      "output is compared with an independent reference encoding, the real bit_length_set and the explicit-form bytes.",
        "level_note": _TRUST,
        "partial": [
            "floats are carried as IEEE bit patterns in the model; numeric float -> pattern conversion (rounding, saturation to +-max, overflow to inf) "
            "is struct.pack's: checked on every run against an exact-rational round-half-even reference in the oracle, no theorem; NaN payloads are not compared",
            "relaxed input normalisation (_normalize_relaxed_value) is modelled (Wire.normalize) and compared on every run, and the oracle checks "
            "relaxed bytes == explicit bytes on the real library; there is no Lean theorem relating normalize to the explicit form",
            "bool/int fields given as Python floats (round()) are not generated",
            "membership of the length in the REAL bit_length_set is checked by the oracle (min/max, residues mod 8, expansion when small); the theorem "
            "C06.length is about the model's own length predicate HasLen (its equality with the library's BitLengthSet belongs to C02)",
            "both code paths of _BitWriter/_BitReader are one function in the model: their agreement at every offset is established by correspondence only",
        ],
        "assumptions": [_MODEL],
    },
    "C07": {
        "module": ["Props.C07"],
        "suites": [("wire", (12000, 150000))],
        "rule": _RULE_TYPES + " x byte strings: random bytes (uniform, mostly-zero, constant), a valid representation (reference encoder) with junk "
                "suffixes, prefixes of valid representations (all prefixes for short ones), 1-2 bit flips, one length prefix / union tag / delimiter "
                "header overwritten with an illegal value (at any nesting depth); a delimited object (any depth, or the top-level one with header) "
                "whose header is lowered so that the payload ends early - preferably right behind the length prefix / inside an array - with the "
                "enclosing headers adjusted and everything behind it (sibling fields, further array elements; junk at the top level) kept, compared "
                "with the same payload filled up with explicit zeros; a quarter of the types are made for that (delimited structures / unions with "
                "byte, utf8, uint8 and other arrays, at the top level and nested as field, array element, union variant, nested delimited); "
                "every byte string also with 2-4 zero / junk suffixes" + _RULE_LOOKALIKE.replace("about 9%", "about 1%") + " (steps: deserialize); "
                "non-trivial = non-empty byte string; distinct = distinct (type, bytes, flags)",
        "technique": "Lean 4 theorems over the executable decoder model + differential correspondence with pydsdl.deserialize + metamorphic oracle on the real library",
        "level_text": "For the modelled decoder it is proved in Lean 4, for all types and all bit strings: totality with only the four decode error classes; "
                      "every returned value is valid and a fixed point of encode/decode; implicit truncation; stability of every decoding step under zero "
                      "extension of the window (including bounded sub-readers) and its converse up to DelimiterHeaderError; rejection of over-capacity lengths, out-of-range tags and oversized headers. "
                      "The model is tied to _serdes.py by running both on generated byte strings on every run; exception classes, fixed point, truncation, "
                      "zero extension and rejection are also checked directly on the real library.",
        "level_note": _TRUST,
        "partial": [
            "exception behaviour of CPython itself (RecursionError on very deep types, MemoryError) is outside the model",
            "'no dependence on data outside b' is purity of the Lean function; on the Python side it is observed only through determinism of the differential runs",
            "both read paths (aligned fast path, bit-wise slow path) are one function in the model: agreement is by correspondence only",
        ],
        "assumptions": [_MODEL],
    },
}

# wire half of C14; the coordinator merges this into the C14 entry (module list, suite list, partial notes)
C14_WIRE = {
    "module": ["Props.C14Wire"],
    "suites": [("wire", (6000, 60000))],
    "rule": "pairs (D, D') of delimited structures with a common extent where one field list (0-4 random fields incl. nested composites, arrays, "
            "padding) is a proper prefix of the other (1-3 more fields), nested 1-3 levels deep as structure field (fields before and after), "
            "fixed / variable array element, union variant, or inside a further delimited structure; random values of the writer's type; both "
            "directions (fields appended / removed); 12% of the pairs are delimited UNIONS gaining / losing trailing variants (common variants must "
            "read alike, a variant unknown to the reader must be rejected, never decoded as something else); "
            "12% of the cases are histories of 2-6 write/read steps in one process with the two containers built under ONE full name and version "
            "(old and new checkout side by side; equal bit length sets, so pydsdl's `==`/hash cannot tell them apart) in every order: "
            "old -> new, new -> old, each its own data, each step also compared with freshly built uniquely named twins; "
            "distinct = distinct (writer type, reader type, value)",
    "partial": [
        "wire half: C14.wire is proved for one nesting path (Wire.Ctx: field / variant / fixed and variable array element / sealed or delimited "
        "composite, any depth; for arrays all elements are of the revised type); two different revised types inside one container follow by "
        "applying the theorem twice only when they sit on one path - the general multi-hole case is covered by the correspondence only",
        "stated for D of structure kind; for a union D an appended variant is rejected by an old reader with UnionTagError (never mis-decoded)",
    ],
    "assumptions": [_MODEL],
    "technique": "Lean 4 theorems over the executable codec model + differential correspondence with pydsdl.serialize/deserialize across revisions + structural adapt oracle",
    "level_text": "For the modelled codec it is proved in Lean 4 that a delimited structure written with field list fs is read with fs++gs (and vice versa) such that "
                  "common fields keep their values, new fields read as defaults, unknown fields are skipped, and the reader ends exactly where the writer's "
                  "representation ends, at any aligned offset with any trailing data, and that this lifts to every nesting position (structure field, union "
                  "variant, array element, nested sealed/delimited composites, any depth), so everything after the nested object is read correctly. "
                  "The model is tied to _serdes.py by the wire correspondence.",
    "level_note": _TRUST,
}

