"""Registry entries of the namespace group (C09, C10, C11, C15, C19): suite `ns`, model lean/Model/Namespace.lean;
C15 additionally suite `rootinfer`, model lean/Model/RootInfer.lean."""

_TECH = ("Lean 4 theorems over an executable model of the namespace layer (file-name parsing, sorting, reference resolution, "
         "the recursive caching reader with its termination proof, direct/transitive bookkeeping, cross-definition checks) + "
         "differential correspondence of the compiled model with the real read_namespace / read_files on generated namespace "
         "trees in a real temporary directory, + an independent declarative oracle over the abstract dependency graph")
_NOTE = ("Trusted: Lean kernel, axioms propext/Classical.choice/Quot.sound; the hand-written model lean/Model/Namespace.lean is "
         "tied to the code by differential testing only (thousands of trees per run x spellings of the arguments x shuffled "
         "directory enumeration x PYTHONHASHSEED subprocesses), not proved equal to it. The file system, pathlib resolution, "
         "symlinks, the working directory and hash seeds are runtime notions covered by the correspondence only. Definition "
         "texts are abstracted to references / primitive fields / @print / rule violations / serialization mode.")
_RULE = ("generated namespace trees: 1-3 root namespace directories in 1-2 workspaces (incl. two directories of one root name, "
         "`uavcan`), 2-10 definitions at nesting depth 0-5, several versions of one name, .dsdl and .uavcan, message / service, "
         "sealed / delimited with extents, fixed port-IDs present / absent / colliding / unregulated, 0-3 references per definition "
         "(relative, absolute, cross-root; chains, diamonds; 40% of the cases also cycles, self references, missing names or "
         "versions, case-only differences, duplicated (name, version)), @print lines, broken texts; calls read_namespace or "
         "read_files (1-4 targets) with 1-4 extra spellings each (relative with chdir, trailing slash, via symlink, `..`, Path "
         "objects, duplicated / reordered lists, bare root names, relative targets with and without roots), a seeded shuffle of "
         "every rglob/glob enumeration, 5% of the cases re-run in subprocesses under two PYTHONHASHSEED values; plus one MIX per case "
         "(and for 30% of the history calls): every path-like argument (root, lookups; targets, roots, lookups of read_files) in a FORM of "
         "its own - list, tuple, set, frozenset, dict view, generator expression, iter(), map(Path, ..), itertools.chain, the single "
         "element not in a container, None - and every element in a SPELLING of its own - absolute, trailing slash, `..`, through a "
         "symlink, relative to a working directory (the temp dir, a sibling, the directory above or at an argument directory), relative "
         "through a symlink; str or Path - with elements repeated in other spellings and the lookups also naming the root(s) (as the only, "
         "single-valued element when there are no lookups); the corpus enumerates, on eight small calls, each argument in every form x "
         "every spelling; ")
_ASSUME = ["the Lean model Model/Namespace.lean mirrors _namespace.py, _namespace_reader.py, _dsdl_definition.py and "
           "resolve_versioned_data_type (validated by the ns correspondence on every run)",
           "generated names are ASCII and avoid the reserved words of _name.py; primitive fields are uint8/16/32/64"]

REG = {
    "C09": {
        "module": "Props.C09",
        "suites": [("ns", (2500, 40000))],
        "rule": _RULE + "6% of the C09 cases (gen_outofrange) put version numbers beyond 255 (256, 257, 511, 512, 65536, 2**32, numbers equal to an existing version under major*256+minor, (major<<8)|minor, radix 255/1000 or in their low bytes) into REFERENCES (missing, whatever legal version there is) and into the names of files nobody refers to (change nothing). 12% of the C09 cases are same-directory twins: two or three different FILES of one root namespace directory tree that denote one full name and "
                "version (with / without a fixed port-ID, two different port-IDs, .dsdl next to .uavcan; equal or different contents; at the root of the namespace or nested; "
                "in a lookup directory, in the referrers' own tree, 20% of the read_files calls with files of the pair among the targets) with 1-3 references to that name "
                "and version (relative / absolute, from targets and from dependencies of targets; 7% to a version nobody has), 20% controls where the second file carries "
                "another version, 10% pairs nobody refers to: a reference with two candidates must be rejected, also when both files of the pair are targets of the call "
                "(what becomes of the pair itself is finding F9, judged under C10 only); 16% names differing by letter case only (gen_twins); "
                "a case is non-trivial if it has at least two files or an extra spelling; distinct = distinct (files, call, spellings)",
        "technique": _TECH,
        "level_text": "For the modelled reader it is proved in Lean 4, for all lookup lists, definitions, caches and referrers: a successful "
                      "resolution returns the unique definition whose full name equals the completed reference and whose version is exactly M.m; "
                      "missing / duplicated / case-only references give an InvalidDefinitionError class; `read` terminates (recursion on the strictly "
                      "shrinking lookup list, keys on a reference chain are pairwise distinct, so cycles end in such an error); every type `read` "
                      "returns - through any referrer, lookup sublist or cache history - is the declaratively defined stand-alone type, hence two "
                      "reads agree and nested types equal the stand-alone types of exactly the named definitions. For a whole call (cache, file "
                      "pool, direct / transitive book-keeping) every returned type is the stand-alone type of a definition of the call and every "
                      "successful read of that definition returns it (C09.history_transparent, files_transparent, namespace_transparent); the "
                      "result does not depend on the order in which the targets are processed (C09.target_order_independent); an error raised at "
                      "any depth is a fault local to one definition on the chain of resolved references (C09.error_origin). The model is tied to "
                      "pydsdl by running both on generated dependency graphs on every run.",
        "level_note": _NOTE,
        "partial": ["C09.order_independent is conditional on both reads succeeding: with two names differing by case only, whether a read succeeds can depend on the referrer (the generator keeps such twins as leaves; observed on the real code, not a property violation)",
                    "excluded input class: a reference spelling a case twin exactly, written in a definition the twin's original depends on (the original is off the lookup list while it is read, so the reference resolves there and is a DataTypeNameCollisionError everywhere else): gen_graph does not add the twin then",
                    "error *class* only (which of several faulty files is blamed is a soft field; C09.error_origin proves that the blamed class is a local fault of a definition on the reference chain, the model's errors carry no path)",
                    "C09.target_order_independent needs (name, version) to identify a definition file (Hyp: follows from the accepted directory rule and DistinctFileKeys; the excluded point is finding F9) and both runs to succeed",
                    "Unicode case folding (`str.lower`) is ASCII in the model"],
        "assumptions": _ASSUME,
    },
    "C10": {
        "module": "Props.C10",
        "suites": [("ns", (2500, 40000))],
        "rule": _RULE + "40% of the read_files MIX spellings name a root twice in different forms - by its bare NAME next to its path(s), in any order / number - and spell targets relative to the directory above their root ('relroot') from working directories where no such path exists; the corpus enumerates name/path orders x target spellings x working directories. 30% of the C10 cases are directory-argument sets: half from a fixed pool (nested, same name, names equal up to case, allow/disallow "
                "collisions), half sets of 2-6 directories drawn from a universe built around one directory D: D/s, D/s/t, D/s/t/u, siblings whose names extend D's "
                "name by punctuation sorting below '/' (-ext, +legacy, .old, ' copy', ...) or by characters sorting above it (_v2, 2, s, ...), directories nested "
                "inside those siblings, the same one level further down, D in another letter case, D in another workspace, the parent of D; 60% of these sets contain "
                "an ancestor, a descendant and 1-2 look-alike siblings, a quarter of them with the ancestor or descendant removed again (must be accepted); every "
                "order of the arguments, root and lookups, read_namespace and read_files; 8% of the graph cases are call sequences (see C15); 3.5% of the C10 cases are "
                "version families at the ends of the range: for 1-3 type names 1-3 pairs that a lossy encoding of (major, minor) cannot tell apart - x.(R+k) / (x+1).k for "
                "R = 255 (the roll-over pair x.255 / (x+1).0; half of the pairs), 254, 200, 128, 100, 16, 10 and x in {0, 1, 2, 9, 127, 253, 254}, equal concatenated digits "
                "(1.23 / 12.3), equal sums (0.255 / 255.0) - with their neighbours (x.254, (x+1).1) and random versions out of {0, 1, 2, 254, 255}^2, the families in the "
                "target namespace or a lookup namespace, 60% of them also referenced version by version from one definition (order of `transitive`), read_namespace and "
                "read_files with the targets in any order; every such case is repeated in child interpreters under 2-3 PYTHONHASHSEED values and every one of those results "
                "is judged on its own (newest first) and against the result of the parent process; 1.5% of the C10 cases are definitions that MENTION others in comments / "
                "string literals (see C19) with the mentioned definition broken or bringing dependencies of its own: it must not show up in `transitive` nor fail the call",
        "technique": _TECH,
        "level_text": "Proved in Lean 4 for the model: the target list is exactly the definition files under the root (both extensions, none from "
                      "lookup directories), both result lists are sorted by (name, -major, -minor) and with distinct keys that order is unique; "
                      "read_namespace / read_files are invariant under every permutation of the directory enumeration and of the target list; a set of "
                      "directories is rejected iff one lies inside another or (collisions disallowed) two distinct ones have the same lower-cased "
                      "name, independent of order and duplication. Through the invariant of the target loop (cache, file pool, promotion from "
                      "transitive to direct) it is proved for all enumerations: read_namespace returns exactly one composite per definition file "
                      "under the root, with that file's (name, version), path, root and port-ID, none missing, none from a lookup directory "
                      "(C10.complete, none_missing, complete_paths); read_files returns one composite per target as direct, no two returned "
                      "types share a (name, version), direct and transitive are disjoint, direct + transitive is closed under nesting and "
                      "contains nothing that is not nested in a direct type (C10.closure, closure_exact), and a type returned by read_files "
                      "equals the type read_namespace returns for the same (name, version) (C10.same_types).",
        "level_note": _NOTE,
        "partial": ["hypothesis `DistinctFileKeys` (permutation invariance, complete_paths, closure_exact, same_types): two files with the same (name, version) are excluded from these theorems; on the real code that point is finding F9. C10.complete / C10.closure need no hypothesis (two targets with one key are answered Err.dupKey by the model; a lookup twin of a target makes the final minor-version check fail)",
                    "closure_exact, closure_paths, same_types additionally assume that the read_files targets are files of the enumeration (`hsub`): in the model the target list is a separate argument",
                    "resolve(), symlinks, rglob, hash seeds, argument spelling are runtime notions: correspondence only"],
        "assumptions": _ASSUME,
    },
    "C11": {
        "module": ["Props.C11", "Props.C11Gen"],
        "suites": [("ns", (2500, 40000))],
        "rule": "85% version families: 1-3 names x 1-4 versions out of {0.1,0.2,1.0,1.1,1.2,2.0,2.1,3.0} with per-major base configuration (kind, port-ID, sealing, "
                "extent, fields) and per-version deviations (kind flip, port-ID added/removed/changed, sealing flip, extent change, same extent through different "
                "content), request and response separately for services, names sharing port-IDs, families located in the target namespace or pulled in from a "
                "lookup namespace, read_namespace and read_files; 15% general dependency graphs; " + "non-trivial = at least two files",
        "technique": _TECH + "; the two decision kernels (_ensure_no_fixed_port_id_collisions, _ensure_minor_version_compatibility_pairwise) are re-translated from _namespace.py to Lean on every run (py2lean) and proved equal to the model, exception class included",
        "level_text": "Proved in Lean 4 for all lists of definitions with pairwise distinct (name, version): the two checks of _namespace.py accept iff the "
                      "declarative rule of the property holds (same kind never shares a fixed port-ID unless same full name and same major or a major 0; under "
                      "one major: same kind, port-ID may be added in a newer minor but not changed or removed, for major >= 1 equal extent and sealing, request "
                      "and response separately); every rejection is an InvalidDefinitionError class and no assert can fire. End to end (C11.result_consistent, "
                      "result_consistent_files): whatever read_namespace / read_files return has pairwise distinct (name, version) over direct + transitive and "
                      "satisfies the declarative rule, for all enumerations. Tied to pydsdl by running both on generated version families on every run.",
        "level_note": _NOTE,
        "partial": ["extents of sealed types are computed by the model from byte-multiple fields only (layout in general is C02)"],
        "assumptions": _ASSUME,
    },
    "C15": {
        "module": ["Props.C15", "Props.C15Gen"],
        "suites": [("ns", (2500, 40000)), ("rootinfer", (1000, 30000))],
        "rule": "80% file-name cases: 1-6 files with well-formed names (port-ID present/absent, versions up to 255, both extensions, depth 0-5, namespace components equal "
                "to root names), 7% malformed shapes (wrong arity, non-numeric, empty components, dots in directories), 4% names with two or three extensions (half of them "
                "made of the known extensions only - .uavcan.dsdl, .dsdl.uavcan, .dsdl.dsdl, ... -, the rest mixed with foreign ones - .txt, .bak, .DSDL, .Uavcan, .dsdl~, "
                ".orig, ... - after well-formed stems with / without port-ID and stems lacking a field: a name ending in a known extension is a definition file and "
                "must be rejected, any other is ignored; the corpus enumerates two stems x every pair of {.dsdl, .uavcan, .txt, .bak, .DSDL} through read_namespace and as a "
                "read_files target, plus extension words used as short names), 2% names only int() accepts, 5% non-definition "
                "files; read_namespace and read_files with up to 4 of the spellings: bare root names, relative with chdir, relative without roots, relative target welded "
                "onto an absolute root, roots / targets via symlink, duplicated and reordered lists, single values, trailing slashes, Path objects; 20% general graphs; "
                "messages and services with port-IDs absent / regulated / unregulated / at both ends of the valid ranges (0, 1, 511, 512, 8191, 8192), 45% of the calls "
                "with allow_unregulated_fixed_port_id; 35% of the cases are sequences of 2-4 calls made in one process on one tree: the same files read with a directory "
                "inside a root designated as the root, with the directory above a root designated as the root, with other lookups / targets / flags / spellings, in "
                "random order; every call of the sequence is judged as if it were the only one (what a fresh process gives). Besides the expected result computed from "
                "the abstract tree, every returned type is checked on its own: name, version and port-ID are recomputed from source_file_path relative to "
                "source_file_path_to_root, which must be the designated directory that holds the file; "
                "suite rootinfer: small trees in a real temporary directory (1-2 workspaces at depth 0-3 below the sandbox, 1-3 root directories each, root names that "
                "also occur as workspace / namespace component names, the same root name in two workspaces, empty directories, plain files, rarely malformed file names or "
                "a dotted root name), per tree the canonical designation (absolute target, absolute root alone) and 3-8 further calls of DSDLDefinition.from_first_in "
                "(+ _infer_path_to_root_from_first_found, compared unresolved) or read_files (15%, 1-3 targets), each from a working directory of its own (sandbox, "
                "the root's parent, the root, inside the root, two levels up, any directory) with the target spelled absolute / relative to the working directory / "
                "relative to the root's parent, each plain or with `.`, `//`, trailing `/`, `name/..` detours through existing directories, missing names and plain files, "
                "odd targets (`.`, empty, `..`, a directory, relative to the grandparent), and a root list in every order made of: the own root as absolute path, "
                "working-directory-relative path, bare name, with `..` detours, or omitted; other roots of the tree in the same forms, missing directories, "
                "ancestors and children of the root, `.`, `..`, `../..`, the sandbox's parents, duplicates; 10% without roots (INFERENCE 1); the corpus holds the "
                "examples of the read_files docstring (every root form x working directory) and the inputs of the fix commits 3477183 and 1e7d19c",
        "technique": _TECH + "; suite rootinfer: executable Lean model of the four inferences, the anchoring of from_first_in and lexical pathlib "
                     "resolution over an abstract file system (Model/RootInfer.lean), compared call by call with the real functions (inferred root as returned, "
                     "resolved root, file, name / version / port-ID or the error class), + an oracle by plain path arithmetic: clean designations of one file "
                     "must agree with the canonical one and documented ones must succeed; the file-name parsing of DSDLDefinition.__init__ and _parse_decimal are re-translated from the working tree on every run and proved equal to the model's mkDef (py2lean_filename: Gen.FileName, Bridge.FileName, Props.C15Gen)",
        "level_text": "Proved in Lean 4: parsing `[<port-id>.]<ShortName>.<major>.<minor>.<ext>` returns exactly the rendered components for all names, versions and port-IDs; "
                      "every accepted name has that shape with plain decimal numerals, every other name is a FileNameFormatError; the definition and the composite built from "
                      "it carry exactly the name, version, port-ID, file path and root directory encoded in the path; end to end (C15.result_identity, "
                      "result_identity_files) every type read_namespace / read_files return, direct or transitive, through the cache and the book-keeping, carries the "
                      "identity of one file under the accepted directories. The root inference of read_files is modelled (INFERENCE 1-4 in order, "
                      "the lexical match with its `.`/`..` guard, the resolved match with its existence condition, the loop welding a relative target onto the parents "
                      "of each root, the bare-name inference, the anchoring of from_first_in, the checks of __init__; lexical resolution against a working directory "
                      "over an abstract file system) and proved uniform for all trees, working directories and root lists: a file under root R designated by an "
                      "absolute root, a working-directory-relative root path (any spelling with `.`/`..`, any other non-nested roots before and after), a target relative "
                      "to the root's parent with a root path, the bare root name with an absolute or relative target, or no roots from the root's parent, always "
                      "yields exactly (R, file) and the definition DSDLDefinition.__init__ builds from the path relative to R (C15.designation_resolved, "
                      "designation_absolute_root, designation_relative_root, designation_root_parent_relative, designation_bare_name, designation_no_roots, "
                      "designations_agree, designation_identity, read_files_targets), each with the side conditions the code needs as decidable hypotheses; "
                      "the three designations that were not handled uniformly before /repo 418aff7, 866a874 and 772b846 (the mixed third root form of the read_files docstring; a root "
                      "given as a path and by its bare name; a root-parent-relative target welded onto an ancestor of another root) are now instances of these theorems "
                      "(C15.mixed_names_and_paths_uniform, C15.bare_name_with_root_path_uniform, C15.welded_onto_listed_roots_only); what stays order-dependent on purpose is "
                      "shown on witnesses (C15.bare_name_alone_is_relative_to_cwd, C15.two_roots_of_one_name_first_wins). The model is run against the real functions on every run; "
                      "symlinks are exercised by the ns suite on a real tree.",
        "level_note": _NOTE,
        "partial": ["root inference: symbolic links, a leading `//`, permissions are outside Model/RootInfer.lean (pathlib resolution is lexical in the model; symlinked roots / targets are covered by the ns correspondence only)",
                    "root inference: the uniformity theorems exclude, by explicit hypotheses, what the code resolves by 'first match wins' (documented: the order of the root list matters): (a) two listed roots that resolve to directories above the file (nested roots), (b) a listed bare name that occurs earlier on the typed path of the target than the root's own name, (c) a root-parent-relative target that exists under the parents of two listed roots of the same NAME (`hone`; witness C15.two_roots_of_one_name_first_wins), (d) for the root-parent-relative designation a root path spelled with `..` (the welded path is looked up physically), (e) a root-parent-relative target with the root given by its bare name only from another working directory (pure-path fallback: C15.bare_name_alone_is_relative_to_cwd)",
                    "reserved words of _name.py are not modelled"],
        "assumptions": _ASSUME,
    },
    "C19": {
        "module": "Props.C19",
        "suites": [("ns", (2500, 40000))],
        "rule": _RULE + "6% of the C19 cases (gen_outofrange) turn an unreferenced file into one whose NAME carries version numbers beyond 255 that equal a referenced (present or dangling) version under a lossy encoding of the pair; 2% of the replacements are files of a given SIZE (0, 1, 2**20-1, 2**20, 2**20+1, several MiB; corpus: every size x lookup directory / target's own root). every C19 case additionally replaces one definition (90% outside the dependency closure of the targets) by garbage, a failing assert / unknown directive, "
                "an extra @print, a missing serialization mode, the other kind, other sealing / extent, a dangling reference, or renames it to another port-ID / version / name "
                "/ a malformed name, and reads again; 10% of the C19 cases are MENTIONS: a target or a real dependency of a target (Top -> Dep -> Leaf, a second target) writes "
                "1-3 times the exact versioned name - absolute, or relative inside its namespace - of a definition it does not refer to, in a comment line, in the comment "
                "in front of an attribute, in a comment behind a statement, or inside the string literals of an @assert that holds; the mentioned definition lies in a "
                "lookup directory or (read_files) in the targets' own root namespace, alone or with a dependency / @print of its own, in one or two versions or as a "
                "same-directory twin; controls: the name in another letter case, a version nobody has, a definition inside the closure; the mentioned definition (85%) or "
                "another one outside the closure is then replaced by a text in every state of badness (does not parse, bytes that are not text, a directory of that name, "
                "failing assert, unknown directive, @print, no serialization mode, other kind, other sealing, dangling reference) and the call is repeated",
        "technique": _TECH,
        "level_text": "Proved in Lean 4 for the model: listing a directory, ordering and reference resolution never look at definition texts (only a malformed file name can be "
                      "reported from a lookup directory), and the type of a definition is a function of its own text and the stand-alone types of the definitions its references "
                      "name; one read of a member of a dependency-closed set is blind to all texts outside the set and visits only members of it. "
                      "Non-interference of the whole call is proved for the full reader (cache, file pool, direct / transitive book-keeping, "
                      "cross-definition checks): two file systems with the same file names whose texts agree on every definition in the dependency "
                      "closure of the targets give the same outcome of read_namespace / read_files - types or error class, and @print output "
                      "(C19.noninterference, noninterference_files, noninterference_two_filesystems[_files]). The same replacement is run on the real "
                      "library on every run.",
        "level_note": _NOTE,
        "partial": ["the model's errors are classes: that the *path* blamed by an error is unchanged is checked by the correspondence + oracle only",
                    "the dependency closure (`DepClosure`) contains every lookup definition named by a reference that is written in a parsing member, also behind a statement that fails earlier: a slightly larger set than what is evaluated (the theorem is stated for the larger set)"],
        "assumptions": _ASSUME,
    },
}

_A = ["w0", "alpha"]
_S = {"g": False, "gk": 0, "secs": [{"stmts": [], "mode": ["sealed"]}]}
_S8 = {"g": False, "gk": 0, "secs": [{"stmts": [["prim", 8]], "mode": ["sealed"]}]}


def _ns(files):
    return {"files": [{"dir": _A, "sub": [], "fname": fn, "text": t} for fn, t in files],
            "call": {"fn": "ns", "root": _A, "lookups": [], "allow_collision": True, "allow_unreg": False}, "enum_seed": 1, "variants": []}


# Genuine defects observed on the unchanged tree; proposed entries for known_findings.json ("findings" list).
PROPOSED_FINDINGS = [
    {"property": "C10", "suite": "ns", "signature": "ns/F9/dup-key-merged", "status": "open",
     "what": "two definition files with the same name and version (ns/A.1.0.dsdl + ns/7000.A.1.0.dsdl, a .uavcan twin, or read_files targets from two directories "
             "of one root namespace name) silently become one composite: one file is missing from the result, which one depends on order",
     "case": _ns([("A.1.0.dsdl", _S), ("7000.A.1.0.dsdl", _S)])},
    {"property": "C10", "suite": "ns", "signature": "ns/F9/dup-key-assertion", "status": "open",
     "what": "two definition files with the same name and version but different layouts (ns/A.1.0.dsdl empty + ns/6200.A.1.0.dsdl with a field): a bare AssertionError "
             "escapes from read_namespace (assert a.version.minor != b.version.minor) instead of an InvalidDefinitionError",
     "case": _ns([("A.1.0.dsdl", _S), ("6200.A.1.0.dsdl", _S8)])},
    {"property": "C15", "suite": "ns", "signature": "C15/outcome-depends-on-spelling-order-or-seed", "status": "fixed:1e7d19c",
     "what": "read_files with a root namespace directory spelled '.' (the working directory is that root) listed before the root of a relative target that lies "
             "under ANOTHER root: cwd=<t>/w0/alpha; read_files(['../../w1/beta/A.1.0.dsdl'], ['.', '<t>/w1/beta']) -> bare ValueError \"'<t>/w1/beta/A.1.0.dsdl' is not in "
             "the subpath of '<t>/w0/alpha'\" (inference 2 matches every relative target against Path('.') as a pure path); with the roots in the other order, or "
             "the first root spelled '../alpha' or absolute, the call returns beta.A.1.0 with root <t>/w1/beta.  gen_mix never makes a root of a read_files call "
             "the working directory (marked EXCLUDED INPUT CLASS in suites/ns.py)",
     "case": {"files": [{"dir": ["w1", "beta"], "sub": [], "fname": "A.1.0.dsdl", "text": _S}, {"dir": _A, "sub": [], "fname": "Z.1.0.dsdl", "text": _S}],
              "call": {"fn": "files", "targets": [0], "roots": [_A, ["w1", "beta"]], "lookups": [], "allow_unreg": False}, "enum_seed": 1,
              "variants": [{"mix": 1, "cwd": _A, "targets": {"form": "list", "items": [[0, "rel", "str"]]},
                            "roots": {"form": "list", "items": [[_A, "rel", "str"], [["w1", "beta"], "abs", "str"]]}, "lookups": {"form": "none", "items": []}}]}},
    {"property": "C15", "suite": "ns", "signature": "ns/F10/int-leniency", "status": "open",
     "what": "file-name numerals are parsed with int(): A.1_0.0.dsdl (version 10.0), A.+1.0.dsdl, 'A. 1.0.dsdl', A.1.-0.dsdl, '+7000.A.1.0.dsdl', Arabic-Indic / full-width "
             "digits are accepted instead of rejected with FileNameFormatError",
     "case": _ns([("A.1_0.0.dsdl", _S)])},
]
