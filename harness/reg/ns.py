"""Registry entries of the namespace group (C09, C10, C11, C15, C19): suite `ns`, model lean/Model/Namespace.lean."""

_TECH = ("Lean 4 theorems over an executable model of the namespace layer (file-name parsing, sorting, reference resolution, "
         "the recursive caching reader with its termination proof, direct/transitive bookkeeping, cross-definition checks) + "
         "differential correspondence of the compiled model with the real read_namespace / read_files on generated namespace "
         "trees in a real temporary directory, + an independent declarative oracle over the abstract dependency graph")
_NOTE = ("Trusted: Lean kernel, axioms propext/Classical.choice/Quot.sound; the hand-written model lean/Model/Namespace.lean is "
         "tied to the code by differential testing only (thousands of trees per run x spellings of the arguments x shuffled "
         "directory enumeration x PYTHONHASHSEED subprocesses), not proved equal to it. The file system, pathlib resolution, "
         "symlinks, the working directory and hash seeds are runtime notions covered by the correspondence only. Definition "
         "texts are abstracted to references / primitive fields / @print / rule violations / serialization mode.")
_RULE = ("generated namespace trees: 1-3 root namespace directories in 1-2 workspaces (incl. two directories of one root name, "
         "`uavcan`), 2-10 definitions at nesting depth 0-5, several versions of one name, .dsdl and .uavcan, message / service, "
         "sealed / delimited with extents, fixed port-IDs present / absent / colliding / unregulated, 0-3 references per definition "
         "(relative, absolute, cross-root; chains, diamonds; 40% of the cases also cycles, self references, missing names or "
         "versions, case-only differences, duplicated (name, version)), @print lines, broken texts; calls read_namespace or "
         "read_files (1-4 targets) with 1-4 extra spellings each (relative with chdir, trailing slash, via symlink, `..`, Path "
         "objects, duplicated / reordered lists, bare root names, relative targets with and without roots), a seeded shuffle of "
         "every rglob/glob enumeration, 5% of the cases re-run in subprocesses under two PYTHONHASHSEED values; ")
_ASSUME = ["the Lean model Model/Namespace.lean mirrors _namespace.py, _namespace_reader.py, _dsdl_definition.py and "
           "resolve_versioned_data_type (validated by the ns correspondence on every run)",
           "generated names are ASCII and avoid the reserved words of _name.py; primitive fields are uint8/16/32/64"]

REG = {
    "C09": {
        "module": "Props.C09",
        "suites": [("ns", (2500, 40000))],
        "rule": _RULE + "a case is non-trivial if it has at least two files or an extra spelling; distinct = distinct (files, call, spellings)",
        "technique": _TECH,
        "level_text": "For the modelled reader it is proved in Lean 4, for all lookup lists, definitions, caches and referrers: a successful "
                      "resolution returns the unique definition whose full name equals the completed reference and whose version is exactly M.m; "
                      "missing / duplicated / case-only references give an InvalidDefinitionError class; `read` terminates (recursion on the strictly "
                      "shrinking lookup list, keys on a reference chain are pairwise distinct, so cycles end in such an error); every type `read` "
                      "returns - through any referrer, lookup sublist or cache history - is the declaratively defined stand-alone type, hence two "
                      "reads agree and nested types equal the stand-alone types of exactly the named definitions. The model is tied to pydsdl by "
                      "running both on generated dependency graphs on every run.",
        "level_note": _NOTE,
        "partial": ["C09.order_independent is conditional on both reads succeeding: with two names differing by case only, whether a read succeeds can depend on the referrer (the generator keeps such twins as leaves; observed on the real code, not a property violation)",
                    "excluded input class: a reference spelling a case twin exactly, written in a definition the twin's original depends on (the original is off the lookup list while it is read, so the reference resolves there and is a DataTypeNameCollisionError everywhere else): gen_graph does not add the twin then",
                    "error *class* only (which of several faulty files is blamed is a soft field)",
                    "Unicode case folding (`str.lower`) is ASCII in the model"],
        "assumptions": _ASSUME,
    },
    "C10": {
        "module": "Props.C10",
        "suites": [("ns", (2500, 40000))],
        "rule": _RULE + "30% of the C10 cases are directory-argument sets: half from a fixed pool (nested, same name, names equal up to case, allow/disallow "
                "collisions), half sets of 2-6 directories drawn from a universe built around one directory D: D/s, D/s/t, D/s/t/u, siblings whose names extend D's "
                "name by punctuation sorting below '/' (-ext, +legacy, .old, ' copy', ...) or by characters sorting above it (_v2, 2, s, ...), directories nested "
                "inside those siblings, the same one level further down, D in another letter case, D in another workspace, the parent of D; 60% of these sets contain "
                "an ancestor, a descendant and 1-2 look-alike siblings, a quarter of them with the ancestor or descendant removed again (must be accepted); every "
                "order of the arguments, root and lookups, read_namespace and read_files; 8% of the graph cases are call sequences (see C15)",
        "technique": _TECH,
        "level_text": "Proved in Lean 4 for the model: the target list is exactly the definition files under the root (both extensions, none from "
                      "lookup directories), both result lists are sorted by (name, -major, -minor) and with distinct keys that order is unique; "
                      "read_namespace / read_files are invariant under every permutation of the directory enumeration and of the target list; a set of "
                      "directories is rejected iff one lies inside another or (collisions disallowed) two distinct ones have the same lower-cased "
                      "name, independent of order and duplication. Completeness of the result and direct/transitive closure are checked by the "
                      "declarative oracle on every run (statements kept in Props/C10.lean).",
        "level_note": _NOTE,
        "partial": ["C10.complete_statement, C10.closure_statement (one composite per target with the target's key; direct = targets, transitive = closure - targets, disjoint, closed under nesting): correspondence + oracle only",
                    "hypothesis `DistinctFileKeys`: two files with the same (name, version) are excluded from the theorems; on the real code that point is finding F9",
                    "resolve(), symlinks, rglob, hash seeds, argument spelling are runtime notions: correspondence only"],
        "assumptions": _ASSUME,
    },
    "C11": {
        "module": ["Props.C11", "Props.C11Gen"],
        "suites": [("ns", (2500, 40000))],
        "rule": "85% version families: 1-3 names x 1-4 versions out of {0.1,0.2,1.0,1.1,1.2,2.0,2.1,3.0} with per-major base configuration (kind, port-ID, sealing, "
                "extent, fields) and per-version deviations (kind flip, port-ID added/removed/changed, sealing flip, extent change, same extent through different "
                "content), request and response separately for services, names sharing port-IDs, families located in the target namespace or pulled in from a "
                "lookup namespace, read_namespace and read_files; 15% general dependency graphs; " + "non-trivial = at least two files",
        "technique": _TECH + "; the two decision kernels (_ensure_no_fixed_port_id_collisions, _ensure_minor_version_compatibility_pairwise) are re-translated from _namespace.py to Lean on every run (py2lean) and proved equal to the model, exception class included",
        "level_text": "Proved in Lean 4 for all lists of definitions with pairwise distinct (name, version): the two checks of _namespace.py accept iff the "
                      "declarative rule of the property holds (same kind never shares a fixed port-ID unless same full name and same major or a major 0; under "
                      "one major: same kind, port-ID may be added in a newer minor but not changed or removed, for major >= 1 equal extent and sealing, request "
                      "and response separately); every rejection is an InvalidDefinitionError class and no assert can fire. Tied to pydsdl by running both on "
                      "generated version families on every run.",
        "level_note": _NOTE,
        "partial": ["extents of sealed types are computed by the model from byte-multiple fields only (layout in general is C02)"],
        "assumptions": _ASSUME,
    },
    "C15": {
        "module": "Props.C15",
        "suites": [("ns", (2500, 40000))],
        "rule": "80% file-name cases: 1-6 files with well-formed names (port-ID present/absent, versions up to 255, both extensions, depth 0-5, namespace components equal "
                "to root names), 11% malformed shapes (wrong arity, non-numeric, empty components, dots in directories), 2% names only int() accepts, 5% non-definition "
                "files; read_namespace and read_files with up to 4 of the spellings: bare root names, relative with chdir, relative without roots, relative target welded "
                "onto an absolute root, roots / targets via symlink, duplicated and reordered lists, single values, trailing slashes, Path objects; 20% general graphs; "
                "messages and services with port-IDs absent / regulated / unregulated / at both ends of the valid ranges (0, 1, 511, 512, 8191, 8192), 45% of the calls "
                "with allow_unregulated_fixed_port_id; 35% of the cases are sequences of 2-4 calls made in one process on one tree: the same files read with a directory "
                "inside a root designated as the root, with the directory above a root designated as the root, with other lookups / targets / flags / spellings, in "
                "random order; every call of the sequence is judged as if it were the only one (what a fresh process gives). Besides the expected result computed from "
                "the abstract tree, every returned type is checked on its own: name, version and port-ID are recomputed from source_file_path relative to "
                "source_file_path_to_root, which must be the designated directory that holds the file",
        "technique": _TECH,
        "level_text": "Proved in Lean 4: parsing `[<port-id>.]<ShortName>.<major>.<minor>.<ext>` returns exactly the rendered components for all names, versions and port-IDs; "
                      "every accepted name has that shape with plain decimal numerals, every other name is a FileNameFormatError; the definition and the composite built from "
                      "it carry exactly the name, version, port-ID, file path and root directory encoded in the path. The four root-inference strategies are exercised on a "
                      "real tree with chdir and symlinks and must give identical results for every designation.",
        "level_note": _NOTE,
        "partial": ["the root-inference strategies of _infer_path_to_root_from_first_found and pathlib resolution are not modelled: invariance of the outcome under the designation is checked by the correspondence + oracle only",
                    "reserved words of _name.py are not modelled"],
        "assumptions": _ASSUME,
    },
    "C19": {
        "module": "Props.C19",
        "suites": [("ns", (2500, 40000))],
        "rule": _RULE + "every C19 case additionally replaces one definition (90% outside the dependency closure of the targets) by garbage, a failing assert / unknown directive, "
                "an extra @print, a missing serialization mode, the other kind, other sealing / extent, a dangling reference, or renames it to another port-ID / version / name "
                "/ a malformed name, and reads again",
        "technique": _TECH,
        "level_text": "Proved in Lean 4 for the model: listing a directory, ordering and reference resolution never look at definition texts (only a malformed file name can be "
                      "reported from a lookup directory), and the type of a definition is a function of its own text and the stand-alone types of the definitions its references "
                      "name. Equality of the whole outcome (types or error and path, prints) before and after replacing a definition outside the closure is checked on the "
                      "real library on every run.",
        "level_note": _NOTE,
        "partial": ["C19.noninterference_statement (equal error class and prints of two whole runs) is kept as a statement: correspondence + oracle only"],
        "assumptions": _ASSUME,
    },
}

_A = ["w0", "alpha"]
_S = {"g": False, "gk": 0, "secs": [{"stmts": [], "mode": ["sealed"]}]}
_S8 = {"g": False, "gk": 0, "secs": [{"stmts": [["prim", 8]], "mode": ["sealed"]}]}


def _ns(files):
    return {"files": [{"dir": _A, "sub": [], "fname": fn, "text": t} for fn, t in files],
            "call": {"fn": "ns", "root": _A, "lookups": [], "allow_collision": True, "allow_unreg": False}, "enum_seed": 1, "variants": []}


# Genuine defects observed on the unchanged tree; proposed entries for known_findings.json ("findings" list).
PROPOSED_FINDINGS = [
    {"property": "C10", "suite": "ns", "signature": "ns/F9/dup-key-merged", "status": "open",
     "what": "two definition files with the same name and version (ns/A.1.0.dsdl + ns/7000.A.1.0.dsdl, a .uavcan twin, or read_files targets from two directories "
             "of one root namespace name) silently become one composite: one file is missing from the result, which one depends on order",
     "case": _ns([("A.1.0.dsdl", _S), ("7000.A.1.0.dsdl", _S)])},
    {"property": "C10", "suite": "ns", "signature": "ns/F9/dup-key-assertion", "status": "open",
     "what": "two definition files with the same name and version but different layouts (ns/A.1.0.dsdl empty + ns/6200.A.1.0.dsdl with a field): a bare AssertionError "
             "escapes from read_namespace (assert a.version.minor != b.version.minor) instead of an InvalidDefinitionError",
     "case": _ns([("A.1.0.dsdl", _S), ("6200.A.1.0.dsdl", _S8)])},
    {"property": "C15", "suite": "ns", "signature": "ns/F10/int-leniency", "status": "open",
     "what": "file-name numerals are parsed with int(): A.1_0.0.dsdl (version 10.0), A.+1.0.dsdl, 'A. 1.0.dsdl', A.1.-0.dsdl, '+7000.A.1.0.dsdl', Arabic-Indic / full-width "
             "digits are accepted instead of rejected with FileNameFormatError",
     "case": _ns([("A.1_0.0.dsdl", _S)])},
]
