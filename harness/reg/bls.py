"""Registry entries of the bit-length-set group."""

REG = {
    "C01": {
        "module": ["Props.C01", "Props.C01Gen"],
        "suites": [("bls", (1500, 60000))],
        "rule": "random operator trees (2-9 nodes, all six operators, leaf sets incl. huge values, k from 0 to beyond 2**64, "
                "alignments 1..64, divisors 1..2**20) built through the public BitLengthSet API, with 2-25 queries each; "
                "operand-form family: small trees whose concatenations / unions are spelled through every public composition API (static concatenate / unite over a list, tuple, generator or "
                "iterator; x + y, x | y; the reflected operators with a plain left operand; += and |=; functools.reduce and sum with and without a start value) with every admissible operand form "
                "(BitLengthSet object, copy, plain set / frozenset / list / tuple / generator / list with duplicates, the numerically expanded set of an operator-backed operand, the plain scalar of a "
                "single-valued leaf) in every operand position, a scalar 0 or 1 of its own put into a random position of most compositions, optionally wrapped into repeat / repeat_range / pad / a "
                "further concatenation, all queried analytically and numerically and the operands queried again afterwards; "
                "a case is non-trivial if it has a composite node and at least one query; distinct = distinct (nodes, queries)",
        "technique": "Lean 4 theorems over an executable model of the operator tree (induction over all trees, all divisors), re-checked on every run against Lean definitions translated from _symbolic.py (py2lean + refinement theorem Bridge.refines) + differential correspondence with the real BitLengthSet",
        "level_text": "Every analytic answer (min, max, residues modulo any d>=1, fixed_length, is_aligned_at, numerical expansion) of the modelled operator tree is proved in Lean 4 to equal the mathematically defined set, for all trees, counts and divisors, and no assert can fire; the model is tied to _symbolic.py/_bit_length_set.py by running both on generated operation sequences on every run.",
        "level_note": "Trusted: Lean kernel, axioms propext/Classical.choice/Quot.sound, Mathlib; the translator tools/py2lean.py and lean/PyLib.lean (Python ints as naturals with checked subtraction, sets as duplicate-free lists, explicit exceptions); every min/max/modulo/expand method of the six operator classes is translated from the working tree on every run and proved to refine the model and never to raise (Props/C01Gen.lean); the constructors, the memoisation wrapper and the BitLengthSet facade are hand-modelled and validated by differential testing (thousands of operator trees incl. k up to 2**64 per run); object aliasing is observed by re-queries only.",
        "partial": ["operand aliasing / cache transparency of the Python objects is a runtime notion: covered by re-queries in the correspondence only"],
        "assumptions": ["the Lean model Model/Bls.lean mirrors _symbolic.py (validated by the bls correspondence on every run)"],
    },
}
