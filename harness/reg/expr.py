"""Registry entries of the expression group (C04, C12, C13)."""

_NOTE = 'Trusted: Lean kernel, axioms propext/Classical.choice/Quot.sound, Mathlib; the hand-written models (lean/Model/Expr.lean, lean/Model/Const.lean) are validated against the code by differential testing on every run (thousands of generated cases through the public API), not proved equal to it.'

REG = {
    "C04": {
        "module": ["Props.C04", "Props.C04Gen"],
        "suites": [("expr", (6000, 150000))],
        "rule": "random expression trees (depth 1-9) over the grammar's whole literal and operator vocabulary: integer literals in four bases with digit separators, reals in every "
                "admitted form, strings with every escape form, booleans, set literals, unary + - !, all 17 binary operators, .min/.max/.count and unknown attributes, identifiers of "
                "earlier constants and undefined ones; typed generation with 0-6% ill-typed sub-trees, plus a table of precedence traps; string-valued expressions over texts that are "
                "sensitive to Unicode normalisation (base letters with 1-3 combining marks of several combining classes, one- to three-level precomposed letters, Hangul jamo and "
                "syllables, singleton decompositions, composition exclusions, compatibility characters, marks without a base) in random canonically equivalent spellings and near "
                "misses, cut at random places - preferably where the junction composes - and rejoined with `+` in random tree shapes, compared with == / != on both sides, as elements "
                "of sets (comparison, algebra, .count, element-wise +) and as printed values (12% of the cases, and 12% of the string leaves of the general trees); rendered with minimal or random redundant "
                "parentheses and random blanks; observed through @print, @assert, constant initialisers, array capacities (three spellings) and @extent of a definition in a temporary "
                "namespace read with read_namespace; non-trivial = compound tree; distinct = distinct (tree, context, rendering)",
        "technique": "Lean 4 theorems over an executable model of literals, evaluator, printer and PEG-level parser + the operator semantics re-translated from pydsdl/_expression/{_any,_primitive,_container,_operator}.py into Lean on every run (tools/py2lean_expr.py -> lean/Gen/ExprOps.lean, meaning of the Python fragment: lean/PyLib/Expr.lean) and proved equal to the model's operators (lean/Bridge/ExprOps*.lean, Props/C04Gen.lean) + differential correspondence (model evaluates the tree, library evaluates the text) + independent fractions.Fraction / unicodedata oracle",
        "level_text": "Proved in Lean 4 for the model, for all inputs: + - * / % ** (integral exponents) and the comparisons are exact field/order operations on rationals (floored modulo, 0**-n and /0 %0 rejected); "
                      "a binary operator yields a value exactly for the operand combinations of the definedness table (scalars, element-wise set/scalar in both orders, set algebra) and every other combination is an "
                      "InvalidDefinition-class rejection; on strings `+` concatenates the code points and nothing else, `==` holds exactly when the normal forms of the operands are equal and `!=` is its negation - for literals and for "
                      "results of concatenations alike, on either side - so that `==` is an equivalence relation on texts (stated for every normalisation function; the driver runs the evaluator with the model's own NFC: "
                      "canonical decomposition, canonical ordering, canonical composition with blocking, Hangul arithmetically, whose composition provably inverts its decomposition of every syllable); the elements of a set are identified the same way - a string element counts by its normal form, so {a} == {b} holds exactly "
                      "when a == b does, {a, b}.count is 1 or 2 accordingly (C04.sets_of_strings), and set literals and element-wise results consist of the identified elements; union/intersection/symmetric difference, sub/superset comparisons, element-wise application, min/max/count and the rejection of empty and heterogeneous "
                      "set literals; integer literals in all four bases with digit separators denote their digits' number, real literals in point and exponent notation denote exactly mantissa x 10^(+-exponent - "
                      "fraction digits); the grammar's rule layering realises the precedence table independently of redundant parentheses: EVERY token list obtained from the minimal rendering of ANY expression tree "
                      "by wrapping any sub-expressions in any number of further pairs of parentheses (the minimal and the fully parenthesising printer are two members of the family) is parsed back to the tree by "
                      "the PEG (ordered choice, greedy repetition, right-recursive **), and no token list renders two different trees; and the terminals of the grammar as a character-level lexer (two-character "
                      "operators before their one-character prefixes, real before integer, the three prefixed bases before decimal, true/false before identifier, both string forms, blanks skipped) invert the "
                      "renderer for every well-formed token list and every choice of blanks, so that characters -> tokens -> tree returns the tree for every admissible parenthesisation and every spacing. The model "
                      "is tied to pydsdl by running both on every generated expression; the model lexes and parses the very text handed to the library and must obtain the generated tree. "
                      "Operators, second tie (Props/C04Gen): the 21 functions of _operator.py (with the _auto_swap decorator), the operator methods, constructors, __eq__/__hash__/__bool__/__iter__ of Boolean, Rational, String, Set "
                      "(with the homotypic decorator, _elementwise, _attribute) and the defaults of Any are translated from the working tree into Lean definitions over dynamically typed Python objects; proved for all inputs: on every "
                      "pair of model values (primitives; sets of primitives, a string element in any spelling) every translated binary operator, the three unary operators, the attribute operator and Set(...) return an object denoting the "
                      "model's result or raise the Python exception class of the model's error (UndefinedOperatorError / UndefinedAttributeError / InvalidOperandError, all InvalidDefinitionErrors by the class statements of _any.py) - for every call budget "
                      "of the late-binding environment, so never a RecursionError; the C04 operator statements (exact + - * / % ** and comparisons on Fractions as numerator/denominator pairs against Lean's Rat incl. CPython's Fraction._mod as floored modulo, "
                      "| ^ & as two's complement bit operations (Int.testBit), the definedness table, set algebra / comparison / element-wise application / min max count, set literals) are restated over the translated functions.",
        "level_note": _NOTE + " Non-integral exponents (Python floats, inexact by construction), sets whose elements are sets and type expressions as atoms "
                      "are outside the model (explicit 'inexact'/'unsupported'/'none' outcomes, excluded or skipped); they are covered by the oracle/correspondence only. NFC: the model implements UAX #15 (Ex.Ucd.nfc) "
                      "and receives, per case, an extract of the Unicode Character Database of the Python interpreter (unicodedata: canonical combining classes, full canonical decompositions, primary composites "
                      "= two-character canonical decompositions whose composite is its own NFC form) for the closure of the case's code points under decomposition and pairwise composition; trusted: that extract "
                      "(the UCD itself and the completeness of the closure, harness/suites/expr.py ucd_extract) - the algorithm is not proved equal to Unicode's definition but is compared on every string-valued case "
                      "with unicodedata.normalize (the model's normalised value 'vn' against the library's value normalised by the harness; 320 000 random strings over all characters with a decomposition or a "
                      "combining class agreed when it was written). The oracle's reference is unicodedata.normalize alone. String values are compared in NFC form (equal strings are one value); inside a set the model keeps the normal form as the representative of a string element, the library the first raw spelling it met - no operator of the language distinguishes them. pydsdl's PEG is scannerless: the "
                      "factorisation into a lexer (Ex.lex) and a token-level PEG (Ex.parse) is part of the hand-written model and is validated on every generated text, not proved against parsimonious.",
        "partial": ["identifiers that the grammar reads as a literal or a type (`trueish`, `uint8x`, `boolean`: syntax errors in the library, Tok.ok = false) and versioned type names as atoms are outside the "
                    "lexer theorem (the lexer answers `none` for a primitive type name and does not detect versioned ones)",
                    "string literal decoding (escapes) is modelled character by character and tied by the correspondence; integer and real literals have theorems",
                    "the lexical forms of literals (`Tok.ok`: the text is one terminal of its kind) are a decidable hypothesis of the lexer theorem; that the grammar-shaped texts are such terminals is proved for integer "
                    "literals in the four bases (C04.lexer_literals_prefixed/_decimal), for real and string literals it is checked on every generated case only",
                    "non-integral exponents, nested sets: outside the model",
                    "NFC string equality is inside the model and the oracle; the normal form is a parameter of the theorems (C04.strings, C04.strings_equivalence hold for every normalisation function) and the "
                    "concrete algorithm Ex.Ucd.nfc has the Hangul round trip and closed examples as theorems only - its agreement with Unicode NFC rests on the per-case character data and the correspondence"],
        "assumptions": ["lean/Model/Expr.lean mirrors grammar.parsimonious, _parser.py and _expression/*.py (validated by the expr correspondence on every run)",
                        "operators: lean/PyLib/Expr.lean is the meaning of the translated Python fragment (dynamic objects, exceptions by class, fractions.Fraction as normalised pairs, frozenset as duplicate-free list with idealised collision-free hashes and one fixed iteration order, "
                        "float results of non-integral powers unmodelled) and tools/py2lean_expr.py translates faithfully; which function of _operator.py a grammar rule calls (_parser.py) is covered by the correspondence only; "
                        "NFC is a congruence for concatenation (BridgeEx.NfcLaws, needed only where a string element of a set is concatenated with a string)"],
    },
    "C12": {
        "module": ["Props.C12", "Props.C12Gen"],
        "suites": [("const", (8000, 200000))],
        "rule": "every width 1..64 x unsigned saturated/truncated and signed: the six points around both ends of the range (corpus, exhaustive); random (type, initialiser) pairs: boundaries of the "
                "own and neighbouring widths +-2, 2**63/2**64 edges, float16/32/64 +-max finite +-1, +-1/3, +-1e-30, +-max/2**60, non-integers, strings of length 0/1/2 incl. NUL, DEL, U+0080, "
                "non-ASCII, booleans, sets, ill-formed type parameters (int1, truncated int8, uint65, float17) and types that cannot carry constants (void, arrays, byte, utf8); initialisers spelled as "
                "literals in any base, 2**k-1 forms, sums, quotients; reference family (one case in seven): definitions with 1-3 earlier constants of every kind (a character, a boolean, integers at the "
                "ends of their ranges, rationals a binary float represents exactly or not, saturated / truncated types, constants that refer to earlier ones) followed by `<type> X = <expression over "
                "their names>` (bare copy into the same / a wider / a narrower type, arithmetic, comparisons, logic, two names, sets of names) with the target type chosen around the value; the expected "
                "value is computed from the STORED values of the referenced constants, the earlier constants of the returned model are judged too; one in three is a service whose other section "
                "declares constants of the same names with other values; placement family (one general / character case in four): the constant statement at the "
                "first / middle / last position of its section (message, request section - last means right before `---` -, response section) x "
                "every ending of the text (final newline, none, trailing blanks / tab, trailing comment, empty comment `#`, each with and without "
                "the final newline, an empty last line, CR LF line ends with and without the last one), compliant and non-compliant initialisers "
                "alike: a compliant one must be in that section of the returned model with the stored value; distinct = distinct (type, initialiser text)",
        "technique": "Lean 4 theorems over a model of Constant.__init__ and inclusive_value_range; the model is proved equal to Lean definitions that are translated on every run from the working tree "
                     "(py2lean: Constant.__init__, the constructors / inclusive_value_range / class hierarchy of _primitive.py incl. the table of the float limits, Rational.is_integer, the value classes of "
                     "_expression) by bridge theorems + differential correspondence through `<type> X = <expr>` definitions + declarative oracle on Python integers/Fractions",
        "level_text": "Proved in Lean 4 for the model: the signed range the code computes from ((1<<n)-1)//2 is [-2^(n-1), 2^(n-1)-1] for every n>=1, the unsigned range is [0, 2^n-1], the float ranges are "
                      "+-(largest finite value) of binary16/32/64 as exact rationals; and constCheck ty v = ok v' if and only if the rule of the property holds (bool<->bool; integers integral and in range; "
                      "floats rational in range; a one-character ASCII string only for 8-bit unsigned, stored as its code point; value otherwise stored unchanged; only bool/integer/float types with legal "
                      "parameters). Proved for the code as translated from the working tree (Gen.Constant; Bridge.gen_const, Props.C12Gen): the translated constructor of the type followed by the translated "
                      "Constant.__init__ returns, for every type descriptor and every value, exactly what the model predicts - the same stored value, or one of InvalidConstantValueError / InvalidTypeError / "
                      "InvalidBitLengthError / InvalidCastModeError, never a failed assert, a missing attribute, a stray KeyError or a step outside the translated fragment - hence it accepts an initialiser "
                      "iff the rule of the property holds (C12.gen_iff, C12.gen_total), stores the initialiser itself or the code point of the single ASCII character (C12.gen_stored_exact), and the float "
                      "limits it computes with Fraction arithmetic are the IEEE maxima (C12.gen_float_limits, C12.gen_float_accepts); every isinstance is decided through the class hierarchy read from the "
                      "class statements. Constant.value of the real library is compared with the model and with the initialiser on every run.",
        "level_note": _NOTE + " For C12 the hand-written model lean/Model/Const.lean (constCheck) is additionally proved equal to the translated code; trusted there: the translator tools/py2lean_const.py and "
                      "the meaning of its Python fragment lean/PyConst.lean (int = Int, Fraction = Rat, str = code points, objects = class + assigned attributes, isinstance by method resolution order), and "
                      "what the slice leaves out: Attribute.__init__ (name rules: C05; serializability), the parser's mapping of a type expression to a constructor call, _check_aggregation (which is what "
                      "rejects byte/utf8 constants: Constant.__init__ treats them as uint8, C12.gen_byte_utf8_as_uint8).",
        "partial": [],
        "assumptions": ["tools/py2lean_const.py translates the Python fragment faithfully (lean/PyConst.lean states its meaning); lean/Model/Const.lean additionally validated by the const correspondence on every run"],
    },
    "C13": {
        "module": ["Props.C13", "Props.C13Gen"],
        "suites": [("garbage", (4000, 150000))],
        "rule": "five streams: token-level mutations (delete/duplicate/swap/replace/insert, 1-3 per text) of 8 valid definitions incl. a service, a union, references to other types; character noise "
                "(punctuation, every C0 control, DEL, NEL, NBSP, LS/PS, BOM, ZWSP, RLO, combining marks, non-ASCII digits, astral characters) and pure noise; targeted arithmetic corner cases as "
                "expression trees (roots of negatives, operands/results beyond the double range, 0**-n, /0, escapes above U+10FFFF, lone surrogates in constants, literals and printed values around "
                "CPython's 4300-digit limits, empty/heterogeneous sets, capacities 0/-1/2**64); nesting 2..300 of parentheses/braces/unary operators and sums of up to 1500 terms; arbitrary file and "
                "directory names (dots, signs, blanks, non-ASCII digits, control characters, long names, both extensions) incl. two files of one (name, version); read with read_namespace; "
                "diagnostic paths (14% of the cases + a fixed sample): namespaces with exactly one defect or one defective pair of files, one family per rule the library reports (every subclass of "
                "InvalidDefinitionError is reached: undefined type / version / namespace, undefined identifier, unknown and misused directives, extent against the size of the type, missing "
                "serialization mode, minor versions that disagree in extent / sealing / kind / port-ID or are defined twice, constants out of range or of the wrong kind, capacities, bit lengths, "
                "cast modes, reserved / too long / colliding / non-ASCII names, union and aggregation rules, port-IDs at and beyond their limits, version numbers, malformed file names, root and "
                "lookup directories against each other, a target outside of every root, undefined attributes and operators, failing assertions, syntax errors at extreme positions), each with "
                "EXTREME parameters (2**64, around the largest double 2**1024 and 8x / 64x that, 10**400, 10**4000, beyond the 4300-digit limit, names and literals of 10**4 characters) and TIED "
                "candidates (no / one / two equally close / a ring of / many other versions of the requested type, equally similar names, letter-case variants, the same candidates in a second "
                "directory), the defect placed in a plain definition, a service section, a union, a nested namespace, a dependency, a dependency of a dependency or a lookup namespace, read through "
                "read_namespace / read_files (all files) / read_files (one target); the error must name the offending file",
        "technique": "Lean 4 theorems over the exception funnel as a decision function and over a hazard model of expression evaluation; totality of file-name parsing proved over Lean definitions translated from the working tree on every run (py2lean_filename: Gen.FileName, Props.C13Gen) + differential correspondence (the model predicts ok/invalid/hazard for the "
                     "modelled expressions) + the exception class as oracle",
        "level_text": "Proved in Lean 4 for the model: the funnel (parse: Error passes, ParseError -> syntax error, VisitationError -> InternalError; read/_read_definitions: Error passes with path, anything else -> "
                      "InternalError) surfaces an inner invalid outcome as invalid with the path and lets nothing but MemoryError/SystemError through as foreign; an expression inside the bounds (literals within "
                      "the conversion limit, escapes within Unicode, exponents integral by syntax) evaluates to a value or an InvalidDefinition-class rejection in every environment - no hazardous Python "
                      "operation is reached; hazards of the binary operators arise only from non-integral exponents; Constant.__init__ reaches no hazard (a lone surrogate in a string initialiser is encoded with surrogatepass: three bytes, an invalid definition). On the real library every "
                      "outcome other than a model / InvalidDefinitionError with a path inside the namespace is a violation; nine classes of genuine defects are observed on the pinned tree (see known findings).",
        "level_note": _NOTE + " The completeness of the hazard list, the parsimonious engine, CPython limits (recursion depth, 4300-digit conversions, memory) and arbitrary definition texts (the model has no "
                      "full DSDL reader in this group) are covered by the differential streams only.",
        "partial": ["completeness of the hazard list is validated only by the differential streams",
                    "random garbage texts are judged by the oracle only (the Lean side predicts outcomes for the modelled expression cases)",
                    "file names: proved over the code generated from DSDLDefinition.__init__ / _parse_decimal for every Unicode text (C13.gen_filename_total); the meaning of int() / str.isdigit() in PyLib is "
                    "CPython's rule on ASCII text only - the translated code reaches them behind str.isascii(); pathlib (how the root name, base name and directory names are obtained) is not translated"],
        "assumptions": ["lean/Model/Const.lean (funnel, hazards) mirrors _parser.parse, DSDLDefinition.read, _read_definitions (validated by the garbage correspondence on every run)"],
    },
}

# --- proposed known-finding entries (genuine defects of pydsdl observed on the unchanged tree; see the suite `garbage`)
PROPOSED_FINDINGS = [
 {
  "property": "C13",
  "suite": "garbage",
  "signature": "C13/internal/Rational._power-complex",
  "what": "F2a: a power with a negative base and a non-integral exponent (e.g. `@assert (-1) ** 0.5 == 1`) surfaces as InternalError (ValueError: Rational from complex) instead of InvalidDefinitionError",
  "case": {
   "kind": "arith-text",
   "files": [
    [
     "ns/B.1.0.dsdl",
     "uint8 v\n@sealed\n"
    ],
    [
     "ns/S.1.0.dsdl",
     "uint8 q\n@sealed\n---\nuint8 r\n@sealed\n"
    ],
    [
     "ns/A.1.0.dsdl",
     "@assert (-1) ** 0.5 == 1\n@sealed\n"
    ]
   ]
  },
  "status": "open"
 },
 {
  "property": "C13",
  "suite": "garbage",
  "signature": "C13/internal/Rational._power-overflow",
  "what": "F2b: a non-integral power whose operand or result exceeds the double range (e.g. `@print 1e400 ** 0.5`, `@print 10.0 ** 1000.5`) surfaces as InternalError (OverflowError)",
  "case": {
   "kind": "arith-text",
   "files": [
    [
     "ns/B.1.0.dsdl",
     "uint8 v\n@sealed\n"
    ],
    [
     "ns/S.1.0.dsdl",
     "uint8 q\n@sealed\n---\nuint8 r\n@sealed\n"
    ],
    [
     "ns/A.1.0.dsdl",
     "@print 1e400 ** 0.5\n@sealed\n"
    ]
   ]
  },
  "status": "open"
 },
 {
  "property": "C13",
  "suite": "garbage",
  "signature": "C13/internal/string-escape-chr-range",
  "what": "F3: a string escape above U+10FFFF (e.g. `@print '\\UFFFFFFFF'`, `'\\U00110000'`) surfaces as InternalError (OverflowError/ValueError from chr())",
  "case": {
   "kind": "arith-text",
   "files": [
    [
     "ns/B.1.0.dsdl",
     "uint8 v\n@sealed\n"
    ],
    [
     "ns/S.1.0.dsdl",
     "uint8 q\n@sealed\n---\nuint8 r\n@sealed\n"
    ],
    [
     "ns/A.1.0.dsdl",
     "@print '\\UFFFFFFFF'\n@sealed\n"
    ]
   ]
  },
  "status": "open"
 },
 {
  "property": "C13",
  "suite": "garbage",
  "signature": "C13/internal/Constant-surrogate-encode",
  "what": "F4: a lone surrogate in a string initializer of an integer constant (e.g. `uint8 A = '\\ud800'`) surfaces as InternalError (UnicodeEncodeError)",
  "case": {
   "kind": "arith-text",
   "files": [
    [
     "ns/B.1.0.dsdl",
     "uint8 v\n@sealed\n"
    ],
    [
     "ns/S.1.0.dsdl",
     "uint8 q\n@sealed\n---\nuint8 r\n@sealed\n"
    ],
    [
     "ns/A.1.0.dsdl",
     "uint8 A = '\\ud800'\n@sealed\n"
    ]
   ]
  },
  "status": "open"
 },
 {
  "property": "C13",
  "suite": "garbage",
  "signature": "C13/internal/literal-int-digit-limit",
  "what": "F12: an integer or real literal of more than 4300 decimal digits surfaces as InternalError (ValueError: CPython's int<-str conversion limit)",
  "case": {
   "kind": "arith-text",
   "files": [
    [
     "ns/B.1.0.dsdl",
     "uint8 v\n@sealed\n"
    ],
    [
     "ns/S.1.0.dsdl",
     "uint8 q\n@sealed\n---\nuint8 r\n@sealed\n"
    ],
    [
     "ns/A.1.0.dsdl",
     "@print 11111111111111111111111111111111111111111111111111111111111111111111111111111111111111111111111111111111111111111111111111111111111111111111111111111111111111111111111111111111111111111111111111111111111111111111111111111111111111111111111111111111111111111111111111111111111111111111111111111111111111111111111111111111111111111111111111111111111111111111111111111111111111111111111111111111111111111111111111111111111111111111111111111111111111111111111111111111111111111111111111111111111111111111111111111111111111111111111111111111111111111111111111111111111111111111111111111111111111111111111111111111111111111111111111111111111111111111111111111111111111111111111111111111111111111111111111111111111111111111111111111111111111111111111111111111111111111111111111111111111111111111111111111111111111111111111111111111111111111111111111111111111111111111111111111111111111111111111111111111111111111111111111111111111111111111111111111111111111111111111111111111111111111111111111111111111111111111111111111111111111111111111111111111111111111111111111111111111111111111111111111111111111111111111111111111111111111111111111111111111111111111111111111111111111111111111111111111111111111111111111111111111111111111111111111111111111111111111111111111111111111111111111111111111111111111111111111111111111111111111111111111111111111111111111111111111111111111111111111111111111111111111111111111111111111111111111111111111111111111111111111111111111111111111111111111111111111111111111111111111111111111111111111111111111111111111111111111111111111111111111111111111111111111111111111111111111111111111111111111111111111111111111111111111111111111111111111111111111111111111111111111111111111111111111111111111111111111111111111111111111111111111111111111111111111111111111111111111111111111111111111111111111111111111111111111111111111111111111111111111111111111111111111111111111111111111111111111111111111111111111111111111111111111111111111111111111111111111111111111111111111111111111111111111111111111111111111111111111111111111111111111111111111111111111111111111111111111111111111111111111111111111111111111111111111111111111111111111111111111111111111111111111111111111111111111111111111111111111111111111111111111111111111111111111111111111111111111111111111111111111111111111111111111111111111111111111111111111111111111111111111111111111111111111111111111111111111111111111111111111111111111111111111111111111111111111111111111111111111111111111111111111111111111111111111111111111111111111111111111111111111111111111111111111111111111111111111111111111111111111111111111111111111111111111111111111111111111111111111111111111111111111111111111111111111111111111111111111111111111111111111111111111111111111111111111111111111111111111111111111111111111111111111111111111111111111111111111111111111111111111111111111111111111111111111111111111111111111111111111111111111111111111111111111111111111111111111111111111111111111111111111111111111111111111111111111111111111111111111111111111111111111111111111111111111111111111111111111111111111111111111111111111111111111111111111111111111111111111111111111111111111111111111111111111111111111111111111111111111111111111111111111111111111111111111111111111111111111111111111111111111111111111111111111111111111111111111111111111111111111111111111111111111111111111111111111111111111111111111111111111111111111111111111111111111111111111111111111111111111111111111111111111111111111111111111111111111111111111111111111111111111111111111111111111111111111111111111111111111111111111111111111111111111111111111111111111111111111111111111111111111111111111111111111111111111111111111111111111111111111111111111111111111111111111111111111111111111111111111111111111111111111111111111111111111111111111111111111111111111111111111111111111111111111111111111111111111111111111111111111111111111111111111111111111111111111111111111111111111111111111111111111111111111111111111111111111111111111111111111111111111111111111111111111111111111111111111111111111111111111111111111111111111111111111111111111111111111111111111111111111111111111111111111111111111111111111111111111111111111111111111111111111111111111111111111111111111111111111111111111111111111111111111111111111111111111111111111111111111111111111111111111111111111111111111111111111111\n@sealed\n"
    ]
   ]
  },
  "status": "open"
 },
 {
  "property": "C13",
  "suite": "garbage",
  "signature": "C13/internal/int-to-str-digit-limit",
  "what": "F12b (new): formatting a value of more than 4300 decimal digits (e.g. `@print 10 ** 4300`, or any error message that quotes such a value) surfaces as InternalError (ValueError: CPython's int->str conversion limit)",
  "case": {
   "kind": "arith-text",
   "files": [
    [
     "ns/B.1.0.dsdl",
     "uint8 v\n@sealed\n"
    ],
    [
     "ns/S.1.0.dsdl",
     "uint8 q\n@sealed\n---\nuint8 r\n@sealed\n"
    ],
    [
     "ns/A.1.0.dsdl",
     "@print 10 ** 4300\n@sealed\n"
    ]
   ]
  },
  "status": "open"
 },
 {
  "property": "C13",
  "suite": "garbage",
  "signature": "C13/internal/RecursionError",
  "what": "F13: nesting of about 45 or more parentheses / set braces / unary operators (default recursion limit 1000) surfaces as InternalError (RecursionError)",
  "case": {
   "kind": "arith-text",
   "files": [
    [
     "ns/B.1.0.dsdl",
     "uint8 v\n@sealed\n"
    ],
    [
     "ns/S.1.0.dsdl",
     "uint8 q\n@sealed\n---\nuint8 r\n@sealed\n"
    ],
    [
     "ns/A.1.0.dsdl",
     "@print ((((((((((((((((((((((((((((((((((((((((((((((((((((((((((((1))))))))))))))))))))))))))))))))))))))))))))))))))))))))))))\n@sealed\n"
    ]
   ]
  },
  "status": "open"
 },
 {
  "property": "C13",
  "suite": "garbage",
  "signature": "C13/foreign/same-name-and-version-twice",
  "what": "F9: two files defining the same (name, version) with different contents (e.g. ns/A.1.0.dsdl and ns/7000.A.1.0.dsdl) let a bare AssertionError escape from _ensure_minor_version_compatibility_pairwise",
  "case": {
   "kind": "names",
   "files": [
    [
     "ns/A.1.0.dsdl",
     "uint8 a\n@sealed\n"
    ],
    [
     "ns/7000.A.1.0.dsdl",
     "@sealed\n"
    ]
   ],
   "names": [
    "A.1.0.dsdl",
    "7000.A.1.0.dsdl"
   ]
  },
  "status": "open"
 }
]
