"""
Per-property configuration, merged from harness/reg/*.py (one file per group, each defining REG = {id: entry}).

Entry keys: module (Props module name or list of names), suites [(suite name, (quick cases, thorough cases))],
rule, technique, level_text, level_note, partial, assumptions, trusted (optional).
"""
import importlib
import pkgutil
from pathlib import Path

REGISTRY = {}
NOT_CLAIMED = {}

_pkg = Path(__file__).resolve().parent / "reg"
for _m in sorted(pkgutil.iter_modules([str(_pkg)]), key=lambda m: m.name):
    _mod = importlib.import_module("reg." + _m.name)
    REGISTRY.update(getattr(_mod, "REG", {}))
    NOT_CLAIMED.update(getattr(_mod, "NOT_CLAIMED", {}))

# Only properties listed in harness/enabled.txt are claimed (groups still under construction stay out of MANIFEST.json).
_enabled = {l.strip() for l in (Path(__file__).resolve().parent / "enabled.txt").read_text().split() if l.strip()}
PENDING = {k: v for k, v in REGISTRY.items() if k not in _enabled}
REGISTRY = {k: v for k, v in REGISTRY.items() if k in _enabled}
