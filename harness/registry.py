"""
Per-property configuration, merged from harness/reg/*.py (one file per group, each defining REG = {id: entry}).

Entry keys: module (Props module name or list of names), suites [(suite name, (quick cases, thorough cases))],
rule, technique, level_text, level_note, partial, assumptions, trusted (optional).
"""
import importlib
import pkgutil
from pathlib import Path

REGISTRY = {}
NOT_CLAIMED = {}

_pkg = Path(__file__).resolve().parent / "reg"
for _m in sorted(pkgutil.iter_modules([str(_pkg)]), key=lambda m: m.name):
    _mod = importlib.import_module("reg." + _m.name)
    REGISTRY.update(getattr(_mod, "REG", {}))
    NOT_CLAIMED.update(getattr(_mod, "NOT_CLAIMED", {}))

# halves of a property delivered by different groups are merged here (C14: layout half + wire half)
try:
    from reg.wire import C14_WIRE as _c14w
    if "C14" in REGISTRY:
        _e = dict(REGISTRY["C14"])
        _e["module"] = list(_e["module"]) + list(_c14w["module"])
        _e["suites"] = list(_e["suites"]) + list(_c14w["suites"])
        _e["partial"] = [p for p in _e.get("partial", []) if not p.startswith("wire half (data written")] + list(_c14w.get("partial", []))
        _e["assumptions"] = list(_e.get("assumptions", [])) + list(_c14w.get("assumptions", []))
        _e["rule"] = "layout half: " + _e["rule"] + " | wire half: " + _c14w["rule"]
        _e["level_text"] = _e["level_text"] + " Wire half: " + _c14w.get("level_text", "")
        _e["technique"] = _e["technique"] + "; " + _c14w.get("technique", "")
        REGISTRY["C14"] = _e
except ImportError:
    pass

# cross-model theorems joining the wire model and the layout model (written by the coordinator)
if "C06" in REGISTRY:
    _e = dict(REGISTRY["C06"])
    _e["module"] = list(_e["module"]) + ["Props.C06Layout"]
    _e["level_text"] = _e["level_text"] + (" Joint theorem with C02: the length of every encoding is an element of the set denoted by the library's "
                                            "bit_length_set expression for the corresponding layout type (C06.length_in_bit_length_set), and the wire model's "
                                            "length predicate coincides with the Specification's length set (C06.length_set_is_layout_spec).")
    REGISTRY["C06"] = _e

if "C08" in REGISTRY:
    _e = dict(REGISTRY["C08"])
    _e["module"] = ([_e["module"]] if isinstance(_e["module"], str) else list(_e["module"])) + ["Props.C08Wire"]
    _e["level_text"] = _e["level_text"] + (" Joint theorems with the wire model (Props/C08Wire.lean): the position at which the encoder writes each field of a (sealed or "
                                            "delimited) structure, and the selected variant of a union, belongs to the offset set handed out for it, for every valid value and origin.")
    _e["partial"] = list(_e.get("partial", [])) + ["exactness in the reverse direction (every element of an offset set is the real position of the field for some origin and some valid value) is proved for structures without delimited members (C08.struct_field_offsets_realised, C08.delimited_field_offsets_realised); with delimited members it is observed through the wire and layout correspondences"]
    REGISTRY["C08"] = _e

# bit-level reader / writer refinement (both code paths of _BitWriter / _BitReader), shared by C06 and C07
for _pid in ("C06", "C07"):
    if _pid in REGISTRY:
        _e = dict(REGISTRY[_pid])
        _e["module"] = list(_e["module"]) + ["Props.C06BitIO"]
        _e["suites"] = list(_e["suites"]) + [("bitio", (3000, 100000))]
        _e["partial"] = [p for p in _e.get("partial", []) if "one function in the model" not in p]
        _e["level_text"] = _e["level_text"] + (" The two code paths of _BitWriter.write_bits / _BitReader.read_bits (incl. the limit logic of bounded sub-readers) are modelled "
                                               "separately (Model/BitIO.lean) and proved to refine the single stream function of the codec model for every offset, width and "
                                               "operation history (Props/C06BitIO.lean); tied to the private classes by the bitio correspondence.")
        REGISTRY[_pid] = _e

# generator families added while strengthening for the round-5 seeds (appended to the groups' own rule texts)
_RULE_ADDENDA = {
    "C06": "attribute plans for composites built through the constructors (constants first / last / before every field / anywhere, at every composite of the tree); "
           "6% of the types are obtained from generated DSDL text under version numbers (read_namespace / read_files, message or service section)",
    "C07": "hdrcut / innercut cases: prefixes ending at every byte from 2 bytes in front of a delimiter header to 6 bytes behind it, for up to 3 headers of any depth incl. the "
           "top-level with_delimiter_header one, and enclosing payloads ending at every byte around a nested header; nest types (delimited inside delimited, 2-4 levels); the zero-extension "
           "exemption is decided by an independent reference reading of the bytes (only array length > capacity, tag out of range, header > remaining window reject)",
    "C14": "65% of the pairs carry a source: read from generated DSDL text (two minor versions side by side or two checkouts, majors from {0,1,2,3,7,100,255}, message or service "
           "section, constants first / last / mixed) or built through the constructors under version numbers",
    "C18": "look-alike pairs differing in exactly one observable while the others coincide (sealed vs delimited with coinciding bit length sets in many shapes, structure vs union, "
           "equal (min, max, residues) but different sets, one definition attribute); 4% of the cases of every kind cross a process boundary: pickled here (alone, in containers, as "
           "members), unpickled under another PYTHONHASHSEED and compared member by member with twins built there, and back",
    "C12": "20% character family: initialisers drawn per Unicode class computed from unicodedata (ASCII incl. controls, Latin-1, BMP, astral, lone surrogates, code points that "
           "NFC / NFD / NFKC / NFKD / lower / upper / title / casefold turn into ASCII, non-ASCII digits, ASCII + combining mark, empty and two-character strings) in raw and every "
           "escape spelling, for uint8 and widths around 8; every accepted value is also passed through the public constructors",
    "C13": "9% name constellations: namespaces named like types, types named like their namespace, Request / Response inside a namespace named like a service, case variants, "
           "further versions of the same or the other kind, referrers; each file individually valid; read by read_namespace, read_files with all files, read_files with one target",
}
for _pid, _txt in _RULE_ADDENDA.items():
    if _pid in REGISTRY:
        _e = dict(REGISTRY[_pid])
        _e["rule"] = _e["rule"] + " | added in round 5: " + _txt
        REGISTRY[_pid] = _e

# Only properties listed in harness/enabled.txt are claimed (groups still under construction stay out of MANIFEST.json).
_enabled = {l.strip() for l in (Path(__file__).resolve().parent / "enabled.txt").read_text().split() if l.strip()}
PENDING = {k: v for k, v in REGISTRY.items() if k not in _enabled}
REGISTRY = {k: v for k, v in REGISTRY.items() if k in _enabled}
